// C10 / C05 / C09 -- slotted-page maintenance corrupted live cells:
//  (1) BtreePage::defragment moved cells with a non-overlapping copy (copy_from_slice on two slices of
//      the same page): a cell that slides right by less than its own size lost its tail.  Seen from
//      SQL: the catalog row of a table grows with every INSERT (a new version per next_row_id), the
//      8th INSERT into `a` defragments the catalog page and the schema blob of the NEXT table `b` is
//      damaged -- every later statement on `b` panicked ("Failed to deserialize schema").
//  (2) BtreePage::replace with a smaller cell moved the free-space pointer up by the bytes gained,
//      i.e. into the live cell area: the next insert on the page overwrote a cell.
// (a)/(b) go into crates/axmos-db/src/storage/tests/mod.rs, (c) into crates/axmos-db/src/tests/mod.rs.
// All three FAIL before the fixes.

// (a)
#[test]
fn c10_defragment_keeps_cell_contents() {
    let mut p = BtreePage::alloc(1, 4096);
    let pat: Vec<u8> = (0..=255u8).cycle().take(600).collect();
    p.push(OwnedCell::new(&[0x11; 40])).unwrap();     // highest cell
    p.push(OwnedCell::new(&pat)).unwrap();            // big cell below it
    p.remove(0).unwrap();                             // a hole above the big cell
    p.defragment();                                   // the big cell slides right by less than its size
    assert_eq!(p.cell(0).effective_data(), &pat[..]);
}

// (b)
#[test]
fn c10_replace_by_a_smaller_cell_keeps_the_page_sound() {
    let mut p = BtreePage::alloc(1, 4096);
    p.push(OwnedCell::new(&[0xAA; 64])).unwrap();
    p.push(OwnedCell::new(&[0xBB; 64])).unwrap();
    p.replace(1, OwnedCell::new(&[0xCC; 16])).unwrap();
    p.push(OwnedCell::new(&[0xDD; 64])).unwrap();
    assert!(p.cell(0).effective_data().iter().all(|b| *b == 0xAA));
    assert!(p.cell(1).effective_data().iter().all(|b| *b == 0xCC) && p.cell(1).effective_data().len() == 16);
    assert!(p.cell(2).effective_data().iter().all(|b| *b == 0xDD));
}

// (c)
#[test]
fn c10_inserts_into_one_table_do_not_damage_another() {
    let db = TestDb::new();
    db.execute_ok("CREATE TABLE a (id BIGINT, x INT)");
    db.execute_ok("CREATE TABLE b (id BIGINT, y INT, z INT)");
    for i in 0..300 {   // also: the 256th INSERT used to overflow the catalog row's one-byte version label
        db.execute_ok(&format!("INSERT INTO a VALUES ({}, {})", i, i * 10));
    }
    assert_eq!(db.query_count("a"), 300);
    assert_eq!(db.query_count("b"), 0);
}
