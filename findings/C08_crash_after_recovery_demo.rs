// C08 / C01 -- "yields the same contents no matter how many times recovery was interrupted and
// restarted": Database::run_recovery truncated the log right after redo, while the redone pages
// were still only in the cache.  A crash between the end of recovery and the next checkpoint lost
// the committed work for good.  Goes into crates/axmos-db/src/tests/mod.rs; FAILS before the fix
// (the third count is 0).  mem::forget stands for the crash: no Drop, nothing is flushed.
#[test]
fn c08_crash_right_after_recovery_loses_nothing() {
    let (dir, path) = temp_db_path();
    let count = |db: &Database| -> i64 {
        let rows = db.execute("SELECT COUNT(*) FROM t").unwrap().into_rows().unwrap();
        rows.first().unwrap()[0].as_big_int().unwrap().value()
    };
    {
        let db = Database::create(&path, DBConfig::default()).unwrap();
        db.execute("CREATE TABLE t (id BIGINT, value INT)").unwrap();
        db.flush().unwrap();
        db.execute("INSERT INTO t VALUES (1, 100)").unwrap(); // committed: in the log, not in the file
        assert_eq!(count(&db), 1);
        std::mem::forget(db);
    }
    {
        let db = Database::open(&path, DBConfig::default()).unwrap(); // recovery redoes the insert
        assert_eq!(count(&db), 1);
        std::mem::forget(db); // second crash, before any checkpoint
    }
    {
        let db = Database::open(&path, DBConfig::default()).unwrap();
        assert_eq!(count(&db), 1, "the committed row must survive a crash right after recovery");
        std::mem::forget(db);
    }
    drop(dir);
}
