//! Demonstrations of the WAL force/append defects (C17, C01) on the real code.
use crate::{io::{disk::FileOperations, wal::WriteAheadLog}, record};
use std::io::Write;
use tempfile::tempdir;

fn push_n(wal: &mut WriteAheadLog, from: usize, n: usize, size: usize) {
    for i in from..from + n {
        let data = vec![(i % 251) as u8; size];
        let rec = record!(insert i, i, i, i, &data);
        wal.push(rec).unwrap();
    }
}

fn read_lsns(wal: &mut WriteAheadLog, read_ahead: usize) -> Vec<u64> {
    let mut reader = wal.reader(read_ahead).unwrap();
    let mut v = Vec::new();
    while let Some(r) = reader.next_ref().unwrap() {
        v.push(r.lsn());
    }
    v
}

/// force, clean close (Drop forces again), reopen: every forced record must be read back
#[test]
#[serial_test::serial]
fn c17_force_then_close_then_reopen_keeps_all_records() {
    let dir = tempdir().unwrap();
    let path = dir.path().join("a.log");
    {
        let mut wal = WriteAheadLog::create(&path).unwrap();
        push_n(&mut wal, 0, 30, 8000); // ~240 KB: block zero + several numbered blocks
        wal.flush().unwrap();
    }
    let mut wal = WriteAheadLog::open(&path).unwrap();
    let got = read_lsns(&mut wal, 2);
    assert_eq!(got, (0..30u64).collect::<Vec<_>>());
}

/// two forces with more than a block of log in between: the second force must not overwrite
/// what the first one made durable, and order must be append order
#[test]
#[serial_test::serial]
fn c17_two_forces_keep_earlier_blocks_and_order() {
    let dir = tempdir().unwrap();
    let path = dir.path().join("b.log");
    let mut wal = WriteAheadLog::create(&path).unwrap();
    push_n(&mut wal, 0, 12, 8000);
    wal.flush().unwrap();
    push_n(&mut wal, 12, 12, 8000);
    wal.flush().unwrap();
    let got = read_lsns(&mut wal, 3);
    assert_eq!(got, (0..24u64).collect::<Vec<_>>());
}

/// small records after a force that left numbered blocks: they must not go back into block zero
#[test]
#[serial_test::serial]
fn c17_append_after_force_stays_in_order() {
    let dir = tempdir().unwrap();
    let path = dir.path().join("c.log");
    let mut wal = WriteAheadLog::create(&path).unwrap();
    push_n(&mut wal, 0, 4, 8000);   // fits block zero (40 KB)
    push_n(&mut wal, 4, 3, 8000);   // spills into numbered block 1
    wal.flush().unwrap();
    push_n(&mut wal, 7, 1, 16);     // tiny record: block zero still has room
    wal.flush().unwrap();
    let got = read_lsns(&mut wal, 1);
    assert_eq!(got, (0..8u64).collect::<Vec<_>>());
}

/// the log's last sequence number must follow the appends into numbered blocks, otherwise
/// Pager::push_to_log (lsn = last + 1) hands out the same number again and again
#[test]
#[serial_test::serial]
fn c17_last_lsn_follows_appends_beyond_block_zero() {
    let dir = tempdir().unwrap();
    let path = dir.path().join("d.log");
    let mut wal = WriteAheadLog::create(&path).unwrap();
    push_n(&mut wal, 0, 10, 8000);
    assert_eq!(wal.last_lsn(), Some(9));
}

/// reopen, append, force, read back
#[test]
#[serial_test::serial]
fn c17_reopen_then_append_then_force() {
    let dir = tempdir().unwrap();
    let path = dir.path().join("e.log");
    {
        let mut wal = WriteAheadLog::create(&path).unwrap();
        push_n(&mut wal, 0, 9, 8000);
        wal.flush().unwrap();
    }
    let mut wal = WriteAheadLog::open(&path).unwrap();
    assert_eq!(wal.last_lsn(), Some(8));
    push_n(&mut wal, 9, 9, 8000);
    wal.flush().unwrap();
    let got = read_lsns(&mut wal, 1);
    assert_eq!(got, (0..18u64).collect::<Vec<_>>());
}
