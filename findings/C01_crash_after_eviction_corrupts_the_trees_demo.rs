// C01 / C08 / C12 -- the log is LOGICAL (re-execute the statement's row operations), but the cache wrote
// dirty pages to the data file one by one whenever it evicted them, dealloc_page wrote the freed
// page's image at once, and structural changes of the trees -- page splits, merges, overflow chains,
// the free list -- are not logged at all. After a crash the data file held the last checkpoint plus
// an arbitrary subset of newer pages: a parent that points to a page which is still a free page on
// disk, half of a split, an overflow chain cut in two. Logical redo / undo has to walk these trees
// and failed; nothing could repair them.
// Here: 100 rows, a checkpoint, then 400 more rows through a 32-page cache -- every INSERT
// committed -- and a crash. Database::open failed ("catalog error Btree error: Io error Expected
// overflow frame" -- the catalog's own tree, whose rows are rewritten by every INSERT, is hit first;
// with other sizes "Expected btreepage frame. Page id: 77"), and failed again on every later open.
// NO-STEAL now (fix f7fd299): a dirty frame is never evicted (the cache grows past its capacity
// until the next checkpoint) and dealloc_page leaves the freed page dirty in the cache, so the data
// file changes only at a checkpoint and is, after a crash, the state the log was written against.
// Goes into crates/axmos-db/src/tests/mod.rs; FAILS before the fix.
#[test]
fn c01_committed_rows_survive_a_crash_after_cache_eviction() {
    let (dir, path) = temp_db_path();
    let cfg = || {
        let mut c = DBConfig::default();
        c.cache_size = 32;
        c
    };
    {
        let db = Database::create(&path, cfg()).unwrap();
        db.execute("CREATE TABLE t (id BIGINT, v TEXT)").unwrap();
        let pad = "x".repeat(600);
        for i in 0..100 {
            db.execute(&format!("INSERT INTO t VALUES ({}, '{}')", i * 10, pad)).unwrap();
        }
        db.flush().unwrap();
        for i in 0..400 {
            let id = (i * 7919) % 1000 / 10 * 10 + 1 + (i / 100);
            db.execute(&format!("INSERT INTO t VALUES ({}, '{}')", id, pad)).unwrap();
        }
        std::mem::forget(db); // crash
    }
    let db = Database::open(&path, cfg()).expect("recovery must succeed");
    let n = db.execute("SELECT id FROM t").unwrap().into_rows().unwrap().iterrows().count();
    assert_eq!(n, 500);
    drop(db);
    drop(dir);
}
