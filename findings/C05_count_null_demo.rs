// C05 -- "aggregates ... compute what they say": COUNT(expr) counted NULL values (the accumulator
// skipped NULLs for every aggregate EXCEPT COUNT, because COUNT(*) was fed NULL as its per-row
// marker).  Goes into crates/axmos-db/src/tests/mod.rs; FAILS before the fix (COUNT(value) = 2).
#[test]
fn c05_count_of_a_column_skips_nulls() {
    let db = TestDb::new();
    setup_test_table(&db);
    db.execute_ok("INSERT INTO test VALUES (1, 100)");
    db.execute_ok("INSERT INTO test VALUES (2, NULL)");
    let one = |q: &str| db.execute_ok(q).into_rows().unwrap().first().unwrap()[0].as_big_int().unwrap().value();
    assert_eq!(one("SELECT COUNT(value) FROM test"), 1);
    assert_eq!(one("SELECT COUNT(*) FROM test"), 2);
}
