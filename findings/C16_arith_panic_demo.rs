use axmosdb::{DBConfig, Database};

/// -x for x = i64::MIN must be an error (or a value), never a panic that kills the worker
#[test]
fn negating_the_smallest_bigint_is_an_error_not_a_panic() {
    let dir = tempfile::TempDir::new().unwrap();
    let path = dir.path().join("t.db");
    let db = Database::create(&path, DBConfig::default()).unwrap();
    db.execute("CREATE TABLE t (id BIGINT, v BIGINT)").unwrap();
    db.execute("INSERT INTO t VALUES (1, -9223372036854775807)").unwrap();
    db.execute("UPDATE t SET v = v - 1 WHERE id = 1").unwrap(); // v == i64::MIN
    let r = db.execute("SELECT -v FROM t");
    match r {
        Ok(_) => {}
        Err(e) => {
            let s = format!("{e} {e:?}").to_lowercase();
            assert!(!s.contains("channel") && !s.contains("panic") && !s.contains("disconnected"), "worker died: {s}");
        }
    }
    db.execute("SELECT id FROM t").unwrap();
}
