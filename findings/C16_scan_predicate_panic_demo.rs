// C16 -- IndexScan::next / SeqScan::next evaluated their predicates inside `.filter(|r| ..expect(..))`:
// a predicate the evaluator rejects (wrong arity, type error) PANICKED the worker thread instead of
// failing the statement.  Goes into crates/axmos-db/src/tests/mod.rs; FAILS before the fix.
#[test]
fn c16_predicate_errors_inside_scans_are_statement_errors() {
    let db = TestDb::new();
    for q in ["CREATE TABLE t (id BIGINT, value INT, UNIQUE(value))", "INSERT INTO t VALUES (1, 100)", "INSERT INTO t VALUES (2, 200)"] {
        db.execute(q).unwrap();
    }
    // planned as IndexScan on the UNIQUE(value) index with `ABS(id, 2) = 1` as residual predicate
    let err = db.execute("SELECT id FROM t WHERE value = 100 AND ABS(id, 2) = 1").unwrap_err().to_string();
    assert!(err.contains("invalid arguments"), "{err}");
    for _ in 0..32 { assert_eq!(db.query_count("t"), 2); } // no worker was lost
}
