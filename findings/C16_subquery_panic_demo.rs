// C16 -- "unsupported or malformed statements produce an error rather than a crash": the parser,
// binder and planner accept IN (subquery), EXISTS (subquery) and scalar subqueries, and the
// evaluator answered them with todo!(): the worker thread panicked, the statement came back as
// "Task channel closed unexpectedly" and the pool lost a worker each time.
// Goes into crates/axmos-db/src/tests/mod.rs; FAILS before the fix.
#[test]
fn c16_subqueries_are_rejected_not_panicked_on() {
    let db = TestDb::new();
    setup_test_table(&db);
    db.execute_ok("INSERT INTO test VALUES (1, 100)");
    for q in [
        "SELECT id FROM test WHERE id IN (SELECT id FROM test)",
        "SELECT id FROM test WHERE EXISTS (SELECT id FROM test)",
        "SELECT (SELECT id FROM test) FROM test",
    ] {
        let err = db.execute(q).unwrap_err().to_string();
        assert!(err.contains("not supported"), "{q}: {err}");
    }
    // the pool still has all its workers
    for _ in 0..32 {
        assert_eq!(db.query_count("test"), 1);
    }
}
