// C05 (observed, NOT repaired) -- a numeric literal with a zero fraction is typed as an integer:
// Expr::Number(f64) does not remember that the text had a decimal point and Binder::bind_number
// makes `2.0` an INT. `7 / 2.0` is then an integer division (3), `n / 2.0 > 3.2` is false for
// n = 7, and `UPDATE .. SET d = n / 2.0` stores 3.0 -- wrong values, no error.
// Goes into crates/axmos-db/src/tests/mod.rs; FAILS on the pinned and on the repaired tree.
#[test]
fn c05_a_decimal_literal_is_a_decimal() {
    let db = TestDb::new();
    db.execute_ok("CREATE TABLE one (id BIGINT, n INT, d DOUBLE)");
    db.execute_ok("INSERT INTO one VALUES (1, 7, 2.5)");
    assert_eq!(db.query_count("one"), 1);
    let rows = db.execute_ok("SELECT id FROM one WHERE n / 2.0 > 3.2").into_rows().unwrap();
    assert_eq!(rows.iterrows().count(), 1);
}
