//! Demonstrations of the page-cache defects (C12) on the real code.
use crate::{
    DEFAULT_PAGE_SIZE,
    io::cache::PageCache,
    multithreading::frames::{Frame, MemFrame},
    storage::{core::traits::Allocatable, page::BtreePage},
    types::PageId,
};

fn frame(id: PageId) -> MemFrame {
    MemFrame::from(Frame::from(BtreePage::alloc(id, DEFAULT_PAGE_SIZE)))
}

/// evict must find a free frame wherever it is: the clock hand must not run off the end
#[test]
fn evict_finds_a_free_frame_behind_the_cursor() {
    let mut cache = PageCache::with_capacity(3);
    let pinned: Vec<MemFrame> = (0..3).map(|i| frame(i)).collect();
    for f in &pinned {
        cache.insert(f.clone()).unwrap(); // `pinned` keeps a second handle: not evictable
    }
    // full cache, everything pinned: the out-of-memory error is legitimate here
    assert!(cache.insert(frame(3)).is_err());
    // release every pin: all three cached frames are free now
    drop(pinned);
    let evicted = cache.insert(frame(4)).expect("a free frame exists, eviction must succeed");
    assert!(evicted.is_some());
}

/// clear() hands back the frames for the checkpoint; the cache must stay usable afterwards
#[test]
fn clear_keeps_the_configured_capacity() {
    let mut cache = PageCache::with_capacity(8);
    for i in 0..4 {
        cache.insert(frame(i)).unwrap();
    }
    let drained = cache.clear();
    assert_eq!(drained.len(), 4);
    assert_eq!(cache.get_capacity(), 8);
}

/// remove() must not take a pinned frame out of the cache and drop it
#[test]
fn remove_leaves_a_pinned_frame_in_the_cache() {
    let mut cache = PageCache::with_capacity(4);
    let pin = frame(7);
    cache.insert(pin.clone()).unwrap();
    assert!(cache.remove(7).is_none(), "pinned frame is not handed out");
    assert!(cache.get(&7).is_some(), "pinned frame must still be cached");
}

/// "data survives any amount of cache eviction": the eviction counter of the cache statistics was a
/// `Cell<u16>` incremented with `+ 1` -- the 65 536th eviction overflowed it. In a build with
/// overflow checks (the dev profile, which the test suite runs in) that is a panic inside the pager:
/// every worker that evicts dies and the caller waits for its answer for ever (found by a probe that
/// inserted 1500 rows of 300 bytes through a 16-page cache: it never returned). The statistics
/// counters saturate now (fix 7ba5924). FAILS (panics) before the fix.
#[test]
fn the_cache_survives_more_than_65535_evictions() {
    let mut cache = PageCache::with_capacity(1);
    for i in 0..70_000u64 {
        cache.insert(frame(i)).expect("a one-frame cache with nothing pinned always has room");
    }
    assert_eq!(cache.num_frames(), 1);
}
