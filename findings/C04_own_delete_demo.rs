// C04 -- "overlaid with the transaction's own writes": a transaction that deleted a row which had
// been updated before still read the row (its pre-update version) afterwards.  Goes into
// crates/axmos-db/src/tests/mod.rs; FAILS before the fix (the SELECT returns [Int(100)]).
#[test]
fn c04_own_delete_hides_the_row_from_the_deleter() {
    let db = TestDb::new();
    setup_test_table(&db);
    db.execute_ok("INSERT INTO test VALUES (1, 100)");
    db.execute_ok("UPDATE test SET value = 200 WHERE id = 1");
    let mut session = db.session().unwrap();
    session.execute("DELETE FROM test WHERE id = 1").unwrap();
    let rows = session.execute("SELECT value FROM test").unwrap().into_rows().unwrap();
    assert_eq!(rows.iterrows().count(), 0, "the deleter must not see the row it deleted");
}
