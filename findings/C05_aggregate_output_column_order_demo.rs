// C05 -- "results as SQL defines": HashAggregate emitted every group as [group keys..., aggregates...]
// whatever the select list said, and cast each value to the type of the OUTPUT column at that
// position: `SELECT SUM(v), g FROM t GROUP BY g` returned the key in the SUM column (as a DOUBLE)
// and the sum in the g column -- no error, columns swapped; ORDER BY then sorted by the wrong one;
// `SELECT COUNT(*) FROM t GROUP BY g` failed with "column not found". The row now follows the
// select list: each aggregate at the position of its select item, the keys in the remaining
// positions (the planner lists the selected keys first, in select order).
// Goes into crates/axmos-db/src/tests/mod.rs; FAILS before the fix.
#[test]
fn c05_aggregate_rows_follow_the_select_list() {
    let db = TestDb::new();
    db.execute_ok("CREATE TABLE t (id BIGINT, g INT, v INT)");
    for (id, g, v) in [(1, 1, 10), (2, 1, 20), (3, 2, 30), (4, 2, 30), (5, 3, 50)] {
        db.execute_ok(&format!("INSERT INTO t VALUES ({}, {}, {})", id, g, v));
    }
    let rows = |q: &str| -> Vec<String> {
        db.execute_ok(q).into_rows().unwrap().iterrows().map(|r| format!("{:?}", r)).collect()
    };
    assert_eq!(
        rows("SELECT SUM(v), g FROM t GROUP BY g ORDER BY g"),
        vec![
            "Row([Double(Float64(30.0)), Int(Int32(1))])",
            "Row([Double(Float64(60.0)), Int(Int32(2))])",
            "Row([Double(Float64(50.0)), Int(Int32(3))])"
        ]
    );
    assert_eq!(
        rows("SELECT v, COUNT(*), g FROM t GROUP BY g, v ORDER BY g, v"),
        vec![
            "Row([Int(Int32(10)), BigInt(Int64(1)), Int(Int32(1))])",
            "Row([Int(Int32(20)), BigInt(Int64(1)), Int(Int32(1))])",
            "Row([Int(Int32(30)), BigInt(Int64(2)), Int(Int32(2))])",
            "Row([Int(Int32(50)), BigInt(Int64(1)), Int(Int32(3))])"
        ]
    );
    let mut counts = rows("SELECT COUNT(*) FROM t GROUP BY g");
    counts.sort();
    assert_eq!(counts, vec!["Row([BigInt(Int64(1))])", "Row([BigInt(Int64(2))])", "Row([BigInt(Int64(2))])"]);
}
