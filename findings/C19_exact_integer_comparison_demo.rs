// C19 -- equality and ordering of numeric values went through f64 for every pair of kinds: two
// BIGINT / BIGUINT values that differ but round to the same f64 (anything above 2^53) compared
// EQUAL -- wrong rows from `=`, `<`, ORDER BY, DISTINCT, GROUP BY on large ids. Integers compare
// as integers now, and an integer against a float by value without rounding (which keeps the
// relation transitive across the kinds).
// Goes into crates/axmos-db/src/tests/mod.rs; FAILS before the fix (the first assertion).
#[test]
fn c19_large_integers_compare_exactly() {
    use crate::types::{DataType, Int64, UInt64, Float64};
    // value level: 2^53 + 1 and 2^53 have the same f64 image
    let a = DataType::BigInt(Int64(9007199254740993));
    let b = DataType::BigInt(Int64(9007199254740992));
    assert!(a != b && a > b);
    assert!(DataType::BigUInt(UInt64(u64::MAX)) > DataType::BigUInt(UInt64(u64::MAX - 1)));
    assert!(DataType::BigUInt(UInt64(u64::MAX)) > DataType::BigInt(Int64(i64::MAX)));
    assert!(DataType::BigInt(Int64(-1)) < DataType::BigUInt(UInt64(0)));
    // integer against float, by value: 2^53 + 1 > 2^53 as a double; equal only when exactly equal
    assert!(a > DataType::Double(Float64(9007199254740992.0)));
    assert!(b == DataType::Double(Float64(9007199254740992.0)));
    assert!(DataType::BigInt(Int64(3)) < DataType::Double(Float64(3.5)));
    assert!(DataType::BigInt(Int64(-3)) > DataType::Double(Float64(-3.5)));
    assert!(DataType::BigInt(Int64(i64::MAX)) < DataType::Double(Float64(9223372036854775808.0)));
    // through SQL (the literal 2^53 + 1 itself cannot be written: number literals are read as f64)
    let db = TestDb::new();
    db.execute_ok("CREATE TABLE t (id BIGINT, b BIGINT)");
    db.execute_ok("INSERT INTO t VALUES (1, 9007199254740992 + 1)");
    db.execute_ok("INSERT INTO t VALUES (2, 9007199254740992)");
    let ids = |q: &str| -> Vec<i64> { db.execute_ok(q).into_rows().unwrap().iterrows().map(|r| r[0].as_big_int().unwrap().value()).collect() };
    assert_eq!(ids("SELECT id FROM t WHERE b = 9007199254740992 ORDER BY id"), vec![2]);
    assert_eq!(ids("SELECT id FROM t WHERE b > 9007199254740992 ORDER BY id"), vec![1]);
    assert_eq!(ids("SELECT id FROM t ORDER BY b DESC"), vec![1, 2]);
    assert_eq!(ids("SELECT COUNT(DISTINCT b) FROM t"), vec![2]);
}
