// C13 -- "VACUUM never changes the result of any query issued after it, whatever happened before it
// (... rolled-back deletes ...)" / C03 -- "deleted rows are back": Catalog::vacuum_btree queued
// every row that carries a delete mark for physical removal, without asking whether the deleting
// transaction committed: after `DELETE ...; ROLLBACK; VACUUM` the row was gone for good. Keeping the
// row is not enough either: Database::vacuum trims the aborted set afterwards, and a mark whose
// owner is no longer known as aborted reads as a committed delete -- the mark has to be cleared.
// Goes into crates/axmos-db/src/tests/mod.rs; FAILS before the fix (first count after VACUUM is 1).
#[test]
fn c13_vacuum_keeps_a_row_whose_delete_was_rolled_back() {
    let db = TestDb::new();
    setup_test_table(&db);
    db.execute_ok("INSERT INTO test VALUES (3, 750)");
    db.execute_ok("INSERT INTO test VALUES (4, 800)");
    let mut s = db.session().unwrap();
    s.execute("DELETE FROM test WHERE id = 3").unwrap();
    s.abort_transaction().unwrap();
    assert_eq!(db.query_count("test"), 2);
    db.db.vacuum().unwrap();
    assert_eq!(db.query_count("test"), 2);
    // still there after more work and a second VACUUM (the aborted set has been trimmed by now)
    db.execute_ok("INSERT INTO test VALUES (5, 800)");
    db.db.vacuum().unwrap();
    assert_eq!(db.query_count("test"), 3);
    // and a committed DELETE still removes it for good
    db.execute_ok("DELETE FROM test WHERE id = 3");
    db.db.vacuum().unwrap();
    assert_eq!(db.query_count("test"), 2);
}
