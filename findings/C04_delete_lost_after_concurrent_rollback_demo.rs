// C04 / C03 (observed, NOT repaired; outside every unit: the engine has no write locks and no
// write-write conflict detection -- TransactionCoordinator::record_write is never called): session
// B begins while session A is open; A deletes row 9 and rolls back; B then deletes row 9. B's
// snapshot was taken while A was active, so it does not list A as aborted: DmlExecutor::delete does
// not clear A's mark, Tuple::delete keeps the existing mark, and B's DELETE reports success but
// does nothing -- B itself, and everybody after B's COMMIT, still sees the row.
// Goes into crates/axmos-db/src/tests/mod.rs; FAILS on the pinned and on the repaired tree.
#[test]
fn c04_delete_after_a_concurrent_transaction_rolled_its_delete_back() {
    let db = TestDb::new();
    setup_test_table(&db);
    db.execute_ok("INSERT INTO test VALUES (9, 39)");
    let mut a = db.session().unwrap();
    a.execute("DELETE FROM test WHERE id = 9").unwrap();
    let mut b = db.session().unwrap();
    a.abort_transaction().unwrap();
    b.execute("DELETE FROM test WHERE id = 9").unwrap();
    b.commit_transaction().unwrap();
    assert_eq!(db.query_count("test"), 0);
}
