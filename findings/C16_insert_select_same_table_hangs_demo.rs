// C16 / C14 (observed, NOT repaired; latches and schedules are outside every unit) -- `INSERT INTO t
// SELECT .. FROM t` never returns: the worker blocks on a page latch of `t` that the statement's own
// scan still holds (0 % CPU, all threads parked: a self-deadlock, not a loop). The caller of
// Database::execute waits for ever. `INSERT INTO u SELECT .. FROM t` works.
// Goes into crates/axmos-db/src/tests/mod.rs; FAILS (after 10 s) on the pinned and on the repaired
// tree. The hung worker thread is leaked by the test.
#[test]
fn c16_insert_select_from_the_same_table_returns() {
    let db = std::sync::Arc::new(TestDb::new());
    db.execute_ok("CREATE TABLE t (id BIGINT, a INT)");
    db.execute_ok("INSERT INTO t VALUES (1, 10), (2, 20), (3, 30)");
    let (tx, rx) = std::sync::mpsc::channel();
    let db2 = db.clone();
    std::thread::spawn(move || {
        let r = db2.db.execute("INSERT INTO t SELECT id + 10, a FROM t WHERE id <= 2").map(|_| ());
        let _ = tx.send(r.is_ok());
    });
    let done = rx.recv_timeout(std::time::Duration::from_secs(10));
    assert!(done.is_ok(), "the statement did not return within 10 s");
    std::mem::forget(db);
}
