// C10 -- "every key that was inserted is found": when Btree::balance redistributes INTERIOR siblings
// it needs, for each sibling's right-most child, the key that separates that subtree from the next
// sibling. It took the first cell of the next sibling's first child -- the right key only when
// that child is a leaf. One level higher (a tree of depth 4) that cell is a separator INSIDE the
// next subtree: the parent got a separator that was too large and every key between the true
// boundary and it was routed into the wrong subtree -- present in its leaf, lost to every search.
// The catalog's own tree (one row per table and index, a new version per INSERT) reaches that
// depth at about 43 tables + 15 indexes: tables 6, 7 and 8 then "do not exist" any more.
// The separator the parent already holds for the sibling is used now.
// Goes into crates/axmos-db/src/tests/mod.rs; FAILS before the fix (tab6 after creating tab42).
#[test]
fn c10_catalog_keeps_every_table_when_it_grows() {
    let db = TestDb::new();
    for t in 0..70 {
        db.execute_ok(&format!("CREATE TABLE tab{} (id BIGINT, v INT, s TEXT)", t));
        if t % 3 == 0 {
            db.execute_ok(&format!("CREATE UNIQUE INDEX ix{} ON tab{} (v)", t, t));
        }
        for i in 0..(5 + t % 7) {
            db.execute_ok(&format!("INSERT INTO tab{} VALUES ({}, {}, 'row{}')", t, i, i * 10, i));
        }
        for u in 0..=t {
            assert_eq!(db.query_count(&format!("tab{}", u)), (5 + u % 7) as i64, "tab{} after creating tab{}", u, t);
        }
    }
}
