// C03 -- "after a transaction is rolled back ... every later transaction observes exactly the state
// that would exist had it never run": a rolled-back DELETE left its delete mark on the row, and
// Tuple::delete keeps an existing mark -- every later DELETE of that row silently did nothing (the
// row stayed visible for ever, since an aborted deleter does not count for visibility).
// Goes into crates/axmos-db/src/tests/mod.rs; FAILS before the fix (count stays 1).
#[test]
fn c03_a_rolled_back_delete_does_not_block_later_deletes() {
    let db = TestDb::new();
    setup_test_table(&db);
    db.execute_ok("INSERT INTO test VALUES (3, 750)");
    let mut s = db.session().unwrap();
    s.execute("DELETE FROM test WHERE id = 3").unwrap();
    s.abort_transaction().unwrap();
    assert_eq!(db.query_count("test"), 1);
    db.execute_ok("DELETE FROM test WHERE id = 3");
    assert_eq!(db.query_count("test"), 0);
}
