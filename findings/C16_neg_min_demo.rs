//! Unary minus on the smallest integer must not panic (C16).
use crate::{
    runtime::eval::ExpressionEvaluator,
    schema::Schema,
    sql::{binder::bounds::BoundExpression, parser::ast::UnaryOperator},
    storage::tuple::Row,
    types::{DataType, DataTypeKind, Int32, Int64},
};

#[test]
fn unary_minus_on_min_values_is_an_error_not_a_panic() {
    let row = Row::new_empty();
    let schema = Schema::default();
    let ev = ExpressionEvaluator::new(&row, &schema);
    let e = BoundExpression::UnaryOp {
        op: UnaryOperator::Minus,
        expr: Box::new(BoundExpression::Literal { value: DataType::BigInt(Int64(i64::MIN)) }),
        result_type: DataTypeKind::BigInt,
    };
    assert!(ev.evaluate(&e).is_err());
    let e = BoundExpression::UnaryOp {
        op: UnaryOperator::Minus,
        expr: Box::new(BoundExpression::Literal { value: DataType::Int(Int32(i32::MIN)) }),
        result_type: DataTypeKind::Int,
    };
    assert!(ev.evaluate(&e).is_err());
    let e = BoundExpression::UnaryOp {
        op: UnaryOperator::Minus,
        expr: Box::new(BoundExpression::Literal { value: DataType::BigInt(Int64(5)) }),
        result_type: DataTypeKind::BigInt,
    };
    assert!(matches!(ev.evaluate(&e).unwrap()[0], DataType::BigInt(Int64(-5))));
}
