// C02 / C01 -- the write-ahead rule. Pager::cache_frame wrote a dirty page that the cache evicted to
// the data file while the log records describing its changes were still in memory (the log is only
// forced at COMMIT). After a crash the changes of a transaction that never committed were in the
// file and nothing in the log could undo them: here an uncommitted DELETE of 300 rows, run through
// a 16-page cache so that its pages are evicted, then a crash -- and 265 of the 300 COMMITTED rows
// were gone (the delete marks of the lost transaction count as committed once its id is re-issued).
// The log is forced before a dirty evicted page is written now (fix 71b77f0; needs fix 1a398bb,
// without which the longer log cannot be recovered at all).
// Goes into crates/axmos-db/src/tests/mod.rs; FAILS before the fix (35 rows instead of 300).
#[test]
fn c02_an_evicted_page_of_an_open_transaction_is_undone_after_a_crash() {
    let (dir, path) = temp_db_path();
    let cfg = || {
        let mut c = DBConfig::default();
        c.cache_size = 16;
        c
    };
    {
        let db = Database::create(&path, cfg()).unwrap();
        db.execute("CREATE TABLE t (id BIGINT, v TEXT)").unwrap();
        db.execute("CREATE TABLE big (id BIGINT, v TEXT)").unwrap();
        let pad = "x".repeat(300);
        for i in 0..300 {
            db.execute(&format!("INSERT INTO t VALUES ({}, '{}')", i, pad)).unwrap();
            db.execute(&format!("INSERT INTO big VALUES ({}, '{}')", i, pad)).unwrap();
        }
        db.flush().unwrap();
        let mut s = db.session().unwrap();
        s.execute("DELETE FROM t").unwrap(); // never committed
        s.execute("SELECT id FROM big").unwrap(); // pushes the pages of t out of the cache
        std::mem::forget(s);
        std::mem::forget(db); // crash
    }
    let db = Database::open(&path, cfg()).expect("recovery must succeed");
    let n = db.execute("SELECT id FROM t").unwrap().into_rows().unwrap().iterrows().count();
    assert_eq!(n, 300);
    drop(db);
    drop(dir);
}
