// C08 / C01 / C15 -- recovery re-executes a logged CREATE through the DDL executor, which gave the
// object a NEW id from the catalog's counter instead of the id it was created with -- while every
// later record of the log (INSERT, DROP, CREATE INDEX ...) names the object by its original id. The
// counter of the recovered state is that of the last checkpoint; any id handed out since then by a
// transaction that is not redone shifts everything after it. A CREATE TABLE that was rolled back,
// then a committed CREATE TABLE and an INSERT into it, then a crash: the table comes back under the
// rolled-back table's id, the INSERT's "Table not found 1" fails the recovery, and the database
// cannot be opened any more. redo_create now gives the object the id it was logged with (fix f0cf2a9).
// Goes into crates/axmos-db/src/tests/mod.rs; FAILS before the fix (open returns the error).
#[test]
fn c08_a_recreated_object_keeps_its_id_in_recovery() {
    let (dir, path) = temp_db_path();
    {
        let db = Database::create(&path, DBConfig::default()).unwrap();
        let mut s = db.session().unwrap();
        s.execute("CREATE TABLE gone (id BIGINT)").unwrap(); // takes an object id ...
        s.abort_transaction().unwrap(); // ... and is rolled back
        db.execute("CREATE TABLE kept (id BIGINT, v INT)").unwrap();
        db.execute("INSERT INTO kept VALUES (1, 10)").unwrap();
        std::mem::forget(db); // crash
    }
    let db = Database::open(&path, DBConfig::default()).expect("recovery must succeed");
    let n = db.execute("SELECT id FROM kept").unwrap().into_rows().unwrap().iterrows().count();
    assert_eq!(n, 1);
    assert!(db.execute("SELECT id FROM gone").is_err());
    drop(db);
    drop(dir);
}
