// C16 / C05 -- after ANALYZE every statement touching the analysed table panicked: Stats::from_blob
// copied the bytes into an aligned buffer and then deserialised the ORIGINAL, unaligned slice
// (`from_bytes(data)` instead of `from_bytes(&aligned)`), rkyv rejected it and
// Relation::from_meta_table_row `.expect`ed.  Goes into crates/axmos-db/src/tests/mod.rs; FAILS
// before the fix ("Task channel closed unexpectedly").
#[test]
fn c16_tables_stay_usable_after_analyze() {
    let db = TestDb::new();
    setup_test_with_data(&db, 50);
    db.analyze(1.0, 1000).unwrap();
    assert_eq!(db.query_count("test"), 50);
    let rows = db.execute_ok("SELECT id FROM test WHERE value > 480").into_rows().unwrap();
    assert_eq!(rows.iterrows().count(), 1);
}
