// C10 / C05 -- OBSERVED, NOT REPAIRED, outside every unit (Btree::balance / split with overflow
// cells: 800 lines over pager-backed raw-pointer pages).  Nine INSERTs of rows between 100 and
// 20000 bytes leave the table's tree in a state where a full scan indexes a page's slot array out
// of bounds (storage/core/buffer.rs get_cell_at) and panics the worker.  Goes into
// crates/axmos-db/src/tests/mod.rs; FAILS on the pinned tree and on the repaired tree.
#[test]
fn c10_full_scan_after_large_row_inserts() {
    let db = TestDb::new();
    db.execute_ok("CREATE TABLE t (id BIGINT, s TEXT)");
    let lens = [100usize, 1000, 3000, 5000, 5000, 5000, 20000, 100, 4000];
    for (i, len) in lens.iter().enumerate() {
        db.execute_ok(&format!("INSERT INTO t VALUES ({}, '{}')", i + 1, "x".repeat(*len)));
    }
    let rows = db.execute("SELECT id, s FROM t").expect("full scan").into_rows().unwrap();
    assert_eq!(rows.iterrows().count(), lens.len());
}
