// C10 / C16 -- Btree::get_left_most read `cell(0)` of every page on its way down.  A split around one
// large cell leaves an interior page with ZERO cells and only its right child: the next full scan of
// the table indexed the slot array out of bounds (storage/core/buffer.rs get_cell_at) and panicked
// the worker.  Goes into crates/axmos-db/src/tests/mod.rs; FAILS before the fix.
#[test]
fn c10_full_scan_after_large_row_inserts() {
    let db = TestDb::new();
    db.execute_ok("CREATE TABLE t (id BIGINT, s TEXT)");
    let lens = [100usize, 1000, 3000, 5000, 5000, 5000, 20000, 100, 4000];
    for (i, len) in lens.iter().enumerate() {
        db.execute_ok(&format!("INSERT INTO t VALUES ({}, '{}')", i + 1, "x".repeat(*len)));
    }
    let rows = db.execute("SELECT id, s FROM t").expect("full scan").into_rows().unwrap();
    assert_eq!(rows.iterrows().count(), lens.len());
}
