// C16 -- DataType::{add, sub, mul, div, rem} computed in the promoted primitive type with the plain
// operators: integer overflow and division by zero PANICKED (debug build) and killed the worker
// thread -- `SELECT x / 0`, `SELECT b + 1` for b = i64::MAX, SUM over large BIGUINT values ... The
// caller got "Task channel closed unexpectedly" (wrapping silently in a release build). The
// promoted operations are checked now and such an expression is an ordinary error of the statement.
// Goes into crates/axmos-db/src/tests/mod.rs; FAILS before the fix (the first statement kills the
// worker and query_count panics).
#[test]
fn c16_arithmetic_that_has_no_result_is_an_error_not_a_panic() {
    let db = TestDb::new();
    db.execute_ok("CREATE TABLE t (id BIGINT, v INT, b BIGINT, u BIGUINT)");
    db.execute_ok("INSERT INTO t VALUES (1, 7, 9223372036854775807, 18446744073709551615)");
    for q in [
        "SELECT v / 0 FROM t",
        "SELECT v % 0 FROM t",
        "SELECT b + 1 FROM t",
        "SELECT b * 2 FROM t",
        "SELECT 0 - b - 2 FROM t",
        "SELECT u + u FROM t",
        "SELECT SUM(u) + SUM(u) FROM t",
        "SELECT id FROM t WHERE v / (id - 1) > 0",
        "UPDATE t SET v = v / 0",
        "INSERT INTO t VALUES (2, 1 / 0, 1, 1)",
    ] {
        assert!(db.db.execute(q).is_err(), "`{}` must be an error", q);
        // the worker is still there and the table untouched
        assert_eq!(db.query_count("t"), 1);
    }
    assert_eq!(db.query_single_int("SELECT v / 2 FROM t"), 3);
    assert_eq!(db.query_single_int("SELECT v % 4 FROM t"), 3);
}
