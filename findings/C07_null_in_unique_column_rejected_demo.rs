// C07 (observed, NOT repaired) -- NULLs do not violate UNIQUE (ConstraintValidator::search_index
// says so itself and skips the probe), but the index entry of the row is then built with a NULL
// KEY, which the tuple format cannot hold (only values have a null bitmap): a valid INSERT of NULL
// into a nullable column that carries a UNIQUE index is rejected with "datatype mismatch at index 0".
// An error, not a wrong answer; a repair has to decide how NULL keys are represented or that rows
// with NULL keys get no entry -- in the INSERT / DELETE / UPDATE arms and in CREATE INDEX.
// Goes into crates/axmos-db/src/tests/mod.rs; FAILS on the pinned and on the repaired tree.
#[test]
fn c07_null_is_allowed_in_a_nullable_unique_column() {
    let db = TestDb::new();
    db.execute_ok("CREATE TABLE t (id BIGINT, w INT, v INT)");
    db.execute_ok("CREATE UNIQUE INDEX idx_v ON t (v)");
    db.execute_ok("INSERT INTO t VALUES (1, 0, 10)");
    db.execute_ok("INSERT INTO t VALUES (2, 0, NULL)");
    db.execute_ok("INSERT INTO t VALUES (3, 0, NULL)");
    assert_eq!(db.query_count("t"), 3);
}
