// C16 / C18 -- Bool::write_to copied its one byte with `writer[cursor..].copy_from_slice(&[b])`:
// `copy_from_slice` panics unless both slices have the same length, i.e. unless the BOOLEAN value
// happens to be the last byte of the buffer. A table whose BOOLEAN column is not the last one
// could not be written to: every INSERT killed the worker thread; so did an UPDATE whose delta
// carried a BOOLEAN in front of other values.
// Goes into crates/axmos-db/src/tests/mod.rs; FAILS before the fix (the first INSERT fails with
// "Task channel closed unexpectedly").
#[test]
fn c16_boolean_column_that_is_not_the_last_one() {
    let db = TestDb::new();
    db.execute_ok("CREATE TABLE t (id BIGINT, b BOOLEAN, v INT)");
    db.execute_ok("INSERT INTO t VALUES (1, TRUE, 10)");
    db.execute_ok("INSERT INTO t VALUES (2, FALSE, 20)");
    db.execute_ok("UPDATE t SET b = FALSE WHERE id = 1");
    db.execute_ok("UPDATE t SET v = 11 WHERE id = 1");
    let rows: Vec<String> = db.execute_ok("SELECT id, b, v FROM t ORDER BY id").into_rows().unwrap().iterrows().map(|r| format!("{:?}", r)).collect();
    assert_eq!(rows, vec!["Row([BigInt(Int64(1)), Bool(Bool(false)), Int(Int32(11))])", "Row([BigInt(Int64(2)), Bool(Bool(false)), Int(Int32(20))])"]);
    assert_eq!(db.query_count("t"), 2);
}
