// C03 -- "After a transaction is rolled back ... created or dropped objects are as before" (also
// C15): Catalog::remove_relation frees the pages of the table the moment DROP TABLE executes; the
// catalog row is only delete-marked (MVCC), so after ROLLBACK the table is visible again -- and
// points at freed pages: every later statement on it fails ("Expected btreepage frame"), and after
// a reopen it reads as empty. Observed, NOT repaired: the repair moves the reclamation of a dropped
// table's pages from DROP to VACUUM (findings/C03_rolled_back_drop_repair_candidate.diff, ~25
// lines, suite passes, this test passes with it), which changes when space is given back -- more
// than a minimal patch in an area (DDL + free list) no unit of /verif reaches; a random DDL probe
// (create / drop / rollback / vacuum / reopen) fails in many further ways with and without it.
// Goes into crates/axmos-db/src/tests/mod.rs; FAILS on the pinned and on the repaired tree.
#[test]
fn c03_a_rolled_back_drop_table_leaves_the_table_intact() {
    let db = TestDb::new();
    db.execute_ok("CREATE TABLE t (id BIGINT, v INT)");
    for i in 0..30 {
        db.execute_ok(&format!("INSERT INTO t VALUES ({}, {})", i, i));
    }
    let mut s = db.session().unwrap();
    s.execute("DROP TABLE t").unwrap();
    s.abort_transaction().unwrap();
    assert_eq!(db.query_count("t"), 30);
}
