// C10 / C05 -- OBSERVED, NOT REPAIRED, outside every unit: with rows of mixed sizes (50 .. 20000
// bytes) about every second sequence of 24 INSERTs ends with a valid INSERT rejected by
// "Buffer overflow. Attempted to insert with overflow on a btreepage" (Btree::balance / cell
// redistribution with overflow cells).  An error of the statement, not a crash and -- as far as
// the probe went -- no corruption.  Goes into crates/axmos-db/src/tests/mod.rs; FAILS on the pinned
// and on the repaired tree.
#[test]
fn c10_inserts_of_mixed_row_sizes_are_accepted() {
    let db = TestDb::new();
    db.execute_ok("CREATE TABLE t (id BIGINT, s TEXT)");
    let lens = [50usize, 500, 2000, 4100, 8000, 3900, 500, 500, 20000];
    for (i, len) in lens.iter().enumerate() {
        db.execute(&format!("INSERT INTO t VALUES ({}, '{}')", i + 1, "x".repeat(*len)))
            .unwrap_or_else(|e| panic!("INSERT #{} ({} bytes) rejected: {}", i + 1, len, e));
    }
}
