// C05 -- three-valued predicates: IS NOT NULL, NOT BETWEEN and NOT IN evaluated `<test> || negated`
// (always TRUE when negated), NOT LIKE `!negated && <test>` (always FALSE).  Goes into
// crates/axmos-db/src/tests/mod.rs; FAILS before the fix (2, 2, 2 rows instead of 1, 0, 0).
#[test]
fn c05_negated_predicates_negate() {
    let db = TestDb::new();
    setup_test_table(&db);
    db.execute_ok("INSERT INTO test VALUES (1, 100)");
    db.execute_ok("INSERT INTO test VALUES (2, NULL)");
    let count = |q: &str| db.execute_ok(q).into_rows().unwrap().iterrows().count();
    assert_eq!(count("SELECT id FROM test WHERE value IS NOT NULL"), 1);
    assert_eq!(count("SELECT id FROM test WHERE id NOT BETWEEN 1 AND 5"), 0);
    assert_eq!(count("SELECT id FROM test WHERE id NOT IN (1, 2)"), 0);
    assert_eq!(count("SELECT id FROM test WHERE id NOT IN (7, 8)"), 2);
    assert_eq!(count("SELECT id FROM test WHERE value NOT BETWEEN 1 AND 5"), 1); // NULL operand: unknown
    assert_eq!(count("SELECT id FROM test WHERE id NOT IN (7, NULL)"), 0);       // miss against a NULL: unknown
}
