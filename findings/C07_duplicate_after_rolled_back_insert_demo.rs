// C07 / C06 / C03 -- the key of an index entry is the indexed column values (the row id is its
// payload), so a rolled-back INSERT leaves an entry under its value that nobody can see. The INSERT
// arm of DmlExecutor::maintain_secondary_indexes re-used the place only if the entry there carried a
// delete mark; an entry whose CREATOR rolled back was kept ("nothing to do") -- the new row got no
// visible index entry: queries through the index did not find it, and the UNIQUE probe (which reads
// the index) let a second row with the same value in.
// Goes into crates/axmos-db/src/tests/mod.rs; FAILS before the fix (the lookup returns nothing and
// the duplicate INSERT is accepted).
#[test]
fn c07_unique_index_after_a_rolled_back_insert() {
    let db = TestDb::new();
    db.execute_ok("CREATE TABLE t (id BIGINT, w INT, v INT NOT NULL)");
    db.execute_ok("CREATE UNIQUE INDEX idx_v ON t (v)");
    let mut s = db.session().unwrap();
    s.execute("INSERT INTO t VALUES (9, 0, 15)").unwrap();
    s.abort_transaction().unwrap();
    db.execute_ok("INSERT INTO t VALUES (5, 0, 15)");
    let ids: Vec<i64> = db
        .execute_ok("SELECT id FROM t WHERE v = 15")
        .into_rows()
        .unwrap()
        .iterrows()
        .map(|r| r[0].as_big_int().unwrap().value())
        .collect();
    assert_eq!(ids, vec![5]);
    assert!(db.db.execute("INSERT INTO t VALUES (15, 0, 15)").is_err());
    assert_eq!(db.query_count("t"), 1);
}
