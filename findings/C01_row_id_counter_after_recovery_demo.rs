// C01 -- "committed work survives a crash", also across several crash cycles: recovery replays a
// logged INSERT through DmlExecutor::insert with the row's LOGGED row id (the id column is among the
// supplied columns), but the table's row-id counter was advanced from the stale catalog value by one
// per replayed row.  With a gap in the logged ids (a rolled-back INSERT in between) the counter ended
// up BELOW the highest stored id; the next INSERT after the recovery was handed an id that was taken,
// DmlExecutor::insert found a live row under that key and silently kept it -- the INSERT returned
// success and stored nothing.  Goes into crates/axmos-db/src/tests/mod.rs; FAILS before the fix
// (row 0 is missing).  mem::forget = crash.
// Not repaired (needs a notion of open transactions the pager does not have): Pager::flush writes the
// uncommitted pages of open transactions and then drops the whole log.
#[test]
fn c01_committed_work_survives_repeated_crashes_with_open_transactions() {
    let (dir, path) = temp_db_path();
    let mut dbo = Some(Database::create(&path, DBConfig::default()).unwrap());
    dbo.as_ref().unwrap().execute("CREATE TABLE t (id BIGINT, v INT)").unwrap();
    dbo.as_ref().unwrap().flush().unwrap();
    // mode: 0 autocommit, 1 session + commit, 2 session + rollback, 3 session left open at the crash
    let script: Vec<Vec<(u8, &str)>> = vec![
        vec![(0, "INSERT INTO t VALUES (15, 819)"), (2, "INSERT INTO t VALUES (5, 59)"), (1, "INSERT INTO t VALUES (7, 492)"), (3, "DELETE FROM t WHERE id = 3")],
        vec![(0, "DELETE FROM t WHERE id = 13"), (1, "INSERT INTO t VALUES (0, 367)"), (3, "DELETE FROM t WHERE id = 7")],
    ];
    for ops in &script {
        for (mode, q) in ops {
            let db = dbo.as_ref().unwrap();
            match mode {
                0 => { db.execute(q).unwrap(); }
                1 => { let mut s = db.session().unwrap(); s.execute(q).unwrap(); s.commit_transaction().unwrap(); }
                2 => { let mut s = db.session().unwrap(); s.execute(q).unwrap(); s.abort_transaction().unwrap(); }
                _ => { let mut s = db.session().unwrap(); s.execute(q).unwrap(); std::mem::forget(s); }
            }
        }
        std::mem::forget(dbo.take());
        dbo = Some(Database::open(&path, DBConfig::default()).unwrap());
    }
    let rows = dbo.as_ref().unwrap().execute("SELECT id FROM t").unwrap().into_rows().unwrap();
    let mut got: Vec<i64> = rows.iterrows().map(|r| r[0].as_big_int().unwrap().value()).collect();
    got.sort();
    assert_eq!(got, vec![0, 7, 15]);
    std::mem::forget(dbo.take());
    drop(dir);
}
