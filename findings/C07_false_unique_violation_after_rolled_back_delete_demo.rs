// C07 / C03 -- a rolled-back DELETE leaves its delete mark on the row's entry in every secondary
// index; the next (committed) DELETE of the row went through Tuple::delete, which keeps an
// existing mark, so the index entry stayed marked by the ABORTED transaction -- i.e. live for every
// reader. The UNIQUE probe then found a "live" entry for a value no row holds any more and rejected
// a valid INSERT.
// Goes into crates/axmos-db/src/tests/mod.rs; FAILS before the fix (the last INSERT is rejected
// with "UNIQUE constraint violated").
#[test]
fn c07_unique_index_forgets_a_row_deleted_after_a_rolled_back_delete() {
    let db = TestDb::new();
    db.execute_ok("CREATE TABLE t (id BIGINT, v INT)");
    db.execute_ok("CREATE UNIQUE INDEX idx_v ON t (v)");
    db.execute_ok("INSERT INTO t VALUES (4, 33)");
    let mut s = db.session().unwrap();
    s.execute("DELETE FROM t WHERE id = 4").unwrap();
    s.abort_transaction().unwrap();
    db.execute_ok("DELETE FROM t WHERE id = 4");
    assert_eq!(db.query_count("t"), 0);
    db.execute_ok("INSERT INTO t VALUES (5, 33)");
    assert_eq!(db.query_count("t"), 1);
}
