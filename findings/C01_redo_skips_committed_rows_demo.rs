// C01 -- "committed work survives a crash": recovery's redo / undo handlers decoded the logged tuple
// image with Row::from_bytes_checked_with_snapshot(.., &recovery_snapshot).  The recovery snapshot's
// horizon is page zero's `last committed`, which is only as fresh as the last checkpoint: the image of
// every transaction that committed later is "not visible", the handler got None and silently
// skipped the record.  Two committed INSERTs, crash, reopen: the second row is gone.
// Goes into crates/axmos-db/src/tests/mod.rs; FAILS before the fix.  (mem::forget = crash.)
#[test]
fn c01_every_committed_insert_is_redone() {
    let (dir, path) = temp_db_path();
    {
        let db = Database::create(&path, DBConfig::default()).unwrap();
        db.execute("CREATE TABLE t (id BIGINT, v INT)").unwrap();
        db.flush().unwrap();
        db.execute("INSERT INTO t VALUES (1, 100)").unwrap();
        db.execute("INSERT INTO t VALUES (2, 200)").unwrap();
        db.execute("INSERT INTO t VALUES (3, 300)").unwrap();
        db.execute("UPDATE t SET v = 7 WHERE id = 2").unwrap();
        db.execute("DELETE FROM t WHERE id = 1").unwrap();
        std::mem::forget(db);
    }
    let db = Database::open(&path, DBConfig::default()).unwrap();
    let rows = db.execute("SELECT id, v FROM t").unwrap().into_rows().unwrap();
    let mut got: Vec<(i64, i32)> = rows.iterrows().map(|r| (r[0].as_big_int().unwrap().value(), r[1].as_int().unwrap().value())).collect();
    got.sort();
    assert_eq!(got, vec![(2, 7), (3, 300)]);
    std::mem::forget(db);
    drop(dir);
}
