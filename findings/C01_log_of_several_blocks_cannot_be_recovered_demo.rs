// C01 / C08 -- Database::run_recovery began the recovery transaction BEFORE it analysed the log. The
// BEGIN record of that transaction is pushed to the log in memory; when the log on disk has more than
// one block (40 KiB), that push opens a new block and counts it in the header's `total_blocks` -- and
// the analysis, which trusts that count, reads a block that is not in the file: "failed to fill whole
// buffer". Every open failed, and since a failed recovery keeps the log, the database could not be
// opened any more. One committed statement that logs more than a block -- a DELETE of a few hundred rows of
// 300 bytes -- followed by a crash was enough. The job now reads the log first and begins its
// transaction afterwards (fix 1a398bb).
// Goes into crates/axmos-db/src/tests/mod.rs; FAILS before the fix (open returns the error).
#[test]
fn c01_a_log_of_several_blocks_is_recovered() {
    let (dir, path) = temp_db_path();
    {
        let db = Database::create(&path, DBConfig::default()).unwrap();
        db.execute("CREATE TABLE t (id BIGINT, v TEXT)").unwrap();
        let pad = "x".repeat(300);
        for i in 0..300 {
            db.execute(&format!("INSERT INTO t VALUES ({}, '{}')", i, pad)).unwrap();
        }
        db.flush().unwrap();
        db.execute("DELETE FROM t WHERE id >= 10").unwrap(); // committed; its log spans several blocks
        std::mem::forget(db); // crash
    }
    let db = Database::open(&path, DBConfig::default()).expect("recovery must succeed");
    let n = db.execute("SELECT id FROM t").unwrap().into_rows().unwrap().iterrows().count();
    assert_eq!(n, 10);
    drop(db);
    drop(dir);
}
