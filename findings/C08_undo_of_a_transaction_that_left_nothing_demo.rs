// C08 / C02 -- "after a crash at any point the database opens, and a transaction that did not commit
// leaves nothing". The undo pass of recovery re-executes the inverse of every logged operation of a
// loser -- against a data file that (NO-STEAL) holds nothing of that loser, and BEFORE the redo
// pass. Three small histories made Database::open fail, for ever (a failed recovery keeps the log):
//   (1) CREATE TABLE in a session, ROLLBACK, crash: the undo of CREATE is DROP TABLE without
//       IF EXISTS -- "object Table 'c' not found";
//   (2) a table created since the last checkpoint, an INSERT into it in a session, ROLLBACK, crash:
//       the undo of the INSERT looks the table up before its CREATE has been redone -- "Table not
//       found 0";
//   (3) DROP TABLE in a session, ROLLBACK, crash: the undo of DROP is CREATE TABLE without
//       IF NOT EXISTS, after the redo of the original CREATE -- "Table 'b' already exists".
// Undo is repeatable now (fix ebb7d7c): the DDL inverses run with IF EXISTS / IF NOT EXISTS, and the
// undo of a row operation on a table that does not exist in the recovered state is nothing.
// Goes into crates/axmos-db/src/tests/mod.rs; FAILS before the fix (each of the three opens fails).
#[test]
fn c08_recovery_undoes_transactions_that_left_nothing_behind() {
    for stmt in ["CREATE TABLE c (id BIGINT)", "INSERT INTO b VALUES (2, 20)", "DROP TABLE b"] {
        let (dir, path) = temp_db_path();
        {
            let db = Database::create(&path, DBConfig::default()).unwrap();
            db.execute("CREATE TABLE b (id BIGINT, v INT)").unwrap(); // no checkpoint after this
            db.execute("INSERT INTO b VALUES (1, 10)").unwrap();
            let mut s = db.session().unwrap();
            s.execute(stmt).unwrap();
            s.abort_transaction().unwrap();
            std::mem::forget(db); // crash
        }
        let db = Database::open(&path, DBConfig::default())
            .unwrap_or_else(|e| panic!("after a rolled-back `{stmt}` and a crash: {e}"));
        let n = db.execute("SELECT id FROM b").unwrap().into_rows().unwrap().iterrows().count();
        assert_eq!(n, 1, "after a rolled-back `{stmt}` and a crash");
        assert!(db.execute("SELECT id FROM c").is_err());
        drop(db);
        drop(dir);
    }
}
