// C08 -- "after a crash at ANY point the database opens". The log file is created empty; its header
// block is written by the first force, i.e. by the first COMMIT. WriteAheadLog::open read a header
// unconditionally: a database that crashed (or was simply killed) between Database::create and its
// first commit could never be opened again -- "failed to fill whole buffer" on every attempt,
// although there was nothing to recover. An empty log file is an empty log now (fix 6532a1a).
// Found by a DDL / crash probe whose first random step happened to be the crash.
// Goes into crates/axmos-db/src/tests/mod.rs; FAILS before the fix (open returns the error).
#[test]
fn c08_a_database_that_crashed_before_its_first_commit_opens() {
    let (dir, path) = temp_db_path();
    {
        let db = Database::create(&path, DBConfig::default()).unwrap();
        assert!(db.execute("INSERT INTO nowhere VALUES (1)").is_err()); // nothing committed so far
        std::mem::forget(db); // crash
    }
    let db = Database::open(&path, DBConfig::default()).expect("an empty log is an empty log");
    db.execute("CREATE TABLE t (id BIGINT)").unwrap();
    db.execute("INSERT INTO t VALUES (1)").unwrap();
    let n = db.execute("SELECT id FROM t").unwrap().into_rows().unwrap().iterrows().count();
    assert_eq!(n, 1);
    drop(db);
    drop(dir);
}
