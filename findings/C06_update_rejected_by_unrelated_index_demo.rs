// C06 / C16-adjacent -- second symptom of the open finding on the UPDATE arm of
// DmlExecutor::maintain_secondary_indexes (known_findings.jsonl, indexmaint/index.update_*): the
// "is this index affected" test compares the assignment keys (VALUE indexes: position after the
// row id) with the index's COLUMN indexes. On a table (id, v, w) with a unique index on v (column
// index 2), `UPDATE t SET w = ...` assigns value index 2 -- the index on v is taken as affected,
// the arm rewrites its entry with w's new value, and the statement fails with
// "datatype mismatch at index 0. Expected: BigUInt". The table row is nevertheless updated (the
// new version carries the previous creator's id: the other open finding), so the failed statement
// is not even without effect.
// Goes into crates/axmos-db/src/tests/mod.rs; FAILS on the pinned and on the repaired tree; passes
// with findings/C06_update_of_indexed_column_repair.diff.
#[test]
fn c06_update_of_a_column_that_is_not_indexed_succeeds() {
    let db = TestDb::new();
    db.execute_ok("CREATE TABLE t (id BIGINT, v INT, w INT)");
    db.execute_ok("CREATE UNIQUE INDEX idx_v ON t (v)");
    db.execute_ok("INSERT INTO t VALUES (5, 15, 0)");
    db.execute_ok("UPDATE t SET w = 7 WHERE id = 5");
    assert_eq!(db.query_single_int("SELECT w FROM t WHERE id = 5"), 7);
    assert_eq!(db.query_single_int("SELECT w FROM t WHERE v = 15"), 7);
}
