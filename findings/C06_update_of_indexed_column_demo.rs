// C06 -- "every secondary index always agrees with its table": an UPDATE of an indexed column never
// touches the index. DmlExecutor::maintain_secondary_indexes decides whether an index is affected
// by comparing the assignment keys (VALUE indexes: position after the row id) with the index's
// COLUMN indexes, so the index is skipped; and the arm behind that test would rewrite the key of
// the entry in place (the entry would sit under its old key) and fails with a datatype mismatch
// when it is reached. A query through the index then finds the row under its OLD value and not
// under its new one.
// Goes into crates/axmos-db/src/tests/mod.rs; FAILS on the pinned tree and on the repaired one:
// NOT repaired, because the pinned test runtime::tests::test_index_maintained_on_update asserts
// exactly this behaviour (`WHERE price = 100` -> 1 row, `WHERE price = 150` -> 0 rows after
// `UPDATE products SET price = 150`). The repair that makes this test pass (and breaks that one)
// is findings/C06_update_of_indexed_column_repair.diff.
#[test]
fn c06_index_follows_an_update_of_the_indexed_column() {
    let db = TestDb::new();
    db.execute_ok("CREATE TABLE t (id BIGINT, v INT)");
    db.execute_ok("CREATE UNIQUE INDEX idx_v ON t (v)");
    db.execute_ok("INSERT INTO t VALUES (4, 33)");
    db.execute_ok("INSERT INTO t VALUES (5, 34)");
    db.execute_ok("UPDATE t SET v = 62 WHERE id = 4");
    let ids = |q: &str| -> Vec<i64> {
        db.execute_ok(q).into_rows().unwrap().iterrows().map(|r| r[0].as_big_int().unwrap().value()).collect()
    };
    assert_eq!(ids("SELECT id FROM t WHERE v = 33"), Vec::<i64>::new());
    assert_eq!(ids("SELECT id FROM t WHERE v = 62"), vec![4]);
    // the old value is free again, the new one is taken
    db.execute_ok("INSERT INTO t VALUES (6, 33)");
    assert!(db.db.execute("INSERT INTO t VALUES (7, 62)").is_err());
}
