// C05 -- "results as SQL defines": DISTINCT inside an aggregate was parsed, bound and carried into
// the plan (AggregateExpr::distinct) and then ignored by HashAggregate::accumulate_row:
// COUNT(DISTINCT g) counted every row, SUM(DISTINCT v) added duplicates. No error, wrong number.
// Each group now remembers the values an aggregate over DISTINCT has been fed.
// Goes into crates/axmos-db/src/tests/mod.rs; FAILS before the fix (COUNT(DISTINCT g) = 7, not 3).
#[test]
fn c05_distinct_inside_an_aggregate_counts_each_value_once() {
    let db = TestDb::new();
    db.execute_ok("CREATE TABLE t (id BIGINT, g INT, v INT)");
    for (id, g, v) in [(1, 1, 10), (2, 1, 20), (3, 2, 30), (4, 2, 30), (5, 3, 50), (6, 3, 50)] {
        db.execute_ok(&format!("INSERT INTO t VALUES ({}, {}, {})", id, g, v));
    }
    db.execute_ok("INSERT INTO t VALUES (7, 3, NULL)");
    let one = |q: &str| -> String { format!("{:?}", db.execute_ok(q).into_rows().unwrap().first().unwrap()) };
    assert_eq!(one("SELECT COUNT(DISTINCT g) FROM t"), one("SELECT COUNT(*) FROM (SELECT DISTINCT g FROM t) x"));
    assert_eq!(one("SELECT COUNT(DISTINCT v) FROM t"), "Row([BigInt(Int64(4))])");
    assert_eq!(one("SELECT SUM(DISTINCT v) FROM t"), one("SELECT SUM(v) FROM (SELECT DISTINCT v FROM t) x"));
    assert_eq!(one("SELECT COUNT(v), COUNT(DISTINCT v) FROM t WHERE g = 2"), "Row([BigInt(Int64(2)), BigInt(Int64(1))])");
    // per group
    let per_group: Vec<String> = db.execute_ok("SELECT g, COUNT(DISTINCT v) FROM t GROUP BY g ORDER BY g").into_rows().unwrap().iterrows().map(|r| format!("{:?}", r[1])).collect();
    assert_eq!(per_group, vec!["BigInt(Int64(2))", "BigInt(Int64(1))", "BigInt(Int64(1))"]);
}
