// C04 / C03 / C18 -- Tuple::add_version_with ignores its `new_xmin` parameter: the newest version
// keeps the creator id of the version it supersedes.  Both tests FAIL on the pinned tree.
//
// (a) goes into `mod tuple_tests` of crates/axmos-db/src/storage/tuple.rs
// (b) goes into crates/axmos-db/src/tests/mod.rs (it is tests::test_session_rollback_updates with
//     the assertion the property demands; the pinned test asserts 999, i.e. pins the defect)

// (a) decode level: reader 20 took its snapshot while writer 10 was still active
#[test]
fn c04_uncommitted_update_is_not_visible_to_a_concurrent_snapshot() {
    let schema = test_schema();
    let mut tuple = TupleBuilder::from_schema(&schema).build(&test_row(), 1).unwrap();
    let mut modifications = HashMap::new();
    modifications.insert(1, DataType::BigInt(Int64(31)));          // age 30 -> 31 by transaction 10
    tuple.add_version_with(&modifications, 10, &schema).unwrap();
    assert_eq!(tuple.xmin(), 10, "the newest version must be created by the updating transaction");

    let mut active = std::collections::HashSet::new();
    active.insert(10u64);
    let snap = crate::multithreading::coordinator::Snapshot::new(20, 10, Some(9), active, std::collections::HashSet::new());
    let layout = TupleReader::from_schema(&schema).parse_for_snapshot(tuple.effective_data(), &snap).unwrap().unwrap();
    let reference = TupleRef::new(tuple.effective_data(), layout);
    match reference.value_with(1, &schema).unwrap() {
        DataTypeRef::BigInt(v) => assert_eq!(v.value(), 30, "reader 20 must still see the committed value"),
        _ => panic!("Expected BigInt"),
    }
}

// (b) SQL level
#[test]
fn c03_rolled_back_update_is_gone() {
    let db = TestDb::new();
    setup_test_table(&db);
    db.execute_ok("INSERT INTO test VALUES (1, 100)");
    let mut session = db.session().unwrap();
    session.execute("UPDATE test SET value = 999 WHERE id = 1").unwrap();
    session.abort_transaction().unwrap();
    assert_eq!(db.query_single_int("SELECT value FROM test WHERE id = 1"), 100);
}
