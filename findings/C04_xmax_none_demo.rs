use axmosdb::{DBConfig, Database};

fn count(r: axmosdb::runtime::QueryResult) -> i64 {
    let rows = r.into_rows().expect("rows");
    rows.first().unwrap()[0].as_big_int().unwrap().value()
}

#[test]
fn reader_begun_before_first_numbered_commit_must_not_see_later_commit() {
    let dir = tempfile::TempDir::new().unwrap();
    let path = dir.path().join("t.db");
    let db = Database::create(&path, DBConfig::default()).unwrap();
    db.execute("CREATE TABLE t (id BIGINT, v INT)").unwrap(); // txn 0: commit leaves last_committed == 0
    let mut a = db.session().unwrap(); // snapshot with xmax == None
    assert_eq!(count(a.execute("SELECT COUNT(*) FROM t").unwrap()), 0);
    let mut b = db.session().unwrap();
    b.execute("INSERT INTO t VALUES (1, 10)").unwrap();
    b.commit_transaction().unwrap();
    // a began before b: it must still see zero rows
    assert_eq!(count(a.execute("SELECT COUNT(*) FROM t").unwrap()), 0);
}
