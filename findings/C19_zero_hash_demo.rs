use axmosdb::types::{DataType, Float64, Int32};
use std::collections::HashSet;

#[test]
fn equal_zero_values_must_hash_equally() {
    let a = DataType::Double(Float64(0.0));
    let b = DataType::Double(Float64(-0.0));
    let c = DataType::Int(Int32(0));
    assert!(a == b && b == c);
    let mut s = HashSet::new();
    s.insert(a);
    assert!(s.contains(&b), "0.0 == -0.0 but the set does not find it");
    assert!(s.contains(&c));
    let mut t = HashSet::new();
    t.insert(b.clone());
    assert!(t.contains(&c), "Int 0 == Double -0.0 but the set does not find it");
}
