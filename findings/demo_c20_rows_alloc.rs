// C20: "any byte sequence that is not a valid frame is answered with a protocol error rather than
// a crash, a hang or an unbounded allocation".
use axmosdb::tcp::{Response, StatusCode, PROTOCOL_VERSION};

#[test]
fn rows_frame_announcing_4g_columns_is_a_protocol_error() {
    // 6-byte frame: version, Rows, column count = u32::MAX, nothing else
    let frame = [PROTOCOL_VERSION, StatusCode::Rows as u8, 0xff, 0xff, 0xff, 0xff];
    assert!(Response::from_bytes(&frame).is_err());
}

#[test]
fn rows_frame_announcing_4g_rows_is_a_protocol_error() {
    // 10-byte frame: version, Rows, 0 columns, row count = u32::MAX
    let frame = [PROTOCOL_VERSION, StatusCode::Rows as u8, 0, 0, 0, 0, 0xff, 0xff, 0xff, 0xff];
    assert!(Response::from_bytes(&frame).is_err());
}
