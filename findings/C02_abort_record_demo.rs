use axmosdb::{DBConfig, Database};

/// A rolled back (or dropped) session must leave an ABORT in the log, so that analysis puts it
/// in the undo set; an acknowledged COMMIT must stay in the redo set even after the session
/// object is dropped.
#[test]
fn rollback_is_classified_for_undo_and_commit_for_redo() {
    let dir = tempfile::TempDir::new().unwrap();
    let path = dir.path().join("t.db");
    let db = Database::create(&path, DBConfig::default()).unwrap();
    db.execute("CREATE TABLE t (id BIGINT, v INT)").unwrap();
    db.flush().unwrap(); // checkpoint: the log is empty from here on

    let mut a = db.session().unwrap();
    a.execute("INSERT INTO t VALUES (1, 10)").unwrap();
    a.abort_transaction().unwrap();
    drop(a);

    let mut b = db.session().unwrap();
    b.execute("INSERT INTO t VALUES (2, 20)").unwrap();
    b.commit_transaction().unwrap();
    drop(b); // the server drops the session object after COMMIT

    let c = db.session().unwrap();
    drop(c); // dropped without commit: rolled back

    let analysis = db.pager().write().run_analysis().unwrap();
    // transaction ids: CREATE = 0, a = 1, b = 2, c = 3
    assert!(analysis.needs_undo.contains(&1), "rolled-back transaction must be undone: undo={:?} redo={:?}", analysis.needs_undo, analysis.needs_redo);
    assert!(!analysis.needs_redo.contains(&1), "rolled-back transaction must not be redone");
    assert!(analysis.needs_redo.contains(&2) && !analysis.needs_undo.contains(&2), "committed transaction must be redone: undo={:?} redo={:?}", analysis.needs_undo, analysis.needs_redo);
    assert!(analysis.needs_undo.contains(&3) && !analysis.needs_redo.contains(&3), "dropped session must be undone");
}
