// C16 -- "no input makes a worker die or the call block forever". The worker loop of the thread pool
// ran each task bare: a task that panicked ended its worker thread, and the pool never replaces a
// worker. Every panic anywhere in a statement (each one repaired so far -- `todo!()` in the
// evaluator, integer overflow, slice lengths, the u16 eviction counter of fix 7ba5924 -- was of this
// kind) therefore cost one worker for good, and after `pool_size` of them every later call waited
// for ever for an answer nobody would send: that is what turned those panics into hangs. The worker
// now contains a panicking task (fix db87d8f): the caller of that task sees its result channel
// close (an error), the worker goes on to the next job.
// Goes into crates/axmos-db/src/multithreading/tests.rs; FAILS before the fix (the last job never runs).
#[test]
fn c16_the_pool_survives_tasks_that_panic() {
    let pool = ThreadPool::new(2);
    for _ in 0..2 {
        pool.execute(|| panic!("a defect somewhere in a statement")).unwrap();
    }
    thread::sleep(Duration::from_millis(300));
    let (tx, rx) = std::sync::mpsc::channel();
    pool.execute(move || {
        let _ = tx.send(42);
        Ok(())
    })
    .unwrap();
    assert_eq!(rx.recv_timeout(Duration::from_secs(3)), Ok(42));
}
