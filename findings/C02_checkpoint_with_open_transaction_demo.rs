// C02 / C08 -- Database::flush is a checkpoint: it writes every dirty page to the data file and then
// DROPS the whole log (Pager::flush ends with `self.wal.truncate()`). It did so even while a
// transaction was open: the pages that transaction had written went to disk, the log records that
// could undo them went away. After a crash the recovery found an empty log, knew nothing of the
// transaction, and its changes were permanent although it never committed: the uncommitted INSERT
// was visible, the uncommitted DELETE was effective. A checkpoint now waits for a quiet moment:
// while any transaction is active, flush only forces the log (which is all durability needs).
// Goes into crates/axmos-db/src/tests/mod.rs; FAILS before the fix (ids after the crash: [2, 3]).
#[test]
fn c02_checkpoint_does_not_make_an_open_transaction_permanent() {
    let (dir, path) = temp_db_path();
    {
        let db = Database::create(&path, DBConfig::default()).unwrap();
        db.execute("CREATE TABLE t (id BIGINT, v INT)").unwrap();
        db.execute("INSERT INTO t VALUES (1, 1)").unwrap();
        db.flush().unwrap();
        let mut s = db.session().unwrap();
        s.execute("INSERT INTO t VALUES (2, 2)").unwrap(); // never committed
        s.execute("DELETE FROM t WHERE id = 1").unwrap(); // never committed
        db.execute("INSERT INTO t VALUES (3, 3)").unwrap(); // committed
        db.flush().unwrap(); // checkpoint in the middle of the open transaction
        std::mem::forget(s);
        std::mem::forget(db); // crash
    }
    let db = Database::open(&path, DBConfig::default()).expect("recovery must succeed");
    let rows = db.execute("SELECT id FROM t ORDER BY id").unwrap().into_rows().unwrap();
    let ids: Vec<String> = rows.iterrows().map(|r| format!("{:?}", r[0])).collect();
    assert_eq!(ids, vec!["BigInt(Int64(1))".to_string(), "BigInt(Int64(3))".to_string()]);
    drop(db);
    drop(dir);
}
