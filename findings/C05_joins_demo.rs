// C05 -- "joins pair rows correctly" (1-3 table joins of every join type).  Goes into
// crates/axmos-db/src/tests/mod.rs.  On the pinned tree 9 of these 20 queries are wrong:
//   * MergeJoin (chosen for every equality join): RIGHT / FULL emitted the wrong unmatched right rows
//     (flags never set, rows taken from the current key group) and nothing at all when the left input
//     is empty; a NULL join key on the left made the scan skip the whole right input (INNER and LEFT
//     lost matches); 
//   * NestedLoopJoin: RIGHT / FULL with an empty left input padded with 0 NULLs (wrong row width,
//     "column index out of bounds" one operator later);
//   * planner: `ON b.id = a.id` (right table first) handed the join operators key columns of the
//     wrong input (JoinOp::extract_equi_keys did not orient the pairs).
#[test]
fn c05_join_matrix() {
    let db = TestDb::new();
    db.execute_ok("CREATE TABLE a (id BIGINT, x INT)");
    db.execute_ok("CREATE TABLE b (id BIGINT, y INT)");
    db.execute_ok("CREATE TABLE e (id BIGINT, z INT)");
    for (i, x) in [(1, "10"), (2, "NULL"), (3, "30")] { db.execute_ok(&format!("INSERT INTO a VALUES ({}, {})", i, x)); }
    for (i, y) in [(2, "NULL"), (3, "30"), (4, "40")] { db.execute_ok(&format!("INSERT INTO b VALUES ({}, {})", i, y)); }
    let qs = [
        ("SELECT a.id, b.id FROM a JOIN b ON a.id = b.id", "[2, 2] [3, 3]"),
        ("SELECT a.id, b.id FROM a LEFT JOIN b ON a.id = b.id", "[1, Null] [2, 2] [3, 3]"),
        ("SELECT a.id, b.id FROM a RIGHT JOIN b ON a.id = b.id", "[2, 2] [3, 3] [Null, 4]"),
        ("SELECT a.id, b.id FROM a FULL JOIN b ON a.id = b.id", "[1, Null] [2, 2] [3, 3] [Null, 4]"),
        ("SELECT a.id, b.id FROM a JOIN b ON a.x = b.y", "[3, 3]"),
        ("SELECT a.id, b.id FROM a LEFT JOIN b ON a.x = b.y", "[1, Null] [2, Null] [3, 3]"),
        ("SELECT a.id, b.id FROM a RIGHT JOIN b ON a.x = b.y", "[3, 3] [Null, 2] [Null, 4]"),
        ("SELECT a.id, b.id FROM a FULL JOIN b ON a.x = b.y", "[1, Null] [2, Null] [3, 3] [Null, 2] [Null, 4]"),
        ("SELECT a.id, b.id FROM a JOIN b ON a.id < b.id", "[1, 2] [1, 3] [1, 4] [2, 3] [2, 4] [3, 4]"),
        ("SELECT a.id, b.id FROM a LEFT JOIN b ON a.id > b.id", "[1, Null] [2, Null] [3, 2]"),
        ("SELECT a.id, b.id FROM a RIGHT JOIN b ON a.id > b.id", "[3, 2] [Null, 3] [Null, 4]"),
        ("SELECT a.id, b.id FROM a FULL JOIN b ON a.id > b.id", "[1, Null] [2, Null] [3, 2] [Null, 3] [Null, 4]"),
        ("SELECT a.id, e.id FROM a LEFT JOIN e ON a.id = e.id", "[1, Null] [2, Null] [3, Null]"),
        ("SELECT a.id, e.id FROM e RIGHT JOIN a ON a.id = e.id", "[1, Null] [2, Null] [3, Null]"),
        ("SELECT a.id, e.id FROM e RIGHT JOIN a ON e.id = a.id", "[1, Null] [2, Null] [3, Null]"),
        ("SELECT a.id, e.id FROM a JOIN e ON a.id = e.id", ""),
        ("SELECT a.id, e.id FROM e RIGHT JOIN a ON a.id < e.id", "[1, Null] [2, Null] [3, Null]"),
        ("SELECT a.id, e.id FROM a FULL JOIN e ON a.id < e.id", "[1, Null] [2, Null] [3, Null]"),
        ("SELECT a.id, b.id FROM a JOIN b ON b.id = a.id", "[2, 2] [3, 3]"),
        ("SELECT a.id, b.id FROM a LEFT JOIN b ON b.id = a.id", "[1, Null] [2, 2] [3, 3]"),
    ];
    let mut bad = Vec::new();
    for (q, want) in qs {
        let got = match db.execute(q) {
            Err(e) => format!("ERR {}", e),
            Ok(r) => {
                let mut v = r.into_rows().unwrap().iterrows()
                    .map(|x| format!("{:?}", x).replace("BigInt(Int64(", "").replace("))", "").replace("Row(", "").replace("])", "]"))
                    .collect::<Vec<_>>();
                v.sort();
                v.join(" ")
            }
        };
        if got != want { bad.push(format!("{q}: got `{got}` want `{want}`")); }
    }
    assert!(bad.is_empty(), "{} wrong join results:\n{}", bad.len(), bad.join("\n"));
}
