// C05 -- "predicates follow ... the documented operator precedence": the comment in
// Parser::parse_prefix documents that NOT binds tighter than AND/OR ("NOT a AND b OR c is parsed as
// (OR (AND (NOT a) b) c)"), as in SQL.  The operand of NOT was parsed with minimum binding power 3,
// which is the LEFT power of AND, and parse_expr_bp only stops below the minimum: the AND was
// swallowed.  Goes into crates/axmos-db/src/tests/mod.rs; FAILS before the fix (1 row returned).
#[test]
fn c05_not_binds_tighter_than_and() {
    let db = TestDb::new();
    setup_test_table(&db);
    db.execute_ok("INSERT INTO test VALUES (1, 100)");
    // (NOT (id = 2)) AND (value = 5)  =  TRUE AND FALSE  =  FALSE  -> no row
    let r = db.execute_ok("SELECT id FROM test WHERE NOT id = 2 AND value = 5");
    assert_eq!(r.into_rows().unwrap().iterrows().count(), 0);
}
