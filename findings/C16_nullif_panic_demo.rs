// C16 / C05 -- the NULLIF scalar function tested `args.len() != 1 || !matches!(args[1], ..)`:
// with one argument it indexed past the end and PANICKED the worker thread (the statement came back
// as "Task channel closed unexpectedly" and the pool lost a worker); with two arguments it always
// returned "invalid arguments".  Goes into crates/axmos-db/src/tests/mod.rs; FAILS before the fix.
#[test]
fn c16_nullif_neither_panics_nor_always_fails() {
    let db = TestDb::new();
    setup_test_table(&db);
    db.execute_ok("INSERT INTO test VALUES (1, 100)");
    db.execute_ok("INSERT INTO test VALUES (2, 7)");
    // wrong arity is an ordinary error of the statement, not a dead worker
    let err = db.execute("SELECT NULLIF(value) FROM test").unwrap_err().to_string();
    assert!(err.contains("invalid arguments"), "{err}");
    // NULLIF(a, b) is NULL when a = b, else a
    let rows = db.execute_ok("SELECT NULLIF(value, 100) FROM test").into_rows().unwrap();
    let got: Vec<String> = rows.iterrows().map(|r| format!("{:?}", r[0])).collect();
    assert_eq!(got, vec!["Null".to_string(), "Int(Int32(7))".to_string()]);
}
