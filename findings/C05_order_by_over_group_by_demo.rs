// C05 -- "results as SQL defines": the sort of `SELECT .. GROUP BY .. ORDER BY k` runs over the OUTPUT
// of the aggregation, but its keys were bound against the FROM clause: `ORDER BY g` carried g's
// column index in the TABLE (2, after row id and id) and the Sort operator applied it to the
// aggregate's output row [g, COUNT(*), SUM(v)] -- the groups came back ordered by SUM(v), or the
// statement failed with "column index out of bounds" when the output was narrower. No error, wrong
// order. Planner::build_select now rebinds each sort key of an aggregate query to the select
// item it names (and refuses a key that is not a select item).
// Goes into crates/axmos-db/src/tests/mod.rs; FAILS before the fix (groups come back as 1, 3, 2).
#[test]
fn c05_order_by_of_an_aggregate_query_sorts_by_the_named_item() {
    let db = TestDb::new();
    db.execute_ok("CREATE TABLE t (id BIGINT, g INT, v INT)");
    for (id, g, v) in [(1, 1, 10), (2, 1, 20), (3, 2, 30), (4, 2, 30), (5, 3, 50)] {
        db.execute_ok(&format!("INSERT INTO t VALUES ({}, {}, {})", id, g, v));
    }
    let groups = |q: &str| -> Vec<i32> {
        db.execute_ok(q).into_rows().unwrap().iterrows().map(|r| r[0].as_int().unwrap().value()).collect()
    };
    // SUM(v) per group is 30, 60, 50: sorting by it (what the engine did for ORDER BY g) gives 1, 3, 2
    assert_eq!(groups("SELECT g, COUNT(*), SUM(v) FROM t GROUP BY g ORDER BY g"), vec![1, 2, 3]);
    assert_eq!(groups("SELECT g, COUNT(*) FROM t GROUP BY g ORDER BY g DESC"), vec![3, 2, 1]);
    assert_eq!(groups("SELECT g, SUM(v) FROM t GROUP BY g ORDER BY SUM(v) DESC"), vec![2, 3, 1]);
}
