// C05 -- "results as SQL defines": nothing in the engine evaluates an expression OVER the keys or
// the aggregates of a group (there is no projection above the aggregation), but such select items
// were planned all the same and silently answered with the bare key or the bare aggregate:
// `SELECT g + 1, COUNT(*) .. GROUP BY g` returned g, `SELECT g, COUNT(*) + 1` returned the count, and
// the invalid `SELECT id, COUNT(*) .. GROUP BY g` returned g under the name id. They are refused now
// (an error instead of a wrong answer).
// Goes into crates/axmos-db/src/tests/mod.rs; FAILS before the fix (the statements succeed).
#[test]
fn c05_expressions_over_a_group_are_refused_not_answered_wrongly() {
    let db = TestDb::new();
    db.execute_ok("CREATE TABLE t (id BIGINT, g INT, v INT)");
    for (id, g, v) in [(1, 1, 10), (2, 1, 20), (3, 2, 30)] {
        db.execute_ok(&format!("INSERT INTO t VALUES ({}, {}, {})", id, g, v));
    }
    assert!(db.db.execute("SELECT g + 1, COUNT(*) FROM t GROUP BY g").is_err());
    assert!(db.db.execute("SELECT g, COUNT(*) + 1 FROM t GROUP BY g").is_err());
    assert!(db.db.execute("SELECT id, COUNT(*) FROM t GROUP BY g").is_err());
    // what CAN be computed still is
    assert_eq!(db.execute_ok("SELECT COUNT(*), g FROM t GROUP BY g").into_rows().unwrap().iterrows().count(), 2);
}
