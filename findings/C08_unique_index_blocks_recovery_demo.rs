// C08 / C01 -- recovery re-executes logged rows through DmlExecutor::insert (redo of an INSERT, undo
// of a DELETE), which validates constraints first. On a table with a UNIQUE index the replayed row
// "conflicted" with ITSELF whenever it was already there -- e.g. a committed INSERT followed by a
// rolled-back DELETE of the same row: the redo pass re-inserts the row, the undo pass re-inserts it
// again. The UNIQUE probe rejected it, the recovery job failed, Database::open returned the error --
// and, since a failed recovery keeps the log, every later open failed the same way: the database
// could not be opened any more. A row does not conflict with itself: the probe now excludes the
// row's own id.
// Goes into crates/axmos-db/src/tests/mod.rs; FAILS before the fix (open returns
// "UNIQUE constraint violated").
#[test]
fn c08_database_with_a_unique_index_opens_after_a_crash() {
    let (dir, path) = temp_db_path();
    {
        let db = Database::create(&path, DBConfig::default()).unwrap();
        db.execute("CREATE TABLE t (id BIGINT, v INT, u INT)").unwrap();
        db.execute("CREATE UNIQUE INDEX idx_u ON t (u)").unwrap();
        db.flush().unwrap();
        db.execute("INSERT INTO t VALUES (2, 151, 1)").unwrap();
        let mut s = db.session().unwrap();
        s.execute("DELETE FROM t WHERE id = 2").unwrap();
        s.abort_transaction().unwrap();
        std::mem::forget(db); // crash: nothing is flushed
    }
    let db = Database::open(&path, DBConfig::default()).expect("recovery must succeed");
    let rows = db.execute("SELECT id FROM t WHERE u = 1").unwrap().into_rows().unwrap();
    assert_eq!(rows.iterrows().count(), 1);
    assert!(db.execute("INSERT INTO t VALUES (3, 0, 1)").is_err()); // UNIQUE still enforced
    drop(db);
    drop(dir);
}
