// C16 -- ExpressionEvaluator::evaluate ended in `_ => unreachable!(..)`: every expression kind the
// binder accepts but the evaluator does not implement (CASE, an aggregate in WHERE / ORDER BY, `*`
// as an operand) PANICKED the worker thread.  Goes into crates/axmos-db/src/tests/mod.rs; FAILS
// before the fix.
#[test]
fn c16_unevaluable_expressions_are_statement_errors() {
    let db = TestDb::new();
    setup_test_table(&db);
    db.execute_ok("INSERT INTO test VALUES (1, 100)");
    for q in [
        "SELECT CASE WHEN value > 50 THEN 1 ELSE 0 END FROM test",
        "SELECT id FROM test WHERE COUNT(*) > 0",
        "SELECT id FROM test ORDER BY COUNT(*)",
        "SELECT * FROM test WHERE * = 1",
    ] {
        let err = db.execute(q).unwrap_err().to_string();
        assert!(err.contains("cannot be evaluated"), "{q}: {err}");
    }
    for _ in 0..32 { assert_eq!(db.query_count("test"), 1); }
}
