// C05 -- "results as SQL defines": inside an ORDER BY *expression* an unqualified name was looked up
// among the output names of the select list FIRST, and such a match resolves to column position 0
// ("not meaningful for aliases") -- the row id. `SELECT id, amt FROM o ORDER BY amt * -1` therefore
// sorted by `row_id * -1` (no error, wrong order; with LIMIT the wrong rows), `ORDER BY -amt`
// failed with a type error, while the same ORDER BY worked when `amt` was not selected. The columns
// of the FROM clause now come first; an output alias is only the fallback.
// Goes into crates/axmos-db/src/tests/mod.rs; FAILS before the fix (ids come back as 13, 12, 11, 10).
#[test]
fn c05_order_by_expression_over_a_selected_column() {
    let db = TestDb::new();
    db.execute_ok("CREATE TABLE o (id BIGINT, cid BIGINT, amt INT)");
    db.execute_ok("INSERT INTO o VALUES (10, 1, 5), (11, 1, 7), (12, 2, 9), (13, 9, 1)");
    let ids = |q: &str| -> Vec<i64> {
        db.execute_ok(q).into_rows().unwrap().iterrows().map(|r| r[0].as_big_int().unwrap().value()).collect()
    };
    // descending amt: 9, 7, 5, 1
    assert_eq!(ids("SELECT id, amt FROM o ORDER BY amt * -1"), vec![12, 11, 10, 13]);
    assert_eq!(ids("SELECT id, amt FROM o ORDER BY -amt LIMIT 2"), vec![12, 11]);
    assert_eq!(ids("SELECT id, amt FROM o ORDER BY amt + 0 DESC LIMIT 2"), vec![12, 11]);
    // the same keys when the column is not selected, and a bare alias still works
    assert_eq!(ids("SELECT id FROM o ORDER BY amt * -1"), vec![12, 11, 10, 13]);
    assert_eq!(ids("SELECT id, amt * 2 AS d FROM o ORDER BY d DESC LIMIT 2"), vec![12, 11]);
}
