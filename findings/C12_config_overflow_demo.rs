use axmosdb::DBConfig;

#[test]
fn any_requested_page_size_yields_a_valid_configuration() {
    for ps in [0usize, 1, 4095, 4096, 5000, 65536, 70000, usize::MAX / 2 + 2, usize::MAX] {
        let c = DBConfig::new(ps, 100, 2, 3, 1);
        assert!(c.page_size >= 4096 && c.page_size <= 65536 && c.page_size.is_power_of_two(), "{ps} -> {}", c.page_size);
        let b = DBConfig::builder().page_size(ps).build();
        assert_eq!(b.page_size, c.page_size);
    }
    assert_eq!(DBConfig::new(5000, 1, 1, 3, 1).page_size, 8192);
}
