// C03 -- "A statement that fails makes no partial changes" (observed, NOT repaired; outside every
// unit: there are no statement-level savepoints): inside an explicit transaction a multi-row INSERT
// whose second row violates UNIQUE fails -- after the first row was written. The session's
// transaction stays open with that row in it, and COMMIT makes it permanent. (With autocommit and
// with execute_batch the whole transaction is dropped on failure, which hides the partial row:
// unit autocommit.)
// Goes into crates/axmos-db/src/tests/mod.rs; FAILS on the pinned and on the repaired tree (row 7
// is there).
#[test]
fn c03_a_failed_statement_inside_a_session_leaves_no_partial_rows() {
    let db = TestDb::new();
    db.execute_ok("CREATE TABLE t (id BIGINT, w INT, v INT NOT NULL)");
    db.execute_ok("CREATE UNIQUE INDEX idx_v ON t (v)");
    db.execute_ok("INSERT INTO t VALUES (1, 0, 10)");
    let mut s = db.session().unwrap();
    s.execute("INSERT INTO t VALUES (6, 0, 60)").unwrap();
    assert!(s.execute("INSERT INTO t VALUES (7, 0, 70), (8, 0, 10)").is_err());
    s.commit_transaction().unwrap();
    // rows 1 and 6; the failed statement's first row (7) must not be there
    assert_eq!(db.query_count("t"), 2);
}
