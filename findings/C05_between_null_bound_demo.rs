// C05 -- three-valued logic: `x BETWEEN a AND b` is `x >= a AND x <= b`, and an AND with one FALSE
// side is FALSE even if the other side is unknown. The evaluator answered NULL whenever ANY operand
// was NULL, so `5 NOT BETWEEN NULL AND 3` (TRUE in SQL: 5 <= 3 is false) was unknown and the row was
// dropped from a WHERE. (The earlier repair 411cb7d had made NOT BETWEEN negate at all; it kept
// this simplification.)
// Goes into crates/axmos-db/src/tests/mod.rs; FAILS before the fix (first count is 0).
#[test]
fn c05_between_with_a_null_bound_is_three_valued() {
    let db = TestDb::new();
    db.execute_ok("CREATE TABLE one (id BIGINT, n INT)");
    db.execute_ok("INSERT INTO one VALUES (1, NULL)");
    let count = |q: &str| -> i64 { db.execute_ok(q).into_rows().unwrap().first().unwrap()[0].as_big_int().unwrap().value() };
    // 5 >= NULL is unknown, 5 <= 3 is false: the AND is FALSE, its negation TRUE
    assert_eq!(count("SELECT COUNT(*) FROM one WHERE 5 NOT BETWEEN n AND 3"), 1);
    assert_eq!(count("SELECT COUNT(*) FROM one WHERE 0 NOT BETWEEN 1 AND n"), 1);
    assert_eq!(count("SELECT COUNT(*) FROM one WHERE NOT (5 BETWEEN n AND 3)"), 1);
    // genuinely unknown: no row either way
    assert_eq!(count("SELECT COUNT(*) FROM one WHERE 2 BETWEEN n AND 3"), 0);
    assert_eq!(count("SELECT COUNT(*) FROM one WHERE 2 NOT BETWEEN n AND 3"), 0);
    assert_eq!(count("SELECT COUNT(*) FROM one WHERE n BETWEEN 1 AND 3"), 0);
    assert_eq!(count("SELECT COUNT(*) FROM one WHERE n NOT BETWEEN 1 AND 3"), 0);
    assert_eq!(count("SELECT COUNT(*) FROM one WHERE 2 BETWEEN 1 AND 3"), 1);
}
