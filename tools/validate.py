#!/usr/bin/env python3-vt
import json, sys, glob, jsonschema
m = json.load(open('/verif/MANIFEST.json'))
jsonschema.validate(m, json.load(open('/root/.vp/MANIFEST.schema.json')))
print('MANIFEST ok')
es = json.load(open('/root/.vp/EVIDENCE.schema.json'))
for f in sorted(glob.glob('/verif/evidence/*.json')):
    e = json.load(open(f))
    jsonschema.validate(e, es)
    c = e['coverage']
    print(f, 'ok', c.get('obligations'), c.get('discharged'))
