#!/usr/bin/env python3
"""Rewrite section 9 of DESIGN.md from seeded/RESULTS.json."""
import json, os, re
S='/verif/seeded'
res=json.load(open(os.path.join(S,'RESULTS.json')))
WHY = json.load(open(os.path.join(S,'WHY_MISSED.json'))) if os.path.exists(os.path.join(S,'WHY_MISSED.json')) else {}
rows=[]
caught=0; total=0
for n in sorted(res):
    meta=json.load(open(os.path.join(S,n,'meta.json')))
    summ=meta.get('summary','')
    m=re.search(r'(crates/[\w/\-\.]+\.rs)[^A-Za-z]*([A-Za-z_:<>]+(?:::[A-Za-z_]+)*)?', summ)
    where=(m.group(1).replace('crates/axmos-db/src/','') if m else '?')
    short=summ.split('. ')[0][:150].replace('|','/')
    cell=[]
    hit=False
    for tier in ('quick','thorough'):
        r=res[n].get(tier)
        if not r: continue
        if not r.get('applies',True):
            cell.append('%s: patch no longer applies'%tier); continue
        if r['exit']==1:
            hit=True
            cell.append('%s: **VIOLATION** %s'%(tier, ', '.join('`%s`'%o for o in r['failed_obligations'][:3])))
        elif r['exit']==2:
            cell.append('%s: undecided (exit 2)'%tier)
        else:
            cell.append('%s: not caught'%tier)
    total+=1; caught+=hit
    rows.append('| %s | %s | %s | %s | %s |'%(n, meta['property'], short, '; '.join(cell), '' if hit else WHY.get(n,'')))
tab=['| change | property | what it changes | result of `./check <property>` | if missed: why |','|---|---|---|---|---|']+rows
tab.append('')
tab.append('%d of %d seeded changes are reported as violations by the check of their own property.'%(caught,total))
d=open('/verif/DESIGN.md').read()
i=d.index('## 9. Which checks catch which seeded changes')
d=d[:i]+'## 9. Which checks catch which seeded changes\n\n'+'\n'.join(tab)+'\n'
open('/verif/DESIGN.md','w').write(d)
print(caught,total)
