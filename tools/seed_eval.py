#!/usr/bin/env python3
"""Run the registered checks against every seeded change: apply to /repo, run, undo.
Writes seeded/RESULTS.json.  Usage: seed_eval.py [tier] [name ...]"""
import json, os, re, subprocess, sys
S = '/verif/seeded'
tier = sys.argv[1] if len(sys.argv) > 1 and sys.argv[1] in ('quick', 'thorough') else 'quick'
names = [a for a in sys.argv[1:] if a not in ('quick', 'thorough')] or sorted(d for d in os.listdir(S) if re.match(r'C\d+-m\d+$', d))
resf = os.path.join(S, 'RESULTS.json')
res = json.load(open(resf)) if os.path.exists(resf) else {}
assert subprocess.run('git -C /repo status --porcelain', shell=True, capture_output=True, text=True).stdout.strip() == '', '/repo not clean'
for n in names:
    P = n.split('-')[0]
    d = os.path.join(S, n)
    rc = subprocess.run('git -C /repo apply %s/patch.diff' % d, shell=True, capture_output=True, text=True)
    if rc.returncode != 0:
        res.setdefault(n, {})[tier] = dict(applies=False, note=rc.stderr[-200:])
        print(n, 'patch does not apply to current HEAD'); continue
    try:
        p = subprocess.run(['./check', P, tier], cwd='/verif', capture_output=True, text=True, timeout=3600)
        out = p.stdout + p.stderr
        failed = re.findall(r'failed obligation (\S+)', out)
        res.setdefault(n, {})[tier] = dict(applies=True, exit=p.returncode, failed_obligations=failed,
                                           violation_lines=[l for l in out.split('\n') if l.startswith('VIOLATION')],
                                           undecided=[l for l in out.split('\n') if l.startswith('UNDECIDED')][:5],
                                           summary=[l for l in out.split('\n') if 'obligations discharged' in l])
        print(n, tier, 'exit', p.returncode, failed[:4]); sys.stdout.flush()
    finally:
        subprocess.run('git -C /repo checkout -- .', shell=True)
    json.dump(res, open(resf, 'w'), indent=1)
