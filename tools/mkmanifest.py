#!/usr/bin/env python3
"""Regenerates /verif/MANIFEST.json from the table below and validates it against the schema."""
import json
import os
import sys

HERE = os.path.dirname(os.path.dirname(os.path.abspath(__file__)))

TRUST = ("Trusted: Verus 0.2026.09.13+Z3, Kani 0.68+CBMC 6.11; the extractor's rewrite rules R1-R7; the environment "
         "contracts marked //@trusted in the unit templates (listed again in the evidence file); machine integers exact.")

CLAIMS = {
    # id: (decided text, outside text, technique, design_ref)
    'C04': ("Decided for all inputs: the visibility predicate (Snapshot::is_committed_before_snapshot, is_tuple_visible, "
            "TupleLayout::is_valid_for_snapshot) equals the snapshot-isolation rule 'creator is the reader or committed "
            "before the reader began, deleter is neither'; TransactionCoordinator::snapshot always records an upper bound "
            "and the active/aborted sets; a lemma connects the predicate to a ghost history.",
            "Outside (not claimed): write-write conflict validation (validate_write_set/commit), the version-chain walk on "
            "raw tuple bytes, executors, schedules.",
            "Verus postconditions on verbatim-extracted functions", "4 C04, Appendix A.1"),
}

NA = {
    'C06': "relational equivalence of two whole-pipeline executions under different optimizer choices (memo rewriting over enum trees + index maintenance over pager-backed trees); no single-call contract states 'same multiset of rows'",
    'C07': "UNIQUE/PK enforcement is an index B-tree probe through the pager plus a closure; 'always hold in committed data' is a history invariant over table + index trees, outside both tools",
    'C08': "quantifies over crash points inside recovery and repeated opens of the whole engine; recovery re-executes logical DML/DDL through every layer; the log-side kernels are counted under C17/C01/C02",
    'C11': "page ownership is an invariant over the whole file; allocate_page/dealloc_page are generic over page types with closures (not extractable) and a live Pager is beyond Kani's capacity here (DESIGN M14)",
    'C13': "the removal decision is an expression inside a closure inside Catalog::vacuum_btree's loop -- not an item, cannot carry a contract without refactoring; the function-level pieces are obligations of C18/C09",
    'C14': "schedules, deadlock freedom, liveness: Kani has no threads; Verus would need a rewritten model of the parking_lot latches",
    'C15': "DDL executor and catalog are B-tree clients through the pager; Relation (de)serialisation is rkyv-derived; no function-level contract within reach decides transactional DDL",
}

NOT_YET = "no contract unit is registered for this property yet in this revision of /verif (work in progress; see DESIGN.md section 4 for the planned kernel)"


def main():
    props = [json.loads(l) for l in open(os.path.join(HERE, 'properties.jsonl'))]
    checks = []
    na = []
    for p in props:
        i = p['id']
        if i in CLAIMS:
            dec, out, tech, ref = CLAIMS[i]
            checks.append(dict(
                property_id=i,
                quick_cmd='./check %s quick' % i,
                thorough_cmd='./check %s thorough' % i,
                evidence_file='/verif/evidence/%s.json' % i,
                replay_cmd_template='./check --replay {path}',
                engine='contracts',
                level_claimed=dict(category='proof', text=dec + ' ' + out, design_ref='DESIGN.md section ' + ref),
                level_note=TRUST,
                technique=tech,
            ))
        else:
            na.append(dict(property_id=i, reason=NA.get(i, NOT_YET)))
    m = dict(
        version=1,
        setup_cmd='python3 tools/setup.py',
        hooks=dict(
            guard='kani',
            enable='none needed: both engines instrument a scratch COPY of /repo at check time (cfg(kani) attributes/modules injected there); /repo carries no hook commits',
            baseline_off_cmd='cd /repo && cargo nextest run --workspace --no-fail-fast --offline --test-threads 8',
            source_commits=[],
            add_only=True,
        ),
        engines=[
            dict(name='contracts', path='/verif/check', serves_properties=sorted(CLAIMS),
                 kind_free_text='contract-based deductive verification: Verus on functions extracted verbatim from /repo each run; '
                                'Kani function contracts / complete harnesses injected into a scratch copy of the real crate'),
        ],
        checks=checks,
        not_applicable=na,
        notes='See DESIGN.md. Exit 2 from a check means undecided (lost anchor, unsupported construct, solver limit), never an alarm.',
    )
    json.dump(m, open(os.path.join(HERE, 'MANIFEST.json'), 'w'), indent=1)
    try:
        import jsonschema
        jsonschema.validate(m, json.load(open('/root/.vp/MANIFEST.schema.json')))
        print('MANIFEST.json valid;', len(checks), 'checks,', len(na), 'not_applicable')
    except ImportError:
        print('MANIFEST.json written (jsonschema not available)')


if __name__ == '__main__':
    sys.exit(main())
