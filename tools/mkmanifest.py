#!/usr/bin/env python3
"""Regenerates /verif/MANIFEST.json from the table below and validates it against the schema."""
import json
import os
import sys

HERE = os.path.dirname(os.path.dirname(os.path.abspath(__file__)))

TRUST = ("Trusted: Verus 0.2026.09.13+Z3, Kani 0.68+CBMC 6.11; the extractor's rewrite rules R1-R11; the environment "
         "contracts marked //@trusted in the unit templates (listed again in the evidence file); machine integers exact.")

CLAIMS = {
    # id: (decided text, outside text, technique, design_ref)
    'C01': ("Decided for all inputs (Verus, unbounded): the durability chain Session::commit_transaction -> TransactionLogger::{log_commit, log_end} -> Pager::{push_to_log, flush_wal} -> WriteAheadLog::{push, perform_flush}: when COMMIT returns Ok the transaction's COMMIT record is in what a reader obtains from the log file; every single block write the force issues only ever EXTENDS the readable log (crash cut between any two writes loses no forced record); block zero is written after the blocks it accounts for; dropping a committed session appends nothing; the analysis pass of recovery puts exactly the transactions whose last status record is COMMIT into the redo set (loop invariant over the whole log, any log); a checkpoint (Pager::flush) leaves an openable, empty log with every dirty page and the header written. Recovery dispatch (WalRecuperator::run_recovery/run_undo/run_redo): the undo pass runs first and calls only undo handlers, the redo pass only redo handlers, each only for transactions of its own analysis set. The six DML handlers of recovery apply the image they are handed unconditionally -- decoded as logged, not filtered through the recovery snapshot (Verus, unit redohandlers: redo_insert inserts the logged row, redo_update applies old -> new, undo_update new -> old, undo_delete re-inserts the old row, undo_insert / redo_delete delete by the logged row id). Write-ahead rule (DmlExecutor::insert/update/delete): on every path the log record naming this table and this row is appended before the table's tree is modified.",
            "Outside (not claimed): that re-executing the logged statements through DmlExecutor rebuilds the right contents (a differential crash probe still loses committed work across several crash cycles with open transactions: DESIGN section 5, not repaired), DDL handlers, the autocommit closures in Database::execute, torn block writes.",
            "Verus contracts on verbatim-extracted functions; crash cuts as preconditions of the file-write primitive", "4 C01, Appendix A.2"),
    'C02': ("Decided: ROLLBACK/abandoned sessions append an ABORT record of their own transaction before END (Verus, chain Session::abort_transaction -> log_abort -> push_to_log); Session::drop aborts only open transactions; WriteAheadLog::run_analysis computes redo = {last status record is COMMIT}, undo = {begun and not redone} and keys every DML/DDL record by its own LSN, for every log (Verus, loop invariant; lemma: the two sets are disjoint when ids are not reused); the aborted-transaction bitmap in page zero records and reports every tracked id exactly (Kani, full domain) and get_aborted_transactions reloads exactly the recorded ids (Verus). The undo pass of recovery dispatches every logged operation of every transaction in the undo set to an undo handler and to nothing else (Verus, run_undo).",
            "Outside: what DmlExecutor does with the undone statements (see C01), checkpoints taken while transactions are open (Pager::flush writes their pages and drops their log records), page steal/write-back interplay; ids >= 8192 are a recorded known finding (C09).",
            "Verus contracts on extracted functions + complete Kani harnesses / function contract on the real crate", "4 C02"),
    'C03': ("Decided for all inputs: a version created or deleted by an aborted transaction is treated by the visibility predicate exactly as if that transaction never ran (aborted creator => invisible, aborted deleter => ignored), TransactionCoordinator::snapshot copies the full aborted and active sets into every snapshot, and Tuple::delete stores exactly the deleter's id and nothing else (Kani on real bytes, every id below 2^63); DmlExecutor::insert/update/delete stamp every version they write with the writing transaction's own id, touch only rows their snapshot can see, and a DELETE first clears the delete mark a rolled-back transaction left on the row (Verus); Tuple::add_version_with increments the version number, leaves no delete mark and changes nothing on failure -- its obligation 'the new version is created by the writer' FAILS on the pinned tree and is the recorded known finding (the new version keeps the previous creator: rolled-back UPDATEs stay visible).",
            "Outside: TransactionCoordinator::abort, statement-level atomicity of the executors, DDL rollback.",
            "Verus postconditions on verbatim-extracted functions", "4 C03"),
    'C04': ("Decided for all inputs: the visibility predicate (Snapshot::is_committed_before_snapshot, is_tuple_visible, TupleLayout::is_valid_for_snapshot) equals the snapshot-isolation rule 'creator is the reader or committed before the reader began, deleter is neither'; TransactionCoordinator::snapshot always records an upper bound and the active/aborted sets; a lemma connects the predicate to a ghost history; repeatability (verdict is a function of snapshot and version header); TransactionCoordinator::commit never moves the snapshot horizon backwards; validate_write_set reports a conflict whenever a written tuple was committed at or after the writer's start, and otherwise stamps every written tuple with the commit timestamp it drew (first-committer-wins bookkeeping, sequential lock semantics). TupleReader::parse_for_snapshot, on the byte-level delta chain of any well-formed stored tuple: a row deleted for the reader (deleter committed before it, or the reader itself) decodes to nothing, a returned version's creator is visible to the reader and is the NEWEST such version, and nothing is returned only if no version is visible (Verus, loop invariants over the chain). Known finding: Tuple::add_version_with stamps new versions with the previous creator.",
            "Outside: that the executors call record_write (they do not today), schedules; the chain walk assumes the reader's own versions are on top (no write over another transaction's uncommitted version).",
            "Verus postconditions on verbatim-extracted functions", "4 C04, Appendix A.1"),
    'C05': ("Decided (Kani on the real evaluator, complete over the stated domains): AND/OR/NOT are Kleene three-valued logic over all 9/3 operand combinations; =,<>,<,<=,>,>= on INT agree with integer order for every pair; NULL operands propagate through every comparison and arithmetic operator; boolean context maps NULL to false; column bindings are bounds-checked; 32-bit add/sub are exact; arithmetic on non-numerics is an error; the ORDER BY comparator is antisymmetric, transitive and follows integer order / direction for every INT/NULL key. The Pratt parser's binding-power table puts OR < AND < comparison/LIKE/IN/BETWEEN/IS < additive/|| < multiplicative, all left-associative, NOT only before IN/BETWEEN/LIKE (Verus on infix_binding_power); the operand of unary minus stops before every additive, comparison and boolean operator and the operand of NOT before AND/OR but after comparisons (Verus on the two arms of parse_prefix); IS [NOT] NULL, [NOT] BETWEEN, [NOT] IN (list) and [NOT] LIKE return exactly the three-valued verdict (NULL operand => NULL, otherwise negation flips it) for every operand value (Verus on the arms of evaluate and on string_like); the aggregate accumulators implement the SQL step function (NULL inputs change nothing, COUNT counts non-NULL inputs, SUM/AVG add, MIN/MAX keep the extreme, empty input gives NULL / 0) and finalize accordingly; LIMIT/OFFSET returns exactly rows offset..offset+limit of its input in order, the filter returns exactly the rows whose predicate is TRUE, DISTINCT exactly the first occurrence of every row (Verus, operators against an abstract input stream); join building blocks: key matching is SQL equality (NULL never matches), the merge join's key comparison steps over a NULL key on its own side, the three row constructors produce left++right / left++NULLs / NULLs++right with the given widths; every row a nested-loop join or a merge join emits has the output schema's width, also with an empty input; a merge join remembers every right row it reads together with a matched flag, ends only after its left input and -- for RIGHT/FULL -- its whole right input are consumed and every remembered row has been looked at (partial correctness: termination of the two next() functions is not checked); SeqScan / IndexScan return exactly the next visible row (table row of the next visible, in-range index entry) satisfying the pushed-down / residual predicate, and a predicate that cannot be evaluated is returned as an error; the planner orients every equi-join key pair as (left column, right column) or returns none; ABS/CEIL/FLOOR/ROUND/SQRT/COALESCE/NULLIF check their arity before indexing and compute the stated value; subquery expressions are errors, not panics.",
            "Outside: the Pratt driver loop (parse_expr_bp / parse_infix) and the remaining prefix arms, the recursion of evaluate() over sub-expressions (each arm is checked against an abstract value of its operands), HashJoin::next and WHICH rows MergeJoin::next pairs across calls (MergeJoin::buffer_matching_right_rows is taken at a frame contract), HashAggregate's grouping loop, string functions, grouping, sort, DISTINCT, LIMIT, DML row addressing; induction over expression depth is stated, not machine-checked.",
            "complete Kani harnesses (loop-free, full-domain) on the real crate + Verus contracts on extracted functions and single match arms", "4 C05"),
    'C07': ("Decided for all inputs (Verus): ConstraintValidator::validate_not_null_constraints rejects a value vector exactly when some NOT NULL column (within the vector) holds NULL and accepts every other vector (loop invariant over the schema's columns); DmlExecutor::insert and ::update log and write a row image only after the constraint validation of exactly the values that image is built from has succeeded (full row for INSERT, old values + assignments for UPDATE), on every path.",
            "Outside: UNIQUE / PRIMARY KEY / foreign-key probing (ConstraintValidator::search_index / search_table: index B-tree probes through the pager inside closures; a not-yet-committed duplicate is deliberately 'no conflict', so two open transactions inserting the same key are not decided here), index maintenance, ALTER / CREATE UNIQUE INDEX on existing data.",
            "Verus contracts on verbatim-extracted functions; validation-before-write as a typestate precondition of the logger", "4 C07"),
    'C08': ("Decided (Verus, on the closure body of Database::run_recovery checked as a function of the values it captures): the recovery job analyses the log first, runs the undo/redo pass, commits the recovery transaction, and only then drops the log -- and only through a checkpoint (Pager::flush: dirty pages and header written before the log is truncated, unit pagerio), never through a bare truncation; so a crash at any point of the job, or right after it, leaves either the log or the recovered pages on disk.",
            "Outside: that the redo/undo handlers are idempotent and rebuild the right contents (logical DML/DDL through every layer), crash points inside a checkpoint or inside VACUUM, torn page writes, checkpoints taken while other transactions are open (Pager::flush drops their log records too), structural soundness of the trees after a crash.",
            "Verus contract on a verbatim-extracted closure body (R11), ordering obligations as typestate preconditions of the checkpoint", "4 C08"),
    'C09': ("Decided (Kani, full domain): page-zero header state that must survive close/reopen -- aborted bitmap set/test/clear exactness and frame, header construction (counters, config fields, aligned page size); reload of the bitmap returns exactly the recorded ids; a checkpoint writes the header and every dirty page and leaves an openable empty log (Verus). Pager::allocate_page / dealloc_page keep the free list recorded in page zero a well-formed chain (see C11) and every page they hand out or free is dirty or already written; every write latch marks its frame dirty before access (Verus); DmlExecutor::insert persists the incremented next-row-id of the table it inserted into; Stats::from_blob reads back what the stored payload holds.",
            "Outside: catalog rows, overflow chains across reopen, Pager::sync_header I/O; ids >= 8192 are dropped by the bitmap (recorded known finding).",
            "complete Kani harnesses + an injected Kani function contract on the real crate + Verus contracts on extracted pager functions", "4 C09"),
    'C10': ("Decided for all inputs (Verus): Btree::binary_search_page finds a key iff it is present on a sorted page and terminates; Btree::find_child_on_page routes to the child of the first separator greater than the key, else the right child; every cell index stays in bounds. Btree::get_left_most descends through child 0 of every page (the right child of an interior page that holds no cell) without reading a slot of an empty page, and ends on the leftmost leaf (Verus, decreases over the tree depth); Btree::insert/upsert/update/search_tuple position on the key area of the tuple they are given; CellComparator::compare_keys is the lexicographic order of the key columns at their own byte positions.",
            "Outside: balance/split/merge (800 lines over pager-backed pages), sibling links, overflow reassembly, and the slotted-page layer itself (BtreePage insert/replace/remove/defragment: raw-pointer code that Verus cannot take and Kani cannot finish, DESIGN M14 -- two defects found and repaired there are guarded by demonstration tests only).",
            "Verus contracts with loop invariants on verbatim-extracted functions", "4 C10"),
    'C11': ("Decided for all inputs (Verus, unit pageralloc): against the abstract free list s (first_free = s[0], next(s[i]) = s[i+1], next(last) = None, last_free = s.last(), no duplicates) Pager::allocate_page returns s[0] and leaves the list s[1..] with the page count unchanged, or -- only when the list is empty -- hands out the next fresh page number and grows the file by one; Pager::dealloc_page(id) turns any list s not containing id into s + [id], refuses page zero, writes the freed page's free-format image at its own page id as a whole page and caches it; every frame either function puts into the cache is dirty or already written.",
            "Outside: that each non-free page is owned by exactly one tree node or overflow chain (an invariant over the whole file: B-tree and cell code through the pager), who calls dealloc_page and when (no double free is a stated precondition), VACUUM/DROP returning pages.",
            "Verus contracts on verbatim-extracted generic functions (type parameters erased by declared substitutions) against an abstract free-list view", "4 C11"),
    'C12': ("Decided for all inputs (Verus): the page cache never loses a frame -- insert/evict/remove/clear keep every cached frame unless it is handed back to the caller, evict only free frames and always finds one if any exists, out-of-memory only when every frame is pinned, clear keeps the configured capacity; Pager::cache_frame writes every dirty evictee back as a whole page at its own page id before it leaves the cache; every TryFrom<&MemFrame> for WriteLatch<_> marks the frame dirty (and keeps the page), read latches change nothing; allocate_page/dealloc_page cache only frames that are dirty or written; (Kani, full domain) DBConfig::new and the builder clamp page size to a power of two in [4096, 65536] for every input.",
            "Outside: equality of results across configurations end-to-end, worker pool.",
            "Verus contracts on extracted functions + complete Kani harnesses", "4 C12"),
    'C16': ("Decided (Kani): panic-freedom obligations of leaf functions for every input value -- casts, VarInt decoding of arbitrary bytes, evaluator column binding, wire decoders on arbitrary short byte strings, DBConfig::new; (Verus) every slice/index expression of the Rows decoder, of the delta-chain walkers and of the scalar functions is a discharged bounds obligation; subquery expressions and every other expression kind the evaluator does not implement (CASE, aggregates outside an aggregation, `*`) are ordinary errors; Stats::from_blob deserialises from the aligned copy (catalog lookups after ANALYZE do not panic).",
            "Outside: parser/binder/planner on arbitrary strings, worker loss/hang, post-error state; integer overflow and division by zero in DataType arithmetic and unary minus on MIN are recorded known findings.",
            "Kani built-in panic/overflow/index checks on complete harnesses", "4 C16"),
    'C17': ("Decided for all inputs and all operation sequences satisfying the log invariant (Verus, unbounded): append = sequence push (oversize rejected, state unchanged), block-zero-first placement never reorders, rotation conserves records, force makes disk_log == appended sequence, later forces never overwrite earlier blocks, truncate empties, the log's last LSN is global and push_to_log issues strictly increasing LSNs.",
            "Outside: WalReader (read-ahead cursor) and the byte layout of blocks/records (MemBlock raw-pointer code) are the trusted environment of this unit.",
            "Verus contracts with data-structure invariant + abstract view on verbatim-extracted functions", "4 C17, Appendix A.2"),
    'C18': ("Decided: NULL-bitmap addressing is an inverse pair, bitmap size/alignment/key offset arithmetic, header id encoding round-trips for ids < 2^63, Tuple::delete on real bytes (Kani, full domain); which version a snapshot is entitled to (Verus, unit snapshot: version.exact); on the specified byte format of the delta chain (delta header, change count, per-delta NULL bitmap, change list; only the per-value length is uninterpreted) TupleReader::parse_for_snapshot returns the newest version visible to the reader and Tuple::vaccum_with keeps exactly the leading deltas created at or above the horizon and cuts the rest byte-exactly, all slice/index expressions in bounds (Verus); Tuple::add_version_with: version number, header frame, no-op and failure cases (Verus; creator stamping is the recorded known finding).",
            "Outside: the value codec (DataType encoders/decoders), TupleBuilder::build, write_delta, and that vacuum never alters what a snapshot decodes (C13; see DESIGN section 5 on why that lemma is not registered).",
            "Verus contracts with loop invariants on the extracted chain walkers against a byte-format spec + complete Kani harnesses", "4 C18"),
    'C19': ("Decided (Kani, every value of every fixed-width type): == symmetric/reflexive, partial_cmp total, antisymmetric and consistent with ==, equal values feed equal hasher input, for all 21 kind pairs (non-NaN); integer equality/order agree with mathematical value for all pairs with a 32-bit side; casts are value-preserving or refused; VarInt/ZigZag codec round-trips; bounded: text/blob order is bytewise lexicographic (payload lengths 2/3, 9/9, 9/10, every content), the ORDER BY comparator is a consistent total preorder.",
            "Outside: Blob ordering beyond the stated lengths, ORDER BY/DISTINCT operators; comparisons between two 64-bit integers go through f64 (3 recorded known findings).",
            "complete Kani harnesses (loop-free, full-domain) on the real crate", "4 C19"),
    'C20': ("Decided (Kani, complete): status codes are a bijection; every command/status byte decodes to exactly its unit request/response or an error, a wrong version byte is always an error; Analyze, RowsAffected and VacuumComplete frames decode to exactly the little-endian fields of every payload and encode to exactly that layout for every field value (so they round-trip); every byte string of length 0..3 is answered with Ok/Err without panic; the frame reader rejects every announced length above 16 MiB before reading the body and accepts everything the writer accepts (Verus on read_message/write_message, all lengths). The Rows arm of Response::from_bytes and read_string_with_len (Verus, all payloads): every slice expression is in bounds (no panic), nothing is pre-allocated beyond what the payload can hold, payloads shorter than 8 bytes are errors, the column names are exactly the length-prefixed strings laid out after the count, every row has as many values as there are columns.",
            "Outside: string-carrying requests (Kani capacity, DESIGN M16), the encoder side of Rows and the values inside rows, sockets, server rendering.",
            "complete Kani harnesses on the real crate + Verus contracts on the extracted frame reader/writer and Rows decoder", "4 C20"),
}

NA = {
    'C06': "relational equivalence of two whole-pipeline executions under different optimizer choices (memo rewriting over enum trees + index maintenance over pager-backed trees); no single-call contract states 'same multiset of rows'",
    'C13': "the removal decision is an expression inside a closure inside Catalog::vacuum_btree's loop -- not an item, cannot carry a contract without refactoring; Tuple::vaccum_with is under contract (C18, unit versionchain: keeps exactly the deltas at or above the horizon), but the property-level lemma 'no snapshot at or above the horizon decodes differently afterwards' has an abstract counterexample that cannot be exhibited on the real code while the creator-stamping finding is open (DESIGN section 5), so it is not registered",
    'C14': "schedules, deadlock freedom, liveness: Kani has no threads; Verus would need a rewritten model of the parking_lot latches",
    'C15': "DDL executor and catalog are B-tree clients through the pager; Relation (de)serialisation is rkyv-derived; no function-level contract within reach decides transactional DDL",
}

NOT_YET = "no contract unit is registered for this property yet in this revision of /verif (work in progress; see DESIGN.md section 4 for the planned kernel)"


def main():
    props = [json.loads(l) for l in open(os.path.join(HERE, 'properties.jsonl'))]
    checks = []
    na = []
    for p in props:
        i = p['id']
        if i in CLAIMS:
            dec, out, tech, ref = CLAIMS[i]
            checks.append(dict(
                property_id=i,
                quick_cmd='./check %s quick' % i,
                thorough_cmd='./check %s thorough' % i,
                evidence_file='/verif/evidence/%s.json' % i,
                replay_cmd_template='./check --replay {path}',
                engine='contracts',
                level_claimed=dict(category='proof', text=dec + ' ' + out, design_ref='DESIGN.md section ' + ref),
                level_note=TRUST,
                technique=tech,
            ))
        else:
            na.append(dict(property_id=i, reason=NA.get(i, NOT_YET)))
    m = dict(
        version=1,
        setup_cmd='python3 tools/setup.py',
        hooks=dict(
            guard='kani',
            enable='none needed: both engines instrument a scratch COPY of /repo at check time (cfg(kani) attributes/modules injected there); /repo carries no hook commits',
            baseline_off_cmd='cd /repo && cargo nextest run --workspace --no-fail-fast --offline --test-threads 8',
            source_commits=[],
            add_only=True,
        ),
        engines=[
            dict(name='contracts', path='/verif/check', serves_properties=sorted(CLAIMS),
                 kind_free_text='contract-based deductive verification: Verus on functions extracted verbatim from /repo each run; '
                                'Kani function contracts / complete harnesses injected into a scratch copy of the real crate'),
        ],
        checks=checks,
        not_applicable=na,
        notes='See DESIGN.md. Exit 2 from a check means undecided (lost anchor, unsupported construct, solver limit), never an alarm.',
    )
    json.dump(m, open(os.path.join(HERE, 'MANIFEST.json'), 'w'), indent=1)
    try:
        import jsonschema
        jsonschema.validate(m, json.load(open('/root/.vp/MANIFEST.schema.json')))
        print('MANIFEST.json valid;', len(checks), 'checks,', len(na), 'not_applicable')
    except ImportError:
        print('MANIFEST.json written (jsonschema not available)')


if __name__ == '__main__':
    sys.exit(main())
