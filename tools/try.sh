#!/bin/bash
# usage: tools_try.sh <patch.diff> <prop> [tier]  -- apply a seeded change to /repo, run the check, undo it
set -u
cd /repo && git apply "$1" || { echo "patch does not apply"; exit 9; }
cd /verif && ./check "$2" "${3:-quick}"; rc=$?
git -C /repo checkout -- . 
echo "exit=$rc"
