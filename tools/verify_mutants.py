#!/usr/bin/env python3
"""Independently re-confirm every incoming seeded change in a scratch worktree of /repo:
   (1) patch and demo apply to the current HEAD, (2) demo passes without the patch,
   (3) demo fails with the patch, (4) the pinned suite passes with the patch alone.
   Writes seeded/_incoming/<P>/<m>/verified.json.  Usage: verify_mutants.py [P ...]"""
import json, os, re, subprocess, sys, shutil

INC = '/verif/seeded/_incoming'
WT = '/tmp/wt/verify'

def sh(cmd, cwd=WT, timeout=1800):
    p = subprocess.run(cmd, shell=True, cwd=cwd, capture_output=True, text=True, timeout=timeout)
    return p.returncode, (p.stdout + p.stderr)

def reset():
    sh('git checkout -q -- . && git clean -fdq -e target')

def main():
    props = sys.argv[1:] or sorted(os.listdir(INC))
    if not os.path.isdir(WT):
        subprocess.run('git -C /repo worktree add -q --detach %s HEAD && cp -r /repo/target %s/target' % (WT, WT), shell=True, check=True)
    else:
        sh('git checkout -q --detach $(git -C /repo rev-parse HEAD)')
    for P in props:
        for m in sorted(os.listdir(os.path.join(INC, P))):
            d = os.path.join(INC, P, m)
            out = os.path.join(d, 'verified.json')
            if os.path.exists(out):
                continue
            meta = json.load(open(os.path.join(d, 'meta.json')))
            res = dict(property=P, mutant=m, head=subprocess.run('git -C /repo rev-parse --short HEAD', shell=True, capture_output=True, text=True).stdout.strip())
            reset()
            rc, o = sh('git apply --check %s/patch.diff' % d)
            res['patch_applies'] = rc == 0
            rc2, o2 = sh('git apply --check %s/demo.diff' % d)
            res['demo_applies'] = rc2 == 0
            if rc or rc2:
                res['note'] = (o + o2)[-400:]
                json.dump(res, open(out, 'w'), indent=1)
                print(P, m, 'does not apply')
                continue
            cmd = meta['demo_cmd']
            cmd = re.sub(r'cd /tmp/wt/\w+\s*&&\s*', '', cmd)
            if '--no-fail-fast' not in cmd and 'nextest' in cmd:
                cmd += ' --no-fail-fast'
            sh('git apply %s/demo.diff' % d)
            rc, o = sh(cmd)
            res['demo_without_patch_passes'] = rc == 0
            res['demo_without_tail'] = o[-600:]
            sh('git apply %s/patch.diff' % d)
            rc, o = sh(cmd)
            res['demo_with_patch_fails'] = rc != 0 and ('FAIL' in o or 'failed' in o or 'panicked' in o)
            res['demo_with_tail'] = o[-600:]
            reset()
            sh('git apply %s/patch.diff' % d)
            rc, o = sh('cargo nextest run --workspace --no-fail-fast --offline --test-threads 8 2>&1 | tail -25')
            mm = re.search(r'(\d+) tests run: (\d+) passed', o)
            res['suite_with_patch'] = mm.group(0) if mm else o[-300:]
            ok = bool(mm) and mm.group(1) == mm.group(2)
            if not ok and mm:
                # known flaky tests (shared /tmp/axmos.log): retry once
                rc, o = sh('cargo nextest run --workspace --no-fail-fast --offline --test-threads 8 2>&1 | tail -25')
                mm = re.search(r'(\d+) tests run: (\d+) passed', o)
                res['suite_with_patch_retry'] = mm.group(0) if mm else o[-300:]
                ok = bool(mm) and mm.group(1) == mm.group(2)
            res['suite_passes_with_patch'] = ok
            res['confirmed'] = bool(res['demo_without_patch_passes'] and res['demo_with_patch_fails'] and ok)
            reset()
            json.dump(res, open(out, 'w'), indent=1)
            print(P, m, 'confirmed' if res['confirmed'] else 'NOT confirmed', res.get('suite_with_patch'))
            sys.stdout.flush()

if __name__ == '__main__':
    main()
