#!/bin/bash
# usage: mut.sh <unit> <file-rel> <python-regex> <replacement>   -- run one Verus unit against a mutated scratch copy of /repo
set -e
M=/tmp/vt/repo_mut
mkdir -p $M
rsync -a --delete --exclude /target --exclude /.git /repo/ $M/
python3 - "$M/$2" "$3" "$4" <<'PY'
import re,sys
p,rx,rep=sys.argv[1:4]
s=open(p).read()
s2,n=re.subn(rx,rep,s,count=1,flags=re.S)
assert n==1, "pattern not found"
open(p,'w').write(s2)
PY
cd /verif && AXV_REPO=$M python3 /tmp/vt/run1.py $1 2>&1 | grep -E "^(failed|undecided|None|not a|solver)" | cut -c1-200
