#!/usr/bin/env python3
"""setup_cmd: nothing to build (python3 stdlib only). Verifies the tools are present and warms the Kani build cache."""
import os, shutil, subprocess, sys
HERE = os.path.dirname(os.path.dirname(os.path.abspath(__file__)))
for t in ('verus', 'cargo', 'rsync'):
    if not shutil.which(t):
        print('missing tool', t); sys.exit(1)
os.makedirs(os.path.join(HERE, 'evidence'), exist_ok=True)
os.makedirs(os.path.join(HERE, 'replay'), exist_ok=True)
os.makedirs(os.path.join(HERE, 'gen'), exist_ok=True)
if '--warm' in sys.argv or os.environ.get('AXV_WARM', '1') == '1':
    sys.path.insert(0, HERE)
    from vf import kani_engine as K
    us = K.load_kunits()
    if us:
        K.resolve_harness_paths(us)
        r = K.KaniRun(us, None)
        r._lock()
        try:
            r.prepare()
            env = dict(os.environ); env['CARGO_NET_OFFLINE'] = 'true'
            p = subprocess.run(['cargo', 'kani', '-Z', 'function-contracts', '-Z', 'stubbing', '-Z', 'unstable-options',
                                '--target-dir', K.KTARGET, '--only-codegen'], cwd=os.path.join(K.KTREE, K.CRATE), env=env,
                               capture_output=True, text=True)
            print('kani warm build rc=%d' % p.returncode)
            if p.returncode != 0:
                print((p.stdout + p.stderr)[-2000:])
        finally:
            r._unlock()
print('setup ok')
