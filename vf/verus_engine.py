"""Engine V: generate a single Verus file from a contract template + functions extracted
verbatim from /repo's working tree, run verus, map diagnostics to named obligations."""
import hashlib
import json
import os
import re
import subprocess
import time

from . import extract as X

REPO = os.environ.get('AXV_REPO', '/repo')
VERIF = os.path.dirname(os.path.dirname(os.path.abspath(__file__)))
GEN = os.path.join(VERIF, 'gen')

LABEL_RX = re.compile(r'\[((?:C\d+(?:,C\d+)*):)([A-Za-z0-9_.\-]+)\]')

VERIF_ERR = (
    'postcondition not satisfied', 'precondition not satisfied', 'assertion failed',
    'possible arithmetic underflow/overflow', 'invariant not satisfied',
    'decreases not satisfied', 'possible division by zero', 'possible bit shift underflow/overflow',
    'could not show termination', 'loop invariant not satisfied', 'cannot show invariant holds',
    'cannot show bitvector assertion holds', 'failed to prove', 'unable to prove',
    'postcondition (', 'recommendation not met',
    'possible truncation', 'may be out of bounds', 'index out of bounds',
    'assertion failure', 'possible cast overflow',
)
UNDECIDED_ERR = ('rlimit', 'resource limit', 'timed out', 'timeout')


class Obligation:
    def __init__(self, unit, label, props, fn, kind, line0=None, line1=None, text=''):
        self.unit = unit
        self.label = label
        self.props = props
        self.fn = fn
        self.kind = kind  # post | pre-env | body | lemma
        self.line0 = line0
        self.line1 = line1
        self.text = text
        self.status = 'pending'
        self.detail = ''
        self.time_ms = None

    def key(self):
        return self.unit + '/' + self.label


class Unit:
    def __init__(self, path):
        self.path = path
        self.name = os.path.splitext(os.path.basename(path))[0]
        self.props = []
        self.obligations = []
        self.functions = []  # dict(name, file, line, sha, gen_line0, gen_line1)
        self.rewrites = {}
        self.gen_text = ''
        self.gen_path = os.path.join(GEN, self.name + '.rs')
        self.errors = []
        self.wall_s = 0.0
        self.cmd = ''
        self.fn_times = {}
        self.undecided = None  # reason string
        self.trusted = []

    # ---------------------------------------------------------------- template parsing
    def generate(self):
        src = open(self.path).read().split('\n')
        out = []  # generated lines
        rw = X.Rewriter()
        i = 0
        n = len(src)
        file_cache = {}

        def read_repo(rel):
            if rel not in file_cache:
                p = os.path.join(REPO, rel)
                if not os.path.exists(p):
                    raise X.AnchorError('file %s missing' % rel)
                file_cache[rel] = open(p).read()
            return file_cache[rel]

        def emit(line):
            out.append(line)

        def cur_line():
            return len(out) + 1

        def add_labelled(lines, fn, kind):
            """emit clause lines, registering labels; returns nothing."""
            cur = None
            for ln in lines:
                m = LABEL_RX.search(ln)
                if m:
                    props = m.group(1)[:-1].split(',') if m.group(1) else list(self.props[:1])
                    if cur is not None:
                        cur.line1 = cur_line() - 1
                    cur = Obligation(self.name, m.group(2), props, fn, kind, cur_line(), cur_line(),
                                     LABEL_RX.sub('', ln).strip())
                    self.obligations.append(cur)
                    ln = LABEL_RX.sub('', ln, count=1)
                elif cur is not None:
                    st = ln.strip()
                    if re.match(r'(requires|ensures|invariant|decreases|recommends)\b', st) or st == '':
                        cur.line1 = cur_line() - 1
                        cur = None
                    else:
                        cur.text += ' ' + st
                emit(ln)
            if cur is not None:
                cur.line1 = cur_line() - 1

        while i < n:
            line = src[i]
            s = line.strip()
            if s.startswith('//@unit'):
                m = re.search(r'props=([A-Z0-9,]+)', s)
                self.props = m.group(1).split(',')
                i += 1
                continue
            if s.startswith('//@rlimit'):
                self.rlimit = int(s.split()[1])
                i += 1
                continue
            if s.startswith('//@strip-pub'):
                self.strip_pub = True
                i += 1
                continue
            if s.startswith('//@trusted'):
                self.trusted.append(s[len('//@trusted'):].strip())
                i += 1
                continue
            if s.startswith('//@item'):
                # //@item <file> | <block> | <kind> <Name>
                parts = [p.strip() for p in s[len('//@item'):].split('|')]
                rel, block, kn = parts[0], parts[1], parts[2]
                kind, name = kn.split()
                subs = []
                i += 1
                while i < n and src[i].strip().startswith('//@') and not re.match(r'//@(item|fn|unit|lemma|end|trusted)\b', src[i].strip()):
                    t = src[i].strip()[3:].strip()
                    if t.startswith('sub ') or t.startswith('sub? '):
                        subs.append(self._parse_sub(t))
                    i += 1
                it = X.extract_item(read_repo(rel), block, kind, name)
                txt = rw.r1(it['text'])
                txt = rw.r3(txt, subs)
                l0 = cur_line()
                for ln in txt.strip('\n').split('\n'):
                    emit(ln)
                self.functions.append(dict(name=kind + ' ' + name, file=rel, line=it['line'],
                                           sha=hashlib.sha256(it['text'].encode()).hexdigest()[:16],
                                           gen_line0=l0, gen_line1=cur_line() - 1, kind='item'))
                continue
            if s.startswith('//@fn'):
                parts = [p.strip() for p in s[len('//@fn'):].split('|')]
                rel, block, name = parts[0], parts[1], parts[2]
                spec = []
                i += 1
                while i < n and src[i].strip().startswith('//@') and not src[i].strip().startswith('//@end'):
                    spec.append(src[i].strip()[3:])
                    i += 1
                if i < n and src[i].strip().startswith('//@end'):
                    i += 1
                self._emit_fn(read_repo(rel), rel, block, name, spec, rw, emit, cur_line, add_labelled)
                continue
            if s.startswith('//@lemma'):
                # //@lemma [C04:lemma_si]   -- the next proof fn is one obligation
                m = LABEL_RX.search(s)
                props = m.group(1)[:-1].split(',') if m.group(1) else list(self.props[:1])
                ob = Obligation(self.name, m.group(2), props, None, 'lemma', cur_line(), None, '')
                self.obligations.append(ob)
                ob._pending_lemma = True
                i += 1
                continue
            # free text; labels may occur in requires/ensures of environment fns
            m = LABEL_RX.search(line) if ('[' in line and not s.startswith('//')) else None
            if m and re.search(r'\[(C\d+(,C\d+)*:)[A-Za-z0-9_.\-]+\]', line):
                props = m.group(1)[:-1].split(',') if m.group(1) else list(self.props[:1])
                ob = Obligation(self.name, m.group(2), props, None, 'pre-env', cur_line(), cur_line(),
                                LABEL_RX.sub('', line).strip())
                self.obligations.append(ob)
                line = LABEL_RX.sub('', line, count=1)
            if getattr(self, 'strip_pub', False) and not s.startswith('//'):
                line = re.sub(r'\bpub\s+(open|closed)\s+', '', line)
                line = re.sub(r'\bpub\s+(?!\(|assume_specification)', '', line)
            emit(line)
            i += 1

        # unit-level vacuity guard: an inconsistent environment would prove `false`
        for k in range(len(out) - 1, -1, -1):
            if re.match(r'\}\s*//\s*verus!', out[k].strip()):
                guard = ['proof fn axv_sanity_must_fail()', '    ensures false', '{}']
                out[k:k] = guard
                ob = Obligation(self.name, 'unit.sanity', list(self.props), 'axv_sanity_must_fail', 'reach', k + 1, k + 3,
                                'environment is consistent: `ensures false` must be rejected')
                self.obligations.append(ob)
                break
        else:
            raise X.AnchorError('template has no `} // verus!` terminator')
        self.gen_text = '\n'.join(out) + '\n'
        # resolve lemma spans: from the directive line to the end of the following fn
        for ob in self.obligations:
            if getattr(ob, '_pending_lemma', False):
                off = sum(len(l) + 1 for l in out[:ob.line0 - 1])
                m = re.compile(r'\bfn\s+([A-Za-z0-9_]+)').search(self.gen_text, off)
                if not m:
                    raise X.AnchorError('lemma %s: no fn follows' % ob.label)
                ob.fn = m.group(1)
                brace = None
                pd = 0
                for k, c in X.code_positions(self.gen_text, m.end()):
                    if c in '([':
                        pd += 1
                    elif c in ')]':
                        pd -= 1
                    elif c == '{' and pd == 0:
                        brace = k
                        break
                end = X.match_brace(self.gen_text, brace)
                ob.line1 = X.line_of(self.gen_text, end)
                ob.text = 'proof fn ' + ob.fn
        self.rewrites = rw.counts
        os.makedirs(GEN, exist_ok=True)
        with open(self.gen_path, 'w') as f:
            f.write(self.gen_text)

    @staticmethod
    def _requires_text(clauses):
        txt = []
        on = False
        for ln in clauses:
            t = LABEL_RX.sub('', ln).strip()
            if re.match(r'requires\b', t):
                on = True
                t = t[len('requires'):].strip()
            elif re.match(r'(ensures|recommends|decreases|returns|no_unwind|opens_invariants)\b', t):
                on = False
            if on and t:
                txt.append(t)
        return ' '.join(txt)

    @staticmethod
    def _parse_sub(t):
        # sub /regex/ => replacement
        m = re.match(r'sub(\??)\s+/(.*)/\s*=>\s*(.*)$', t)
        if not m:
            raise X.AnchorError('bad sub directive: ' + t)
        return (m.group(2), m.group(3), m.group(1) == '?')

    def _emit_fn(self, src, rel, block, name, spec, rw, emit, cur_line, add_labelled):
        it = X.extract_item(src, block, 'fn', name)
        if it['body_open'] is None:
            raise X.AnchorError('fn %s has no body' % name)
        raw = it['text']
        # parse the spec directives
        clauses = []      # lines for requires/ensures
        loops = {}        # k -> lines
        proofs = []       # (regex, [lines])
        subs = []
        ret_name = 'r'
        use_lemmas = None
        mutself = False
        unmut = []
        mutparams = []
        rename = None
        sig_override = None
        arm = None
        arm_tail = None
        nodecreases = False
        loopfacts = False
        optional_loops = set()
        mode = 'clauses'
        cur = None
        for ln in spec:
            t = ln.strip()
            m = re.match(r'loop(\??)\s+(\d+)\s*$', t)
            if m:
                mode = 'loop'
                cur = loops.setdefault(int(m.group(2)), [])
                if m.group(1):
                    optional_loops.add(int(m.group(2)))   # `loop? k`: clauses for a loop that may be absent
                continue
            m = re.match(r'(?:proof|ghost)-(after|before)(\??)\s+/(.*)/(?:#(-?\d+))?\s*$', t)
            if m:
                mode = 'proof'
                cur = []
                if t.startswith('ghost-'):
                    cur.append('@@GHOST@@')      # raw `let ghost` lines: not wrapped in proof { }
                # `proof-after? /re/`: a hint for a statement that may be absent (then there is nothing to hint at)
                proofs.append((m.group(3), cur, m.group(1), int(m.group(4) or 0), bool(m.group(2))))
                continue
            if t.startswith('sub ') or t.startswith('sub? '):
                subs.append(self._parse_sub(t))
                continue
            m = re.match(r'ret\s+(\w+)\s*$', t)
            if m:
                ret_name = m.group(1)
                continue
            if t == 'mutself':
                mutself = True
                continue
            m = re.match(r'unmut\s+(\w+)\s*$', t)
            if m:
                unmut.append(m.group(1))
                continue
            m = re.match(r'mutparam\s+(\w+)\s*$', t)
            if m:
                mutparams.append(m.group(1))
                continue
            m = re.match(r'use-lemmas\s+(.*)$', t)
            if m:
                use_lemmas = m.group(1).strip()
                continue
            m = re.match(r'rename\s+(\w+)\s*$', t)
            if m:
                rename = m.group(1)
                continue
            if t == 'nodecreases':
                nodecreases = True
                continue
            if t == 'loopfacts':
                loopfacts = True
                continue
            m = re.match(r'arm\s+/(.*)/\s*=>\s*(fn\s+(\w+).*)$', t)
            if m:
                arm = (m.group(1), m.group(2).strip(), m.group(3))
                continue
            m = re.match(r'arm-tail\s+(.*)$', t)
            if m:
                arm_tail = m.group(1).strip()
                continue
            if t == 'clauses':
                mode = 'clauses'
                continue
            if mode == 'clauses':
                clauses.append(ln)
            else:
                cur.append(ln)

        if arm:
            # R11: one match arm of a large function checked as a function of its own.  The anchor
            # regex must end at the arm's opening `{`; the brace-matched block becomes the body,
            # verbatim; the declared signature names the variables of the enclosing function the
            # block reads.  Everything else of the enclosing function is dropped.
            ms = X._find_code_regex(raw, arm[0])
            if len(ms) != 1 or not ms[0].group(0).rstrip().endswith('{'):
                raise X.AnchorError('fn %s: arm anchor /%s/ matched %d times (must match once and end at `{`)' % (name, arm[0], len(ms)))
            b0 = ms[0].end() - 1
            while raw[b0] != '{':
                b0 -= 1
            b1 = X.match_brace(raw, b0)
            block = raw[b0:b1 + 1]
            if arm_tail:
                # a statement arm (type `()`) that leaves through `?`: the declared tail expression
                # (e.g. `Ok(())`) is what the enclosing function goes on to return
                block = block[:-1] + arm_tail + '\n}'
            raw = arm[1] + ' ' + block
            name = arm[2]
            rw.bump('R11')
        txt = rw.r1(raw)
        txt = rw.r2(txt)
        txt = rw.r5(txt)
        txt = rw.r9(txt)
        txt = rw.r3(txt, subs)
        # re-find body brace in rewritten text
        m = re.search(r'\bfn\s+%s\b' % re.escape(name), txt)
        pd = 0
        body_open = None
        for k, c in X.code_positions(txt, m.end()):
            if c in '([':
                pd += 1
            elif c in ')]':
                pd -= 1
            elif c == '{' and pd == 0:
                body_open = k
                break
        head, ret, where = X.fn_signature_split(txt, body_open)
        if mutself:
            # R8: sequential semantics of Arc<RwLock<_>>: a `&self` method that mutates shared state
            # through a lock is checked as `&mut self` (signature only; the body is unchanged)
            head, k = re.subn(r'\(\s*&\s*self\b', '(&mut self', head, count=1)
            if k != 1:
                raise X.AnchorError('fn %s: mutself but no &self receiver' % name)
            rw.bump('R8')
        for pname in mutparams:
            # R8 (parameter form): `p: &T` whose interior-mutable state (atomic flag, lock) the body
            # changes is checked as `p: &mut T` (signature only; sequential semantics)
            head, k = re.subn(r'\b%s\s*:\s*&\s*(?!mut\b)' % re.escape(pname), pname + ': &mut ', head, count=1)
            if k != 1:
                raise X.AnchorError('fn %s: mutparam %s: no such `&` parameter' % (name, pname))
            rw.bump('R8')
        if rename:
            head = re.sub(r'\bfn\s+%s\b' % re.escape(name), 'fn ' + rename, head, count=1)
        body = txt[body_open:]
        for pname in unmut:
            # R10: `mut p: T` by-value parameter -> immutable parameter `p0` + local `let mut p = p0;`
            # (identical semantics; lets the contract refer to the ENTRY value of p by name)
            head, k = re.subn(r'\bmut\s+%s\s*:' % re.escape(pname), pname + '0:', head, count=1)
            if k != 1:
                raise X.AnchorError('fn %s: unmut %s: no such `mut` parameter' % (name, pname))
            body = '{ let mut %s = %s0;' % (pname, pname) + body[1:]
            rw.bump('R10')
        if use_lemmas:
            # R7: ghost-only `broadcast use` at the top of the body (erased by Verus)
            body = '{ broadcast use ' + use_lemmas + ';' + body[1:]
            rw.bump('R7')
        # R7 loop clauses: insert before k-th loop's '{' (indices relative to body)
        loop_braces = X.find_loops(body, 0)
        inserts = []  # (pos_in_body, text)
        for k, lines in loops.items():
            if k > len(loop_braces) and k in optional_loops:
                continue
            if k < 1 or k > len(loop_braces):
                raise X.AnchorError('fn %s: loop %d not found (has %d)' % (name, k, len(loop_braces)))
            inserts.append((loop_braces[k - 1], ('loop', k, lines)))
            rw.bump('R7')
        for rx, lines, where_, nth, optional_ in proofs:
            ms = X._find_code_regex(body, rx)
            if optional_ and not ms:
                continue
            if nth < 0:
                if not ms:
                    raise X.AnchorError('fn %s: proof anchor /%s/ not found' % (name, rx))
                ms = [ms[nth]] if len(ms) >= -nth else []
            elif nth:
                if len(ms) < nth:
                    raise X.AnchorError('fn %s: proof anchor /%s/#%d: only %d matches' % (name, rx, nth, len(ms)))
                ms = [ms[nth - 1]]
            if len(ms) != 1:
                raise X.AnchorError('fn %s: proof anchor /%s/ matched %d times' % (name, rx, len(ms)))
            if ms[0].re.groups >= 1 and ms[0].group(1) is not None:
                # the anchor names the exact spot with a capture group
                inserts.append(((ms[0].start(1) if where_ == 'before' else ms[0].end(1)), ('proof', None, lines)))
                rw.bump('R7')
                continue
            if where_ == 'before':
                inserts.append((ms[0].start(), ('proof', None, lines)))
                rw.bump('R7')
                continue
            # insert after the end of the statement: next ';' at depth 0 from match end
            pos = None
            pd = 0
            for k2, c in X.code_positions(body, ms[0].end()):
                if c in '([{':
                    pd += 1
                elif c in ')]}':
                    pd -= 1
                elif c == ';' and pd == 0:
                    pos = k2 + 1
                    break
            if ms[0].group(0).rstrip().endswith(';') or ms[0].group(0).rstrip().endswith('{'):
                pos = ms[0].end()
            if pos is None:
                raise X.AnchorError('fn %s: proof anchor /%s/: no statement end' % (name, rx))
            inserts.append((pos, ('proof', None, lines)))
            rw.bump('R7')
        inserts.sort(key=lambda x: x[0])

        fn_l0 = cur_line()
        if nodecreases:
            # R12: termination of this function (its loops / its recursion) is NOT checked; partial
            # correctness only.  Stated per unit under //@trusted.
            emit('#[verifier::exec_allows_no_decreases_clause]')
            rw.bump('R12')
        if loopfacts:
            # proof-search only: facts established before a loop stay visible inside and after it
            # (Verus checks loops in isolation by default); needed where a fact relates the final
            # value of a `&mut` borrow that is still alive in the loop and cannot be restated there
            emit('#[verifier::loop_isolation(false)]')
        # signature (R4)
        sig = head
        if ret:
            sig += ' -> (%s: %s)' % (ret_name, ret)
            rw.bump('R4')
        for ln in sig.split('\n'):
            emit(ln)
        if where:
            emit('    ' + where)
        add_labelled(clauses, name, 'post')
        # body with inserts
        pos = 0
        buf = ''
        body_ob = Obligation(self.name, (rename or name) + '.body', None, name, 'body')
        for p, (kind, k, lines) in inserts:
            buf += body[pos:p]
            pos = p
            # flush buf lines
            parts = buf.split('\n')
            for ln in parts[:-1]:
                emit(ln)
            buf = parts[-1]
            if kind == 'loop':
                emit(buf)
                buf = ''
                add_labelled(lines, name, 'inv')
            else:
                emit(buf)
                buf = ''
                if lines and lines[0] == '@@GHOST@@':
                    for ln in lines[1:]:
                        # only ghost state may be touched: a `let ghost` binding or an assignment of a
                        # Ghost(..) value to a field (erased at compile time; no effect on executable state)
                        if not re.match(r'\s*(let ghost\b|self\.\w+ = Ghost\(.*\);\s*$)', ln):
                            raise X.AnchorError('ghost-before/after blocks may only contain `let ghost` lines or `self.f = Ghost(..);`')
                        emit(ln)
                else:
                    emit('proof {')
                    for ln in lines:
                        emit(ln)
                    emit('}')
        buf += body[pos:]
        for ln in buf.split('\n'):
            emit(ln)
        fn_l1 = cur_line() - 1
        # props of the body obligation: union of the fn's labelled obligations, else unit props
        ps = []
        for ob in self.obligations:
            if ob.fn == name and ob.props:
                for p in ob.props:
                    if p not in ps:
                        ps.append(p)
        body_ob.props = ps or list(self.props)
        body_ob.line0, body_ob.line1 = fn_l0, fn_l1
        body_ob.text = 'body of %s: callee preconditions, arithmetic, bounds, loop invariants, termination' % name
        self.obligations.append(body_ob)
        self.functions.append(dict(name=name, file=rel, line=it['line'],
                                   sha=hashlib.sha256(raw.encode()).hexdigest()[:16],
                                   gen_line0=fn_l0, gen_line1=fn_l1, kind='fn'))
        # vacuity guard: the precondition must be satisfiable -- a proof fn with the same
        # requires and `ensures false` has to be REJECTED by the verifier.
        req = self._requires_text(clauses)
        if req:
            g_head = re.sub(r'\bfn\s+%s\b' % re.escape(rename or name), 'proof fn axv_reach_' + (rename or name), head, count=1)
            g_head = re.sub(r'\bfn\s+%s\b' % re.escape(name), 'proof fn axv_reach_' + (rename or name), g_head, count=1)
            g_head = re.sub(r'&\s*(\'\w+\s+)?mut\s+', '', g_head)
            g_head = re.sub(r'&\s*(\'\w+\s+)?self\b', 'self', g_head)
            g_head = re.sub(r'\bmut\s+', '', g_head)
            req2 = re.sub(r'\(\s*\*\s*old\(\s*(\w+)\s*\)\s*\)', r'\1', req)   # `(*old(p))`: p is by value in the guard
            req2 = re.sub(r'\*\s*old\(\s*(\w+)\s*\)', r'\1', req2)
            req2 = re.sub(r'\bold\(\s*(\w+)\s*\)', r'\1', req2)
            g0 = cur_line()
            for ln in g_head.split('\n'):
                emit(ln)
            if where:
                emit('    ' + where)
            emit('    requires ' + req2)
            emit('    ensures false')
            emit('{}')
            g = Obligation(self.name, (rename or name) + '.reach', list(body_ob.props), 'axv_reach_' + (rename or name), 'reach', g0, cur_line() - 1,
                           'precondition of %s is satisfiable (this guard must be rejected)' % name)
            self.obligations.append(g)

    # ---------------------------------------------------------------- running
    def run(self, rlimit=None, timeout=600):
        cmd = ['verus', '--edition=2024', self.gen_path, '--output-json', '--time',
               '--multiple-errors', '8', '--error-format=json', '--crate-type=lib', '--num-threads', '8']
        first_pass = rlimit is None
        if rlimit is None and getattr(self, 'rlimit', None):
            rlimit = self.rlimit
        if rlimit:
            cmd += ['--rlimit', str(rlimit)]
        self.cmd = ' '.join(cmd)
        t0 = time.time()
        try:
            p = subprocess.run(cmd, capture_output=True, text=True, timeout=timeout, cwd=GEN)
        except subprocess.TimeoutExpired:
            self.undecided = 'verus timed out after %ds' % timeout
            self.wall_s = time.time() - t0
            return
        self.wall_s = time.time() - t0
        self.stdout, self.stderr = p.stdout, p.stderr
        try:
            js = json.loads(p.stdout)
        except Exception:
            js = {}
        self.results = js.get('verification-results', {})
        try:
            for mt in js['times-ms']['smt']['smt-run-module-times']:
                for fb in mt.get('function-breakdown', []):
                    self.fn_times[fb['function'].split('::')[-1]] = (fb['time'], fb['success'])
        except Exception:
            pass
        self.smt_ms = js.get('times-ms', {}).get('smt', {}).get('total')
        diags = []
        for ln in p.stderr.split('\n'):
            ln = ln.strip()
            if ln.startswith('{'):
                try:
                    d = json.loads(ln)
                except Exception:
                    continue
                if d.get('level') == 'error' and d.get('spans'):
                    diags.append(d)
                elif d.get('level') == 'error' and 'aborting' not in d.get('message', ''):
                    diags.append(d)
        self.diags = diags
        if first_pass and any(any(u in d.get('message', '').lower() for u in UNDECIDED_ERR) for d in diags):
            # a solver resource limit is not a verdict: try once more with a much larger budget
            for ob in self.obligations:
                ob.status = 'pending'
            self.fn_times = {}
            first_wall = self.wall_s
            self.run(rlimit=300, timeout=timeout)
            self.wall_s += first_wall
            return
        self._classify(p.returncode)

    def _own_spans(self, d):
        """Spans of a diagnostic that lie in the generated file (a span inside vstd or a macro
        definition must never be matched against line ranges of the generated file); if a span is a
        macro expansion, the call-site span in the generated file is used."""
        me = os.path.basename(self.gen_path)
        out = []
        for sp in d.get('spans', []):
            cur = sp
            depth = 0
            while cur is not None and depth < 8:
                if os.path.basename(cur.get('file_name', '')) == me:
                    c = dict(cur)
                    c['is_primary'] = sp.get('is_primary')
                    c['label'] = sp.get('label')
                    out.append(c)
                    break
                cur = (cur.get('expansion') or {}).get('span')
                depth += 1
        return out

    def _classify(self, rc):
        obs = [o for o in self.obligations if o.kind != 'reach']
        guards = [o for o in self.obligations if o.kind == 'reach']
        # diagnostics inside a guard are the expected rejections
        rest = []
        for d in self.diags:
            g = None
            for sp in self._own_spans(d):
                for o in guards:
                    if o.line0 <= sp.get('line_start', -1) <= o.line1:
                        g = o
            if g is not None and 'postcondition not satisfied' in d.get('message', ''):
                g.status = 'discharged'
            else:
                rest.append(d)
        self.diags = rest
        if not self.results and not self.diags and not any(g.status == 'discharged' for g in guards):
            self.undecided = 'verus produced no result (rc=%s): %s' % (rc, (self.stderr or '')[-400:])
            return
        if self.results and not self.results.get('encountered-vir-error'):
            for g in guards:
                if g.status != 'discharged':
                    g.status = 'undecided'
                    g.detail = 'vacuity guard was NOT rejected: contradictory precondition or inconsistent environment'
                    self.undecided = '%s: %s' % (g.label, g.detail)
        if not self.diags and self.results and not self.results.get('encountered-vir-error') and not self.undecided:
            for ob in obs:
                ob.status = 'discharged'
            self._attach_times()
            return
        failed_fns = set()
        for d in self.diags:
            msg = d.get('message', '')
            low = msg.lower()
            if any(u in low for u in UNDECIDED_ERR):
                self.undecided = 'solver limit: ' + msg
                continue
            if not any(v in low for v in VERIF_ERR):
                # compile/type/unsupported error in the generated file
                sp = (self._own_spans(d) or d.get('spans') or [{}])[0]
                self.undecided = 'not a verification verdict: %s (gen line %s)' % (msg, sp.get('line_start'))
                continue
            hit = False
            # 1. labelled clause spans
            for sp in self._own_spans(d):
                ln = sp.get('line_start')
                for ob in obs:
                    if ob.kind in ('post', 'pre-env', 'inv') and ob.line0 <= ln <= ob.line1:
                        ob.status = 'failed'
                        ob.detail = msg + ' :: ' + (sp.get('label') or '')
                        ob.rendered = d.get('rendered', '')
                        hit = True
            # 2. containing function / lemma
            prim = [sp for sp in self._own_spans(d) if sp.get('is_primary')] or self._own_spans(d)
            for sp in prim:
                ln = sp.get('line_start')
                for ob in obs:
                    if ob.kind in ('body', 'lemma') and ob.line0 is not None and ob.line0 <= ln <= ob.line1:
                        failed_fns.add(ob.fn)
                        if not hit or ob.kind == 'lemma':
                            ob.status = 'failed'
                            ob.detail = msg
                            ob.rendered = d.get('rendered', '')
                            hit = True
            for sp in self._own_spans(d):
                ln = sp.get('line_start')
                for ob in obs:
                    if ob.kind == 'body' and ob.line0 <= ln <= ob.line1:
                        failed_fns.add(ob.fn)
            if not hit:
                sp = (self._own_spans(d) or d.get('spans') or [{}])[0]
                self.undecided = 'verification error outside any registered obligation: %s (gen line %s)' % (
                    msg, sp.get('line_start'))
        if self.undecided:
            return
        for ob in obs:
            if ob.status == 'pending':
                ob.status = 'discharged'
        self._attach_times()

    def _attach_times(self):
        for ob in self.obligations:
            t = self.fn_times.get(ob.fn)
            if t:
                ob.time_ms = t[0]


def load_units(props=None):
    d = os.path.join(VERIF, 'contracts', 'verus')
    units = []
    for f in sorted(os.listdir(d)):
        if not f.endswith('.rs'):
            continue
        u = Unit(os.path.join(d, f))
        head = open(u.path).read(400)
        m = re.search(r'//@unit.*props=([A-Z0-9,]+)', head)
        if not m:
            continue
        ups = m.group(1).split(',')
        if props is None or any(p in ups for p in props):
            units.append(u)
    return units
