"""Engine K: copy /repo's working tree to a scratch tree, inject contract attributes on the
real functions and harness modules under cfg(kani), run `cargo kani`, parse per-harness verdicts.

Unit file format (/verif/contracts/kani/<unit>.rs):

  //@kunit props=C19,C16 append=crates/axmos-db/src/types/mod.rs
  //@contract crates/axmos-db/src/storage/page.rs | impl PageZeroHeader | mark_transaction_aborted
  //@   #[cfg_attr(kani, kani::requires(...))]
  //@end
  //@trusted <text>
  ...module text...  (appended verbatim to the `append` file; must be `#[cfg(kani)] mod NAME { ... }`)

inside the module text each harness is preceded by
  //@ob [C19:eq.reflexive] level=proved|bounded tier=quick|thorough bound="..." expect=pass
"""
import fcntl
import hashlib
import json
import os
import re
import shutil
import subprocess
import time

from . import extract as X

REPO = os.environ.get('AXV_REPO', '/repo')
VERIF = os.path.dirname(os.path.dirname(os.path.abspath(__file__)))
SCRATCH = os.environ.get('AXV_SCRATCH', os.path.join(VERIF, '.scratch'))
KTREE = os.path.join(SCRATCH, 'ktree')
KTARGET = os.path.join(SCRATCH, 'ktarget')
CRATE = 'crates/axmos-db'

OB_RX = re.compile(r'//@ob\s+\[((?:C\d+(?:,C\d+)*):)?([A-Za-z0-9_.\-]+)\](.*)$')


class KObligation:
    def __init__(self, unit, label, props, harness, level, tier, bound, text):
        self.unit = unit
        self.label = label
        self.props = props
        self.harness = harness
        self.fn = harness
        self.level = level      # proved | bounded
        self.tier = tier        # quick | thorough
        self.bound = bound
        self.text = text
        self.kind = 'kani'
        self.status = 'pending'
        self.detail = ''
        self.time_ms = None
        self.checks = None
        self.failed_checks = []

    def key(self):
        return self.unit + '/' + self.label


class KUnit:
    def __init__(self, path):
        self.path = path
        self.name = os.path.splitext(os.path.basename(path))[0]
        txt = open(path).read()
        self.text = txt
        m = re.search(r'//@kunit\s+props=([A-Z0-9,]+)\s+append=(\S+)', txt)
        self.props = m.group(1).split(',')
        self.append = m.group(2)
        self.trusted = re.findall(r'//@trusted\s+(.*)', txt)
        self.contracts = []   # (file, block, fn, [attr lines])
        self.obligations = []
        self.module_text = ''
        self._parse()

    def _parse(self):
        lines = self.text.split('\n')
        out = []
        i = 0
        pending = None
        while i < len(lines):
            s = lines[i].strip()
            if s.startswith('//@kunit') or s.startswith('//@trusted'):
                i += 1
                continue
            if s.startswith('//@contract'):
                parts = [p.strip() for p in s[len('//@contract'):].split('|')]
                attrs = []
                i += 1
                while i < len(lines) and not lines[i].strip().startswith('//@end'):
                    attrs.append(lines[i].strip()[3:].strip())
                    i += 1
                i += 1
                self.contracts.append((parts[0], parts[1], parts[2], attrs))
                continue
            m = OB_RX.match(s)
            if m:
                props = m.group(1)[:-1].split(',') if m.group(1) else list(self.props[:1])
                rest = m.group(3)
                level = (re.search(r'level=(\w+)', rest) or [None, 'bounded'])[1]
                tier = (re.search(r'tier=(\w+)', rest) or [None, 'quick'])[1]
                b = re.search(r'bound="([^"]*)"', rest)
                t = re.search(r'text="([^"]*)"', rest)
                hn = re.search(r'harness=(\w+)', rest)
                pending = (m.group(2), props, level, tier, b.group(1) if b else '', t.group(1) if t else '')
                out.append(lines[i])
                i += 1
                if hn:
                    self.obligations.append(KObligation(self.name, pending[0], pending[1], hn.group(1),
                                                        pending[2], pending[3], pending[4], pending[5]))
                    pending = None
                continue
            if pending:
                mf = re.match(r'\s*(pub\s+)?fn\s+([A-Za-z0-9_]+)\s*\(', lines[i])
                if mf:
                    self.obligations.append(KObligation(self.name, pending[0], pending[1], mf.group(2),
                                                        pending[2], pending[3], pending[4], pending[5]))
                    pending = None
            out.append(lines[i])
            i += 1
        self.module_text = '\n'.join(out)


def load_kunits(props=None):
    d = os.path.join(VERIF, 'contracts', 'kani')
    res = []
    if not os.path.isdir(d):
        return res
    for f in sorted(os.listdir(d)):
        if f.endswith('.rs'):
            u = KUnit(os.path.join(d, f))
            if props is None or any(p in u.props for p in props):
                res.append(u)
    return res


class KaniRun:
    """One instrumented scratch tree + one cargo kani invocation over a set of harnesses."""

    def __init__(self, units, log):
        self.units = units
        self.log = log
        self.cmds = []
        self.undecided = None
        self.build_s = 0.0
        self.injected = []

    def _lock(self):
        os.makedirs(SCRATCH, exist_ok=True)
        self._lockf = open(os.path.join(SCRATCH, 'lock'), 'w')
        fcntl.flock(self._lockf, fcntl.LOCK_EX)

    def _unlock(self):
        fcntl.flock(self._lockf, fcntl.LOCK_UN)
        self._lockf.close()

    def prepare(self):
        os.makedirs(KTREE, exist_ok=True)
        subprocess.run(['rsync', '-a', '--delete', '--exclude', '/target', '--exclude', '/.git',
                        '--exclude', '*.axm', REPO + '/', KTREE + '/'], check=True)
        # offline config
        os.makedirs(os.path.join(KTREE, '.cargo'), exist_ok=True)
        with open(os.path.join(KTREE, '.cargo', 'config.toml'), 'w') as f:
            f.write('[net]\noffline = true\n')
        by_file = {}
        for u in self.units:
            for (rel, block, fn, attrs) in u.contracts:
                p = os.path.join(KTREE, rel)
                src = open(p).read()
                it = X.extract_item(src, block, 'fn', fn)
                # insert attrs before the item start (after doc comments/attributes is fine: before `fn` line start)
                ins = ''.join('    ' + a + '\n' for a in attrs)
                # item start is at beginning of a line (attributes included) -> insert at line start of start
                ls = src.rfind('\n', 0, it['start']) + 1
                src = src[:ls] + ins + src[ls:]
                open(p, 'w').write(src)
                self.injected.append('%s::%s (%d attrs)' % (rel, fn, len(attrs)))
            p = os.path.join(KTREE, u.append)
            if not os.path.exists(p):
                raise X.AnchorError('append target %s missing' % u.append)
            with open(p, 'a') as f:
                f.write('\n\n' + u.module_text + '\n')

    def run(self, obligations, timeout_s, jobs=8, extra=None):
        """Run cargo kani for the given obligations (list of KObligation)."""
        if not obligations:
            return
        self._lock()
        try:
            t0 = time.time()
            try:
                self.prepare()
            except X.AnchorError as e:
                self.undecided = 'kani injection: %s' % e
                return
            outdir = os.path.join(SCRATCH, 'kout')
            shutil.rmtree(outdir, ignore_errors=True)
            os.makedirs(outdir, exist_ok=True)
            cmd = ['cargo', 'kani', '-Z', 'function-contracts', '-Z', 'stubbing', '-Z', 'unstable-options',
                   '--target-dir', KTARGET, '--output-format', 'terse', '-j', str(jobs),
                   '--harness-timeout', '%ds' % timeout_s, '--exact', '--no-overflow-checks']
            for ob in obligations:
                cmd += ['--harness', ob.harness_path]
            if extra:
                cmd += extra
            env = dict(os.environ)
            env['CARGO_NET_OFFLINE'] = 'true'
            self.cmds.append(' '.join(cmd))
            logp = os.path.join(outdir, 'kani.log')
            with open(logp, 'w') as lf:
                try:
                    p = subprocess.run(cmd, cwd=os.path.join(KTREE, CRATE), env=env, stdout=lf,
                                       stderr=subprocess.STDOUT, timeout=timeout_s * (1 + len(obligations) // max(1, jobs)) + 900)
                    rc = p.returncode
                except subprocess.TimeoutExpired:
                    rc = -9
            self.wall_s = time.time() - t0
            out = open(logp, errors='replace').read()
            self.raw = out
            self._parse(out, obligations, rc)
        finally:
            self._unlock()

    def _parse(self, out, obligations, rc):
        # split by "Checking harness <name>..."
        if 'error: could not compile' in out or re.search(r'^error(\[E\d+\])?:', out, re.M) and 'Checking harness' not in out:
            m = re.search(r'^error.*$', out, re.M)
            self.undecided = 'instrumented crate does not compile under kani: %s' % (m.group(0) if m else '')
            self.compile_error = out[-3000:]
            return
        seen = {}
        thread_h = {}
        cur = None
        for ln in out.split('\n'):
            m = re.match(r'^(?:Thread (\d+): )?Checking harness ([\w:]+)\.\.\.', ln)
            if m:
                tid = m.group(1) or '-'
                thread_h[tid] = m.group(2)
                seen.setdefault(m.group(2), '')
                cur = m.group(2) if tid == '-' else None
                continue
            m = re.match(r'^Thread (\d+):\s*$', ln)
            if m:
                cur = thread_h.get(m.group(1))
                continue
            if re.match(r'^(Manual Harness Summary|Complete - |Verification failed for)', ln):
                cur = None
                continue
            if cur is not None:
                seen[cur] = seen.get(cur, '') + ln + '\n'
        for ob in obligations:
            ch = None
            for name, c in seen.items():
                if name == ob.harness_path or name.endswith('::' + ob.harness):
                    ch = c
                    break
            if ch is None:
                ob.status = 'undecided'
                ob.detail = 'no output for harness (rc=%s)' % rc
                continue
            mt = re.search(r'Verification Time: ([0-9.]+)s', ch)
            if mt:
                ob.time_ms = int(float(mt.group(1)) * 1000)
            ms = re.search(r'\*\* (\d+) of (\d+) failed', ch)
            if ms:
                ob.checks = int(ms.group(2))
            if re.search(r'VERIFICATION:- SUCCESSFUL', ch):
                # unreachable covers count as vacuity -> undecided
                if re.search(r'Status: UNSATISFIABLE', ch) or re.search(r'cover.*UNREACHABLE', ch):
                    ob.status = 'undecided'
                    ob.detail = 'a cover! is unsatisfiable/unreachable (vacuous precondition)'
                else:
                    ob.status = 'discharged'
                continue
            if re.search(r'VERIFICATION:- FAILED', ch):
                fails = re.findall(r'Failed Checks: (.*)', ch)
                ob.failed_checks = fails
                unwind = [f for f in fails if 'unwinding assertion' in f]
                other = [f for f in fails if 'unwinding assertion' not in f]
                if 'CBMC timed out' in ch or 'timed out' in ch.lower() and not other:
                    ob.status = 'undecided'
                    ob.detail = 'timeout'
                elif 'out of memory' in ch.lower() or 'CBMC failed' in ch and not fails:
                    ob.status = 'undecided'
                    ob.detail = 'cbmc failed/oom'
                elif unwind and not other:
                    ob.status = 'undecided'
                    ob.detail = 'unwinding assertion failed (bound too small): ' + '; '.join(unwind[:2])
                elif not fails:
                    ob.status = 'undecided'
                    ob.detail = 'failed without failed-check list: ' + ch[-300:]
                else:
                    ob.status = 'failed'
                    ob.detail = '; '.join(other[:4])
                continue
            if 'timed out' in ch.lower() or 'TIMEOUT' in ch:
                ob.status = 'undecided'
                ob.detail = 'timeout'
                continue
            ob.status = 'undecided'
            ob.detail = 'no verdict: ' + ch[-200:].replace('\n', ' ')

    def playback(self, ob, timeout_s=600):
        """Ask Kani for a concrete counterexample of a failed harness and replay it natively.
        Returns dict(values=..., replay_rc=..., replay_tail=...) or None."""
        self._lock()
        try:
            cmd = ['cargo', 'kani', '-Z', 'function-contracts', '-Z', 'stubbing', '-Z', 'unstable-options',
                   '-Z', 'concrete-playback', '--concrete-playback=print', '--target-dir', KTARGET,
                   '--harness-timeout', '%ds' % timeout_s, '--exact', '--harness', ob.harness_path]
            env = dict(os.environ)
            env['CARGO_NET_OFFLINE'] = 'true'
            try:
                p = subprocess.run(cmd, cwd=os.path.join(KTREE, CRATE), env=env, capture_output=True, text=True,
                                   timeout=timeout_s + 600)
            except subprocess.TimeoutExpired:
                return None
            out = p.stdout + p.stderr
            m = re.search(r'```\s*\n(.*?#\[test\].*?)```', out, re.S)
            if not m:
                m = re.search(r'(/// Test generated for harness.*?\n}\n)', out, re.S)
            if not m:
                return dict(values=None, raw=out[-2000:])
            test_src = m.group(1)
            mn = re.search(r'fn (kani_concrete_playback_\w+)', test_src)
            tname = mn.group(1) if mn else None
            res = dict(test=test_src, test_name=tname)
            # put the test inside the harness module of the scratch tree and replay natively
            unit = [u for u in self.units if u.name == ob.unit][0]
            p_append = os.path.join(KTREE, unit.append)
            src = open(p_append).read()
            mm = re.search(r'#\[cfg\(kani\)\]\s*mod\s+(\w+)\s*\{', unit.module_text)
            modname = mm.group(1)
            # insert before the final closing brace of the module (module text is at file end)
            idx = src.rstrip().rfind('}')
            src2 = src[:idx] + '\n' + test_src + '\n}\n'
            open(p_append, 'w').write(src2)
            cmd2 = ['cargo', 'kani', 'playback', '-Z', 'concrete-playback', '--', tname]
            try:
                p2 = subprocess.run(cmd2, cwd=os.path.join(KTREE, CRATE), env=env, capture_output=True, text=True,
                                    timeout=900)
                o2 = p2.stdout + p2.stderr
                res['replay_rc'] = p2.returncode
                res['reproduced'] = bool(re.search(r'test result: FAILED|panicked at', o2)) and tname in o2
                res['replay_tail'] = o2[-3000:]
            except subprocess.TimeoutExpired:
                res['replay_rc'] = None
                res['replay_tail'] = 'native replay timed out'
            open(p_append, 'w').write(src)
            return res
        finally:
            self._unlock()


def resolve_harness_paths(units):
    """Fill ob.harness_path = axmosdb::<module path of append file>::<mod>::<fn>."""
    for u in units:
        rel = u.append
        assert rel.startswith(CRATE + '/src/')
        sub = rel[len(CRATE + '/src/'):]
        if sub.endswith('/mod.rs'):
            modpath = sub[:-len('/mod.rs')].split('/')
        elif sub == 'lib.rs':
            modpath = []
        else:
            modpath = sub[:-3].split('/')
        mm = re.search(r'#\[cfg\(kani\)\]\s*(?:pub\s+)?mod\s+(\w+)\s*\{', u.module_text)
        if not mm:
            raise X.AnchorError('kani unit %s: no #[cfg(kani)] mod' % u.name)
        for ob in u.obligations:
            ob.harness_path = '::'.join(modpath + [mm.group(1), ob.harness])
