"""Evidence writer (EVIDENCE.schema.json, level "proof")."""
import json
import os
import re
import subprocess


def _scan_assumptions(vunits, kunits):
    """Mechanical scan of the generated / injected artefacts for trust escapes."""
    found = []
    pats = [r'\bassume\s*\(', r'\badmit\s*\(', r'external_body', r'assume_specification', r'external_type_specification',
            r'kani::assume', r'kani::stub\b', r'#\[verifier::external', r'\baxiom\b']
    for u in vunits:
        txt = u.gen_text or ''
        for p in pats:
            n = len(re.findall(p, txt))
            if n:
                found.append('verus unit %s: %d x %s' % (u.name, n, p.replace('\\b', '').replace('\\s*\\(', '(').replace('\\', '')))
    for u in kunits:
        for p in pats:
            n = len(re.findall(p, u.module_text))
            if n:
                found.append('kani unit %s: %d x %s' % (u.name, n, p.replace('\\b', '').replace('\\s*\\(', '(').replace('\\', '')))
    return found


def write(here, prop, tier, seed, vunits, kunits, krun, proved_obs, bounded_obs, known_seen, violations,
          undecided, notes, wall, guards=(), sens=None):
    known_keys = {ob.key() for ob, _ in known_seen}
    counted = [o for o in proved_obs if o.key() not in known_keys]
    discharged = [o for o in counted if o.status == 'discharged']
    funcs = []
    rewrites = {}
    trusted = []
    cmds = []
    solver = {}
    by_backend = {}
    for u in vunits:
        for f in u.functions:
            funcs.append('%s:%d %s (sha256/16 %s) [verus, extracted verbatim]' % (f['file'], f['line'], f['name'], f['sha']))
        for k, v in u.rewrites.items():
            rewrites[k] = rewrites.get(k, 0) + v
        trusted += ['[verus/%s] %s' % (u.name, t) for t in u.trusted]
        if u.cmd:
            cmds.append(u.cmd)
        solver['verus/' + u.name] = dict(wall_s=round(u.wall_s, 2), smt_ms=getattr(u, 'smt_ms', None))
    for u in kunits:
        trusted += ['[kani/%s] %s' % (u.name, t) for t in u.trusted]
        for (rel, block, fn, attrs) in u.contracts:
            funcs.append('%s %s::%s [kani function contract injected in place, %d attribute(s)]' % (rel, block, fn, len(attrs)))
    if krun is not None:
        cmds += krun.cmds
        solver['kani'] = dict(wall_s=round(getattr(krun, 'wall_s', 0.0), 2))
    for o in proved_obs + bounded_obs:
        be = 'kani/cbmc+cadical' if o.kind == 'kani' else 'verus/z3'
        d = by_backend.setdefault(be, dict(obligations=0, discharged=0))
        d['obligations'] += 1
        if o.status == 'discharged':
            d['discharged'] += 1

    def row(o):
        return dict(obligation=o.key(), engine='kani' if o.kind == 'kani' else 'verus', function=o.fn, kind=o.kind,
                    clause=(o.text or '')[:300], status=o.status if o.key() not in known_keys else 'failed (known finding)',
                    time_ms=o.time_ms, **({'level': o.level, 'bound': o.bound} if o.kind == 'kani' else {}))

    samples = [row(o) for o in (proved_obs[:3] + [o for o in proved_obs if o.status != 'discharged'][:3] + bounded_obs[:2])]
    trusted_base = [
        'Verus 0.2026.09.13 + Z3 (as bundled); Kani 0.68.0 + CBMC 6.11 + CaDiCaL',
        'rustc front ends of the verifier toolchains vs the repository nightly (same source text)',
        'extractor rewrite rules R1-R7 (DESIGN.md 2.2); counts under coverage.rewrites',
        'machine integers are modelled exactly (fixed width) by both tools; spec side uses int/nat',
        'termination is proved by Verus (decreases) and NOT by Kani',
    ] + trusted
    ev = dict(
        property_id=prop, tier=tier, seed=seed, level='proof',
        coverage=dict(
            obligations=len(counted),
            discharged=len(discharged),
            checker_cmd=' ;; '.join(cmds) if cmds else 'none',
            trusted_base=trusted_base,
            functions_under_contract=funcs,
            by_backend=by_backend,
            solver_time=solver,
            rewrites=rewrites,
            bounded=[dict(obligation=o.key(), harness=o.fn, bound=o.bound, status=o.status, time_ms=o.time_ms)
                     for o in bounded_obs],
            known_findings_seen=[dict(obligation=ob.key(), what=f.get('what')) for ob, f in known_seen],
            undischarged=[row(o) for o in proved_obs if o.status != 'discharged'],
            all_obligations=[row(o) for o in proved_obs],
            samples=samples,
            explanation=('obligations/discharged count only unbounded Verus obligations and complete (loop-free, '
                         'full-domain) Kani harnesses; bounded Kani stand-ins are listed under "bounded" and never '
                         'counted as proved. A known finding is an obligation that fails on the pinned tree for a '
                         'recorded genuine defect: it is listed under known_findings_seen and counted neither in obligations nor in discharged.'),
            undecided=undecided,
            sensitivity_selftest=sens,
            vacuity_guards=dict(emitted=len(guards), rejected_as_required=len([g for g in guards if g.status == 'discharged'])),
            notes=notes,
        ),
        assumptions=_scan_assumptions(vunits, kunits) + [
            'every //@trusted line of the unit templates (environment contracts) is an assumption, repeated in coverage.trusted_base',
        ],
        wall_s=round(wall, 2),
        violations=len(violations),
    )
    os.makedirs(os.path.join(here, 'evidence'), exist_ok=True)
    with open(os.path.join(here, 'evidence', prop + '.json'), 'w') as f:
        json.dump(ev, f, indent=1)
