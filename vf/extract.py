"""Mechanical item extractor for Rust source + the closed list of rewrite rules (DESIGN §2.2).

Nothing else in /verif touches repository code text.  Every rewrite applied is counted
and reported (coverage.rewrites).  A missing / ambiguous anchor raises AnchorError, which the
driver turns into exit 2 (undecided) -- never into an alarm.
"""
import re


class AnchorError(Exception):
    pass


class Unsupported(Exception):
    pass


# --------------------------------------------------------------------------------------
# lexical helpers: a scanner that knows strings, raw strings, chars/lifetimes and comments
# --------------------------------------------------------------------------------------

def _skip_noncode(s, i):
    """If s[i] starts a comment / string / char literal, return index just after it, else i."""
    n = len(s)
    c = s[i]
    if c == '/' and i + 1 < n:
        if s[i + 1] == '/':
            j = s.find('\n', i)
            return n if j < 0 else j
        if s[i + 1] == '*':
            depth = 1
            j = i + 2
            while j < n and depth:
                if s.startswith('/*', j):
                    depth += 1
                    j += 2
                elif s.startswith('*/', j):
                    depth -= 1
                    j += 2
                else:
                    j += 1
            return j
    if c == '"':
        j = i + 1
        while j < n:
            if s[j] == '\\':
                j += 2
                continue
            if s[j] == '"':
                return j + 1
            j += 1
        return n
    if c == 'r' and i + 1 < n and s[i + 1] in '#"' and (i == 0 or not (s[i - 1].isalnum() or s[i - 1] == '_')):
        m = re.match(r'r(#*)"', s[i:])
        if m:
            term = '"' + m.group(1)
            j = s.find(term, i + len(m.group(0)))
            return n if j < 0 else j + len(term)
    if c == 'b' and i + 1 < n and s[i + 1] in '"\'' and (i == 0 or not (s[i - 1].isalnum() or s[i - 1] == '_')):
        return _skip_noncode(s, i + 1)
    if c == "'":
        # char literal or lifetime
        m = re.match(r"'(\\.[^']*|[^\\'])'", s[i:])
        if m:
            return i + len(m.group(0))
        m = re.match(r"'[A-Za-z_][A-Za-z0-9_]*", s[i:])
        if m:
            return i + len(m.group(0))
    return i


def code_positions(s, start=0, end=None):
    """Yield (index, char) for every character of s[start:end] that is code (not comment/string)."""
    i = start
    n = len(s) if end is None else end
    while i < n:
        j = _skip_noncode(s, i)
        if j != i:
            i = j
            continue
        yield i, s[i]
        i += 1


def match_brace(s, open_idx):
    """s[open_idx] is '{', '(' or '['; return index of the matching closer."""
    o = s[open_idx]
    cl = {'{': '}', '(': ')', '[': ']'}[o]
    depth = 0
    for i, c in code_positions(s, open_idx):
        if c == o:
            depth += 1
        elif c == cl:
            depth -= 1
            if depth == 0:
                return i
    raise AnchorError("unbalanced %s at offset %d" % (o, open_idx))


def strip_comments(s):
    out = []
    i = 0
    n = len(s)
    while i < n:
        c = s[i]
        if c == '/' and i + 1 < n and s[i + 1] in '/*':
            j = _skip_noncode(s, i)
            if s[i + 1] == '*':
                out.append(' ')
            i = j
            continue
        j = _skip_noncode(s, i)
        if j != i:
            out.append(s[i:j])
            i = j
            continue
        out.append(c)
        i += 1
    return ''.join(out)


def line_of(s, idx):
    return s.count('\n', 0, idx) + 1


# --------------------------------------------------------------------------------------
# locating items
# --------------------------------------------------------------------------------------

def _find_code_regex(s, pattern, start=0, end=None):
    """All matches of regex `pattern` whose start is at a code position (not in comment/string)."""
    end = len(s) if end is None else end
    rx = re.compile(pattern, re.M)
    code = set()
    # cheap: compute mask lazily
    mask = bytearray(len(s))
    for i, _ in code_positions(s, start, end):
        mask[i] = 1
    res = []
    for m in rx.finditer(s, start, end):
        if mask[m.start()]:
            res.append(m)
    return res


def find_impl_block(s, header, all_matches=False):
    """Return (body_open_idx, body_close_idx) of the impl/trait/mod block whose header text
    (whitespace-normalised) starts with `header` and is directly followed by `{` or ` where`.
    header '-' means whole file."""
    if header in ('-', '', None):
        return [(-1, len(s))] if all_matches else (-1, len(s))
    want = ' '.join(header.split())
    kw = want.split(' ', 1)[0]
    # the keyword may carry generics directly (impl<T> ...)
    kw_base = re.match(r'[a-z]+', kw).group(0)
    cands = []
    for m in _find_code_regex(s, r'\b' + kw_base + r'\b'):
        # header text up to the opening brace
        j = m.start()
        k = j
        depth_angle = 0
        brace = None
        for i, c in code_positions(s, j):
            if c == '{':
                brace = i
                break
            if c == ';':
                break
        if brace is None:
            continue
        head = ' '.join(strip_comments(s[j:brace]).split())
        if head == want or head.startswith(want + ' where') or head.startswith(want + ' '):
            # require exact match of the portion before any where-clause
            base = head.split(' where ')[0].strip()
            if base == want:
                cands.append((brace, match_brace(s, brace)))
    if not cands:
        raise AnchorError("block `%s` not found" % header)
    if all_matches:
        return cands
    if len(cands) > 1:
        raise AnchorError("block `%s` ambiguous (%d matches)" % (header, len(cands)))
    return cands[0]


def _item_start(s, kw_idx, lo):
    """Walk back from the keyword over qualifiers, attributes and doc comments to the item start."""
    base = lo + 1 if lo >= 0 else 0
    i = kw_idx
    while True:
        m = re.search(r'(pub(\s*\([^)]*\))?|const|unsafe|async|default|extern\s*"[^"]*")\s*$', s[base:i])
        if not m:
            break
        i = base + m.start()
    # beginning of the line holding the first qualifier
    start = s.rfind('\n', 0, i) + 1
    if s[start:i].strip() != '':
        start = i
    # include attribute / doc-comment lines directly above (attributes may span several lines)
    while start > base:
        prev_end = start - 1                      # index of the '\n' that ends the previous line
        prev_start = s.rfind('\n', 0, prev_end) + 1
        line = s[prev_start:prev_end].strip()
        if line.startswith('///') or line.startswith('//!') or (line.startswith('#[') and line.endswith(']')):
            start = prev_start
            continue
        if line.endswith(']') or line.endswith(')]'):
            k = s.rfind('#[', base, prev_end)
            if k >= 0:
                seg = s[k:prev_end]
                if seg.count('[') == seg.count(']') and ';' not in seg and '{' not in seg and '}' not in seg and s[s.rfind('\n', 0, k) + 1:k].strip() == '':
                    start = s.rfind('\n', 0, k) + 1
                    continue
        break
    return max(start, base)


def extract_item(src, block_header, kind, name):
    """Extract an item. kind in {fn, struct, enum, const, type, static, impl, trait}.
    Returns dict(text, start, end, line, sig_end (index in text of body '{' for fn))."""
    blocks = find_impl_block(src, block_header, all_matches=True)
    if len(blocks) > 1 and kind != 'impl':
        # several blocks with the same header (e.g. two `impl T {}`): the item must be in exactly one
        hits = []
        for (blo, bhi) in blocks:
            try:
                hits.append(_extract_in(src, blo, bhi, block_header, kind, name))
            except AnchorError:
                pass
        if len(hits) != 1:
            raise AnchorError("%s `%s`: %d matches across %d `%s` blocks" % (kind, name, len(hits), len(blocks), block_header))
        return hits[0]
    lo, hi = blocks[0]
    if kind == 'impl':
        b0, b1 = find_impl_block(src, name)
        st = _item_start(src, src.rfind('\n', 0, b0) + 1 + len(src[src.rfind('\n', 0, b0) + 1:b0]) - len(src[src.rfind('\n', 0, b0) + 1:b0].lstrip()), -1)
        # simpler: start at the keyword
        ms = [m for m in _find_code_regex(src, r'\bimpl\b', 0, b0)]
        st = ms[-1].start()
        return dict(text=src[st:b1 + 1], start=st, end=b1 + 1, line=line_of(src, st))
    return _extract_in(src, lo, hi, block_header, kind, name)


def _extract_in(src, lo, hi, block_header, kind, name):
    pat = {
        'fn': r'\bfn\s+%s\b' % re.escape(name),
        'struct': r'\bstruct\s+%s\b' % re.escape(name),
        'enum': r'\benum\s+%s\b' % re.escape(name),
        'union': r'\bunion\s+%s\b' % re.escape(name),
        'trait': r'\btrait\s+%s\b' % re.escape(name),
        'const': r'\bconst\s+%s\b' % re.escape(name),
        'static': r'\bstatic\s+%s\b' % re.escape(name),
        'type': r'\btype\s+%s\b' % re.escape(name),
    }[kind]
    ms = _find_code_regex(src, pat, lo + 1, hi)
    # keep only matches at depth 1 relative to the block (direct children)
    direct = []
    for m in ms:
        depth = 0
        for i, c in code_positions(src, lo + 1, m.start()):
            if c == '{':
                depth += 1
            elif c == '}':
                depth -= 1
        if depth == 0:
            direct.append(m)
    if not direct:
        raise AnchorError("%s `%s` not found in `%s`" % (kind, name, block_header))
    if len(direct) > 1:
        raise AnchorError("%s `%s` ambiguous in `%s` (%d)" % (kind, name, block_header, len(direct)))
    m = direct[0]
    st = _item_start(src, m.start(), lo)
    # end: first ';' or matching '}' at paren-depth 0
    end = None
    body_open = None
    pd = 0
    for i, c in code_positions(src, m.end()):
        if c in '([':
            pd += 1
        elif c in ')]':
            pd -= 1
        elif c == ';' and pd == 0:
            end = i + 1
            break
        elif c == '{' and pd == 0:
            body_open = i
            end = match_brace(src, i) + 1
            # tuple/unit structs: `struct X(..);` handled by ';' above; struct with where..{}
            break
    if end is None:
        raise AnchorError("%s `%s`: no end found" % (kind, name))
    return dict(text=src[st:end], start=st, end=end, line=line_of(src, st),
                body_open=(body_open - st) if body_open is not None else None)


# --------------------------------------------------------------------------------------
# rewrite rules R1..R7
# --------------------------------------------------------------------------------------

class Rewriter:
    def __init__(self):
        self.counts = {}

    def bump(self, rule, n=1):
        if n:
            self.counts[rule] = self.counts.get(rule, 0) + n

    # R1: strip visibility, attributes, doc comments (and ordinary comments: spec-irrelevant)
    def r1(self, text):
        t = strip_comments(text)
        n = 0
        # attributes  #[...]  (possibly multi-line)
        out = []
        i = 0
        while i < len(t):
            j = _skip_noncode(t, i)
            if j != i:
                out.append(t[i:j])
                i = j
                continue
            if t[i] == '#' and i + 1 < len(t) and t[i + 1] == '[':
                k = match_brace(t, i + 1)
                attr = t[i:k + 1]
                md = re.match(r'#\[\s*derive\s*\((.*)\)\s*\]$', attr, re.S)
                if md:
                    names = [x.strip() for x in md.group(1).split(',')]
                    if 'Copy' in names and 'Clone' in names:
                        # plain-data types stay Copy (semantically relevant: by-value use of `*r`)
                        out.append('#[derive(Clone, Copy)]')
                i = k + 1
                n += 1
                continue
            out.append(t[i])
            i += 1
        t = ''.join(out)
        t2, k = re.subn(r'\bpub\s*\(\s*(crate|super|self|in\s+[^)]*)\s*\)\s*', '', t)
        n += k
        t3, k = re.subn(r'\bpub\s+', '', t2)
        n += k
        self.bump('R1', n)
        return t3

    # R2: let-chains
    def r2(self, text):
        """Rewrite `if <conds with let> { B }` (no else) into nested ifs.  Only `&&` chains."""
        changed = True
        guard = 0
        while changed and guard < 50:
            guard += 1
            changed = False
            for m in _find_code_regex(text, r'\bif\b'):
                # find the '{' that opens the block: first '{' at paren depth 0 that is not part of a struct literal;
                # condition cannot contain a bare '{' in Rust (struct literals need parens), closures aside.
                pd = 0
                brace = None
                for i, c in code_positions(text, m.end()):
                    if c in '([':
                        pd += 1
                    elif c in ')]':
                        pd -= 1
                    elif c == '{' and pd == 0:
                        brace = i
                        break
                    elif c == ';' and pd == 0:
                        break
                if brace is None:
                    continue
                cond = text[m.end():brace]
                parts = self._split_top_and(cond)
                if len(parts) < 2 or not any(re.match(r'\s*let\b', p) for p in parts):
                    continue
                close = match_brace(text, brace)
                # reject if followed by else
                rest = text[close + 1:]
                if re.match(r'\s*else\b', rest):
                    raise Unsupported("let-chain with else at line %d" % line_of(text, m.start()))
                # an `if` that is itself the else-branch of another if cannot be nested safely
                before = text[:m.start()]
                if re.search(r'\belse\s*$', before):
                    raise Unsupported("let-chain in else-if at line %d" % line_of(text, m.start()))
                body = text[brace:close + 1]
                nested = ''
                for p in parts:
                    nested += 'if ' + p.strip() + ' { '
                nested += body[1:-1]
                nested += ' }' * len(parts)
                text = text[:m.start()] + nested + text[close + 1:]
                self.bump('R2')
                changed = True
                break
        # while-let chains are not supported
        for m in _find_code_regex(text, r'\bwhile\b'):
            pd = 0
            brace = None
            for i, c in code_positions(text, m.end()):
                if c in '([':
                    pd += 1
                elif c in ')]':
                    pd -= 1
                elif c == '{' and pd == 0:
                    brace = i
                    break
            if brace is None:
                continue
            cond = text[m.end():brace]
            parts = self._split_top_and(cond)
            if len(parts) >= 2 and any(re.match(r'\s*let\b', p) for p in parts):
                raise Unsupported("while-let chain at line %d" % line_of(text, m.start()))
        return text

    @staticmethod
    def _split_top_and(cond):
        parts = []
        pd = 0
        last = 0
        i = 0
        positions = list(code_positions(cond))
        idxs = {i for i, _ in positions}
        k = 0
        while k < len(positions):
            i, c = positions[k]
            if c in '([{':
                pd += 1
            elif c in ')]}':
                pd -= 1
            elif c == '&' and pd == 0 and i + 1 < len(cond) and cond[i + 1] == '&' and (i + 1) in idxs:
                parts.append(cond[last:i])
                last = i + 2
                k += 2
                continue
            elif c == '|' and pd == 0 and i + 1 < len(cond) and cond[i + 1] == '|':
                # a top-level || makes this not a pure && chain
                return [cond]
            k += 1
        parts.append(cond[last:])
        return parts

    # R3: error constructors with formatted messages
    def r3(self, text, patterns):
        """patterns: list of (regex, replacement) applied at code positions; used to drop
        `format!`/string message arguments of error constructors.  Declared per unit."""
        for pat in patterns:
            rx, rep = pat[0], pat[1]
            optional = len(pat) > 2 and pat[2]
            text, k = re.subn(rx, rep, text, flags=re.S)
            if k == 0 and not optional:
                # a declared substitution that no longer applies: the code changed shape
                raise AnchorError('substitution /%s/ matched nothing' % rx)
            # an OPTIONAL substitution (`sub? /re/ => text`) rewrites a construct Verus cannot take
            # (a closure, a format!) where it occurs; where it does not occur there is nothing to
            # rewrite and the text goes to the verifier as it is
            self.bump('R3', k)
        return text

    # R9: anonymous loop variable gets a name so that loop invariants can refer to the iteration count
    def r9(self, text):
        text, k = re.subn(r'\bfor\s+_\s+in\b', 'for axv_i in', text)
        self.bump('R9', k)
        return text

    # R5: assertions with format args
    def r5(self, text):
        def fix(m):
            inner_open = m.end() - 1
            close = match_brace(text, inner_open)
            return None
        out = text
        for name in ('debug_assert', 'assert'):
            while True:
                ms = _find_code_regex(out, r'\b%s!\s*\(' % name)
                if not ms:
                    break
                m = ms[0]
                op = m.end() - 1
                cl = match_brace(out, op)
                args = out[op + 1:cl]
                # first top-level comma splits condition from message
                pd = 0
                cut = None
                for i, c in code_positions(args):
                    if c in '([{':
                        pd += 1
                    elif c in ')]}':
                        pd -= 1
                    elif c == ',' and pd == 0:
                        cut = i
                        break
                cond = args if cut is None else args[:cut]
                out = out[:m.start()] + 'vassert(' + cond.strip() + ')' + out[cl + 1:]
                self.bump('R5')
        return out


def find_loops(text, body_open):
    """Indices (in text) of the '{' that opens each loop body (while/for/loop), in source order,
    searching inside the fn body only."""
    res = []
    for m in _find_code_regex(text, r'\b(while|for|loop)\b', body_open):
        kw = m.group(1)
        if kw == 'for':
            # skip `for<'a>` HRTB and `impl X for Y`
            after = text[m.end():m.end() + 2]
            if after.lstrip().startswith('<'):
                continue
        pd = 0
        brace = None
        for i, c in code_positions(text, m.end()):
            if c in '([':
                pd += 1
            elif c in ')]':
                pd -= 1
            elif c == '{' and pd == 0:
                brace = i
                break
            elif c == ';' and pd == 0:
                break
        if brace is not None:
            res.append(brace)
    return res


def fn_signature_split(text, body_open):
    """Return (head, ret, body) where head is text up to (excluding) `-> T` or the body brace,
    ret is the return type text ('' if none)."""
    sig = text[:body_open]
    # find top-level '->' after the parameter list
    # locate parameter list: first '(' after `fn name`
    m = re.search(r'\bfn\s+[A-Za-z_][A-Za-z0-9_]*', sig)
    i = m.end()
    # optional generics
    j = i
    while j < len(sig) and sig[j].isspace():
        j += 1
    if j < len(sig) and sig[j] == '<':
        depth = 0
        while j < len(sig):
            if sig[j] == '<':
                depth += 1
            elif sig[j] == '>' and sig[j - 1] != '-':
                depth -= 1
                if depth == 0:
                    j += 1
                    break
            j += 1
    p = sig.index('(', j)
    pc = match_brace(sig, p)
    rest = sig[pc + 1:]
    m2 = re.match(r'\s*->\s*', rest)
    if m2:
        after = rest[m2.end():]
        # return type ends at `where` (top-level) or end
        mw = re.search(r'\bwhere\b', after)
        if mw:
            ret = after[:mw.start()].strip()
            where = after[mw.start():].strip()
        else:
            ret = after.strip()
            where = ''
        return sig[:pc + 1], ret, where
    mw = re.search(r'\bwhere\b', rest)
    where = rest[mw.start():].strip() if mw else ''
    return sig[:pc + 1], '', where
