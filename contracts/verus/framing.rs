//@unit name=framing props=C20
//@strip-pub
// Unit `framing`: the length-prefixed frame reader/writer (C20: every message the writer accepts is
// accepted by the reader; everything above the 16 MiB cap is rejected before the body is read).
//@trusted [env] std::io::Read::read_exact / Write::write_all,flush on an abstract byte stream; u32::from_le_bytes / to_le_bytes are inverse (uninterpreted pair)
use vstd::prelude::*;

verus! {

global size_of usize == 8;

pub enum TcpError { Io, MessageTooLarge(usize), Other }

//@item crates/axmos-db/src/tcp/mod.rs | - | const MAX_MESSAGE_SIZE

pub uninterp spec fn le32(b: [u8; 4]) -> u32;
#[verifier::external_body]
pub fn u32_from_le_bytes(b: [u8; 4]) -> (r: u32) ensures r == le32(b) { unimplemented!() }
#[verifier::external_body]
pub fn u32_to_le_bytes(v: u32) -> (r: [u8; 4]) ensures le32(r) == v { unimplemented!() }

// an abstract input stream
#[verifier::external_body]
pub struct Stream { _p: () }
impl Stream {
    pub uninterp spec fn reads(&self) -> nat;      // number of read_exact calls so far
    #[verifier::external_body]
    pub fn read_exact(&mut self, buf: &mut [u8]) -> (r: Result<(), TcpError>)
        ensures final(self).reads() == old(self).reads() + 1, final(buf)@.len() == old(buf)@.len(), r matches Err(e) ==> e is Io,
    { unimplemented!() }
    pub uninterp spec fn written(&self) -> Seq<u8>;
    #[verifier::external_body]
    pub fn write_all(&mut self, buf: &[u8]) -> (r: Result<(), TcpError>)
        ensures r is Ok ==> final(self).written() == old(self).written() + buf@, r is Err ==> final(self).written() == old(self).written(), r matches Err(e) ==> e is Io,
    { unimplemented!() }
    #[verifier::external_body]
    pub fn flush(&mut self) -> (r: Result<(), TcpError>)
        ensures final(self).written() == old(self).written(),
    { unimplemented!() }
}

//@fn crates/axmos-db/src/tcp/mod.rs | - | read_message
//@ sub /<R: Read>\(reader: &mut R\)/ => (reader: &mut Stream)
//@ sub /u32::from_le_bytes\(len_buf\)/ => u32_from_le_bytes(len_buf)
//@ ensures
//@   [C20:frame.cap_rejected_before_body] r matches Err(TcpError::MessageTooLarge(l)) ==> (l > MAX_MESSAGE_SIZE && final(reader).reads() == old(reader).reads() + 1),
//@   [C20:frame.within_cap_is_read] r matches Ok(v) ==> (v@.len() <= MAX_MESSAGE_SIZE && final(reader).reads() == old(reader).reads() + 2),
//@   [C20:frame.reader_accepts_up_to_cap] r matches Err(TcpError::MessageTooLarge(l)) ==> l != MAX_MESSAGE_SIZE,
//@end

//@fn crates/axmos-db/src/tcp/mod.rs | - | write_message
//@ sub /<W: Write>\(writer: &mut W, data: &\[u8\]\)/ => (writer: &mut Stream, data: &[u8])
//@ sub /\(data\.len\(\) as u32\)\.to_le_bytes\(\)/ => u32_to_le_bytes(data.len() as u32)
//@ ensures
//@   [C20:frame.writer_cap] data@.len() > MAX_MESSAGE_SIZE ==> (r is Err && final(writer).written() == old(writer).written()),
//@   [C20:frame.writer_layout] r is Ok ==> (data@.len() <= MAX_MESSAGE_SIZE && exists|h: [u8; 4]| le32(h) == data@.len() as u32 && final(writer).written() == old(writer).written() + h@ + data@),
//@end

} // verus!
