//@unit name=orderbyagg props=C05,C16
//@strip-pub
// Unit `orderbyagg`: Planner::rebind_order_by_to_output -- the sort keys of an aggregate query.
//   C05 "results as SQL defines": the Sort operator of `SELECT .. GROUP BY .. ORDER BY k` reads the
//   OUTPUT rows of the aggregation; a key bound against the FROM clause indexes another column
//   there. Every rebound key is a plain reference to the output position of a select item whose
//   expression IS the key, keeps its direction, the keys keep their order and number, and a key
//   that names no select item is refused instead of being applied to some column.
//   C16: no index leaves the select list.
//@trusted [env] BoundExpression is abstract; `==` on it (derived PartialEq) is structural equality `same(a, b)`; BoundExpression::data_type is a function of the expression
//@trusted [sub] `item.expr == key.expr` -> `same_expr(&item.expr, &key.expr)` (the derived PartialEq of a recursive enum has no Verus specification); the two `for x in slice` headers become index loops over the same slice (`for n in 0..len { let x = &slice[n];`) so that invariants can name the position; the error message string -> other_error(); `Vec::with_capacity(n)` -> `Vec::new()` (capacity is not observable)
//@trusted [outside] that Planner::build_select calls this function exactly for aggregate queries, and the Sort / Aggregate executors themselves (units volcano, aggregates)
use vstd::prelude::*;

verus! {

pub struct PlannerError { pub code: u8 }
pub type PlannerResult<T> = Result<T, PlannerError>;
#[verifier::external_body]
pub fn other_error() -> PlannerError { unimplemented!() }

#[derive(Clone, Copy, PartialEq, Eq)]
pub enum DataTypeKind { Int, BigInt, Double, Text, Bool, Null }

pub struct Binding {
    pub table_id: Option<u64>,
    pub scope_index: usize,
    pub column_idx: usize,
    pub data_type: DataTypeKind,
}

#[verifier::external_body]
pub struct Opaque { _p: () }
pub enum BoundExpression {
    ColumnBinding(Binding),
    Other(Opaque),
}
pub uninterp spec fn same(a: &BoundExpression, b: &BoundExpression) -> bool;
pub uninterp spec fn type_of(e: &BoundExpression) -> DataTypeKind;
#[verifier::external_body]
pub fn same_expr(a: &BoundExpression, b: &BoundExpression) -> (r: bool) ensures r == same(a, b) { unimplemented!() }
impl BoundExpression {
    #[verifier::external_body]
    pub fn data_type(&self) -> (r: DataTypeKind) ensures r == type_of(self) { unimplemented!() }
}

pub struct BoundSelectItem {
    pub expr: BoundExpression,
    pub output_idx: usize,
}
pub struct BoundOrderBy {
    pub expr: BoundExpression,
    pub asc: bool,
    pub nulls_first: bool,
}

// key `out` is key `k` rebound to the output of the aggregation described by `cols`
pub open spec fn rebound_to(out: &BoundOrderBy, k: &BoundOrderBy, cols: Seq<BoundSelectItem>) -> bool {
    &&& out.asc == k.asc
    &&& out.nulls_first == k.nulls_first
    &&& out.expr matches BoundExpression::ColumnBinding(b)
    &&& b.table_id is None
    // any select item whose expression is the key will do (equal expressions, equal values)
    &&& exists|i: int| 0 <= i < cols.len() && same(&(#[trigger] cols[i]).expr, &k.expr) && b.column_idx == cols[i].output_idx && b.data_type == type_of(&cols[i].expr)
}
pub open spec fn names_an_item(k: &BoundOrderBy, cols: Seq<BoundSelectItem>) -> bool {
    exists|i: int| 0 <= i < cols.len() && same(&(#[trigger] cols[i]).expr, &k.expr)
}

pub struct Planner { pub p: u8 }
impl Planner {
//@fn crates/axmos-db/src/sql/planner/plan.rs | impl<'a> Planner<'a> | rebind_order_by_to_output
//@ sub /item\.expr == key\.expr/ => same_expr(&item.expr, &key.expr)
//@ sub /for key in order_by \{/ => for axv_n in 0..order_by.len() { let key = &order_by[axv_n];
//@ sub /for item in columns \{/ => for axv_m in 0..columns.len() { let item = &columns[axv_m];
//@ sub? /PlannerError::Other\(\s*"[^"]*"\.to_string\(\),?\s*\)/ => other_error()
//@ sub /Vec::with_capacity\(order_by\.len\(\)\)/ => Vec::new()
//@ ensures
//@   [C05:orderby.every_key_is_rebound_to_the_select_item_it_names] r matches Ok(out) ==> out@.len() == order_by@.len() && (forall|n: int| 0 <= n < out@.len() ==> rebound_to(&#[trigger] out@[n], &order_by@[n], columns@)),
//@   [C05:orderby.a_key_that_names_no_select_item_is_refused] r is Err <==> (exists|n: int| 0 <= n < order_by@.len() && !names_an_item(&#[trigger] order_by@[n], columns@)),
//@ loop 1
//@   invariant
//@     rebound@.len() == axv_n,
//@     forall|n: int| 0 <= n < rebound@.len() ==> rebound_to(&#[trigger] rebound@[n], &order_by@[n], columns@),
//@     forall|n: int| 0 <= n < axv_n ==> names_an_item(&#[trigger] order_by@[n], columns@),
//@ loop 2
//@   invariant
//@     key == &order_by@[axv_n as int],
//@     found is None ==> (forall|j: int| 0 <= j < axv_m ==> !same(&(#[trigger] columns@[j]).expr, &key.expr)),
//@     found matches Some(b) ==> rebound_to(&b, key, columns@),
//@end
}

} // verus!
