//@unit name=cachestats props=C12,C16
//@strip-pub
// Unit `cachestats`: the page cache's statistics counters (MemoryStats::{cache_hit, cache_miss, eviction}).
//   Every PageCache::{get, insert, evict} calls one of them, so they sit on the path of every page
//   access. C12 "data survives ANY amount of cache eviction" / C16 "never a panic, never a hang":
//   counting must never fail, whatever the counter holds -- the eviction counter is a u16 and was
//   incremented with `+ 1`: the 65 536th eviction panicked inside the pager (overflow checks are on
//   in the dev profile), the worker died and its caller waited for ever (fix 7ba5924; unit cache
//   had taken the counters as "do not influence any result" until then). The obligation is the
//   absence of arithmetic overflow in the three bodies (`<fn>.body`), for every counter value.
//@trusted [env] std::cell::Cell<u32> / Cell<u16>: get returns some value of the type, set stores (no contract needed: the obligation is about the arithmetic between them)
use vstd::prelude::*;

verus! {

#[verifier::external_body]
#[verifier::reject_recursive_types(T)]
pub struct Cell<T> { _p: core::marker::PhantomData<T> }
impl<T: Copy> Cell<T> {
    #[verifier::external_body]
    pub fn get(&self) -> T { unimplemented!() }
    #[verifier::external_body]
    pub fn set(&self, v: T) { unimplemented!() }
}

pub struct MemoryStats {
    pub cache_hits: Cell<u32>,
    pub cache_misses: Cell<u32>,
    pub frames_evicted: Cell<u16>,
}

impl MemoryStats {
//@fn crates/axmos-db/src/io/cache.rs | impl MemoryStats | cache_hit
//@end
//@fn crates/axmos-db/src/io/cache.rs | impl MemoryStats | cache_miss
//@end
//@fn crates/axmos-db/src/io/cache.rs | impl MemoryStats | eviction
//@end
}

} // verus!
