//@unit name=wal props=C17,C01,C02
//@strip-pub
//@rlimit 40
// Unit `wal`: the write-ahead log as an append-only sequence (DESIGN Appendix A.2).
// Bodies of //@fn and //@item blocks are extracted verbatim from /repo at run time.
//@trusted [env] BlockZero/WalBlock (MemBlock<..>, raw-pointer code in storage/core/buffer.rs) are abstract values with an image(): Seq<u8>; meta()/recs() are uninterpreted decodings of that image; the contracts of metadata/metadata_mut/available_space/try_push/as_ref/as_mut/record/alloc are ASSUMED here and checked separately, bounded, by the Kani unit walbytes on the real code
//@trusted [env] DBFile is a sequence of fixed-size blocks with a cursor: seek sets the cursor; write_all of one block at a block-aligned cursor replaces exactly that block (atomically: a failed write changes nothing); read_exact returns the block; set_len(0)/truncate empties the file; sync_all changes nothing observable
//@trusted [env] std::collections::VecDeque as specified by vstd
//@trusted [target] usize is 64 bits wide (global size_of usize == 8)
//@trusted [bound] the log has fewer than 2^32 blocks of at most 2^24 bytes and fewer than 2^32-1 entries since the last truncate (preconditions of push; offsets then fit u64)
use vstd::prelude::*;
use std::collections::VecDeque;

verus! {

global size_of usize == 8;

type Lsn = u64;
type BlockId = u64;
type TransactionId = u64;
type ObjectId = u64;
type RowId = u64;

// ---------------------------------------------------------------------------------------
// io environment
// ---------------------------------------------------------------------------------------
pub enum ErrorKind { InvalidInput, StorageFull, UnexpectedEof, Other }
pub struct IoError { pub kind: ErrorKind }
pub mod io {
    pub(crate) type Result<T> = core::result::Result<T, super::IoError>;
}
pub fn mk_err(kind: ErrorKind) -> (r: IoError) { IoError { kind } }
pub enum SeekFrom { Start(u64) }

// an abstract log record: everything the property compares
pub struct Rec {
    pub lsn: u64,
    pub tid: u64,
    pub kind: u8,
    pub prev: Option<u64>,
    pub oid: Option<u64>,
    pub rowid: Option<u64>,
    pub undo: Seq<u8>,
    pub redo: Seq<u8>,
    pub size: nat,
}

#[verifier::external_body]
pub struct OwnedRecord { _p: () }

impl OwnedRecord {
    pub uninterp spec fn view(&self) -> Rec;

    #[verifier::external_body]
    pub fn lsn(&self) -> (r: Lsn)
        ensures r == self@.lsn,
    { unimplemented!() }

    #[verifier::external_body]
    pub fn total_size(&self) -> (r: usize)
        ensures r == self@.size, r > 0,
    { unimplemented!() }
}

//@item crates/axmos-db/src/storage/wal.rs | - | struct WalHeader
//@item crates/axmos-db/src/storage/wal.rs | - | struct BlockHeader
//@item crates/axmos-db/src/storage/wal.rs | - | struct BlockZeroHeader

// uninterpreted decodings of a block image (assumed to be what storage/core/buffer.rs implements)
pub uninterp spec fn bz_meta(img: Seq<u8>) -> BlockZeroHeader;
pub uninterp spec fn bz_recs(img: Seq<u8>) -> Seq<Rec>;
pub uninterp spec fn wb_meta(img: Seq<u8>) -> BlockHeader;
pub uninterp spec fn wb_recs(img: Seq<u8>) -> Seq<Rec>;
// usable record space of a block of `size` bytes
pub uninterp spec fn bz_cap(size: nat) -> nat;
pub uninterp spec fn wb_cap(size: nat) -> nat;
pub uninterp spec fn wb_usable(size: nat) -> nat;

pub open spec fn recs_size(s: Seq<Rec>) -> nat
    decreases s.len(),
{
    if s.len() == 0 { 0 } else { recs_size(s.drop_last()) + s.last().size }
}

// byte offset of record k inside a block's record area
pub open spec fn off_of(recs: Seq<Rec>, k: int) -> nat
    decreases k,
{
    if k <= 0 { 0 } else { off_of(recs, k - 1) + recs[k - 1].size }
}
pub open spec fn block_wf(recs: Seq<Rec>, used: int) -> bool {
    &&& used == off_of(recs, recs.len() as int)
    &&& used < 0x1_0000_0000
    &&& forall|i: int| 0 <= i < recs.len() ==> (#[trigger] recs[i]).size > 0
}
// "offset `off` is the start of record k (or the end of the block for k == len)"
pub open spec fn at_record(recs: Seq<Rec>, off: int, k: int) -> bool {
    0 <= k <= recs.len() && off == off_of(recs, k)
}


#[verifier::external_body]
pub struct BlockZero { _p: () }

impl BlockZero {
    pub uninterp spec fn image(&self) -> Seq<u8>;
    pub open spec fn meta(&self) -> BlockZeroHeader { bz_meta(self.image()) }
    pub open spec fn recs(&self) -> Seq<Rec> { bz_recs(self.image()) }
    pub open spec fn size(&self) -> nat { self.image().len() }
    pub open spec fn avail(&self) -> nat {
        if bz_cap(self.size()) >= self.meta().block_header.used_bytes { (bz_cap(self.size()) - self.meta().block_header.used_bytes) as nat } else { 0 }
    }

    #[verifier::external_body]
    pub fn alloc(id: BlockId, size: usize) -> (r: BlockZero)
        ensures
            r.size() == size,
            r.recs() == Seq::<Rec>::empty(),
            r.meta().block_header.block_number == id,
            r.meta().block_header.used_bytes == 0,
            block_wf(r.recs(), 0),
            r.meta().wal_header.total_blocks == 1,
            r.meta().wal_header.total_entries == 0,
            r.meta().wal_header.global_last_lsn is None,
            r.meta().wal_header.global_start_lsn is None,
            r.meta().wal_header.block_size == size as u32,
    { unimplemented!() }

    // zero-filled block (MemBlock::new): every header field is 0 / None
    #[verifier::external_body]
    pub fn new(size: usize) -> (r: BlockZero)
        ensures
            r.size() == size,
            r.recs() == Seq::<Rec>::empty(),
            r.meta().block_header.block_number == 0,
            r.meta().block_header.used_bytes == 0,
            r.meta().wal_header.total_blocks == 0,
            r.meta().wal_header.total_entries == 0,
    { unimplemented!() }

    #[verifier::external_body]
    pub fn last_lsn(&self) -> (r: Option<Lsn>)
        ensures r == self.meta().block_header.block_last_lsn,
    { unimplemented!() }

    #[verifier::external_body]
    pub fn metadata(&self) -> (r: &BlockZeroHeader)
        ensures *r == self.meta(),
    { unimplemented!() }

    #[verifier::external_body]
    pub fn metadata_mut(&mut self) -> (r: &mut BlockZeroHeader)
        ensures
            *r == old(self).meta(),
            final(self).meta() == *final(r),
            final(self).recs() == old(self).recs(),
            final(self).size() == old(self).size(),
    { unimplemented!() }

    #[verifier::external_body]
    pub fn available_space(&self) -> (r: usize)
        ensures r == self.avail(),
    { unimplemented!() }

    #[verifier::external_body]
    pub fn try_push(&mut self, lsn: Lsn, record: OwnedRecord) -> (r: io::Result<Lsn>)
        ensures
            match r {
                Ok(l) => l == lsn && old(self).avail() >= record@.size
                    && final(self).recs() == old(self).recs().push(record@)
                    && final(self).size() == old(self).size()
                    && (block_wf(old(self).recs(), old(self).meta().block_header.used_bytes as int) ==> block_wf(final(self).recs(), final(self).meta().block_header.used_bytes as int))
                    && final(self).meta().wal_header == old(self).meta().wal_header
                    && final(self).meta().block_header.block_number == old(self).meta().block_header.block_number
                    && final(self).meta().block_header.used_bytes == old(self).meta().block_header.used_bytes + record@.size,
                Err(_) => old(self).avail() < record@.size && final(self).image() == old(self).image(),
            },
    { unimplemented!() }

    #[verifier::external_body]
    pub fn as_ref(&self) -> (r: &[u8])
        ensures r@ == self.image(),
    { unimplemented!() }
}

#[verifier::external_body]
pub struct WalBlock { _p: () }

impl WalBlock {
    pub uninterp spec fn image(&self) -> Seq<u8>;
    pub open spec fn meta(&self) -> BlockHeader { wb_meta(self.image()) }
    pub open spec fn recs(&self) -> Seq<Rec> { wb_recs(self.image()) }
    pub open spec fn size(&self) -> nat { self.image().len() }
    pub open spec fn avail(&self) -> nat {
        if wb_cap(self.size()) >= self.meta().used_bytes { (wb_cap(self.size()) - self.meta().used_bytes) as nat } else { 0 }
    }

    #[verifier::external_body]
    pub fn alloc(id: BlockId, size: usize) -> (r: WalBlock)
        ensures
            r.size() == size,
            r.recs() == Seq::<Rec>::empty(),
            r.meta().block_number == id,
            r.meta().used_bytes == 0,
            block_wf(r.recs(), 0),
    { unimplemented!() }

    // zero-filled block (MemBlock::new): block_number 0, nothing used
    #[verifier::external_body]
    pub fn new(size: usize) -> (r: WalBlock)
        ensures
            r.size() == size,
            r.recs() == Seq::<Rec>::empty(),
            r.meta().block_number == 0,
            r.meta().used_bytes == 0,
    { unimplemented!() }

    #[verifier::external_body]
    pub fn usable_space(size: usize) -> (r: usize)
        ensures r == wb_usable(size as nat),
    { unimplemented!() }

    #[verifier::external_body]
    pub fn metadata(&self) -> (r: &BlockHeader)
        ensures *r == self.meta(),
    { unimplemented!() }

    #[verifier::external_body]
    pub fn available_space(&self) -> (r: usize)
        ensures r == self.avail(),
    { unimplemented!() }

    #[verifier::external_body]
    pub fn try_push(&mut self, lsn: Lsn, record: OwnedRecord) -> (r: io::Result<Lsn>)
        ensures
            match r {
                Ok(l) => l == lsn && old(self).avail() >= record@.size
                    && final(self).recs() == old(self).recs().push(record@)
                    && final(self).size() == old(self).size()
                    && (block_wf(old(self).recs(), old(self).meta().used_bytes as int) ==> block_wf(final(self).recs(), final(self).meta().used_bytes as int))
                    && final(self).meta().block_number == old(self).meta().block_number
                    && final(self).meta().used_bytes == old(self).meta().used_bytes + record@.size,
                Err(_) => old(self).avail() < record@.size && final(self).image() == old(self).image(),
            },
    { unimplemented!() }

    #[verifier::external_body]
    pub fn as_ref(&self) -> (r: &[u8])
        ensures r@ == self.image(),
    { unimplemented!() }
}

// ---------------------------------------------------------------------------------------
// the log file: fixed-size blocks + cursor.  `tag()` is the block size the file was created
// with (ghost; never changes).
// ---------------------------------------------------------------------------------------
#[verifier::external_body]
pub struct DBFile { _p: () }

// what is readable from a file holding blocks `b` : block zero's records, then the numbered
// blocks that block zero's header accounts for
pub open spec fn numbered(b: Seq<Seq<u8>>, from: int, to: int) -> Seq<Rec>
    decreases to - from,
{
    if from >= to { Seq::<Rec>::empty() } else { numbered(b, from, to - 1) + wb_recs(b[to - 1]) }
}

// a block that was never written (file hole): decodes to "no records, zero blocks" (axiom below)
pub uninterp spec fn zero_hole() -> Seq<u8>;

#[verifier::external_body]
pub proof fn axiom_hole_decodes_empty()
    ensures
        bz_recs(zero_hole()) == Seq::<Rec>::empty(),
        bz_meta(zero_hole()).wal_header.total_blocks == 0,
{}

// number of blocks the on-disk block zero accounts for (1 = only block zero)
pub open spec fn dtd(b: Seq<Seq<u8>>) -> int {
    if b.len() == 0 { 1 } else if bz_meta(b[0]).wal_header.total_blocks == 0 { 1 } else { bz_meta(b[0]).wal_header.total_blocks as int }
}
pub open spec fn dbz(b: Seq<Seq<u8>>) -> Seq<Rec> {
    if b.len() == 0 { Seq::<Rec>::empty() } else { bz_recs(b[0]) }
}

// what a reader obtains from the file
pub open spec fn disk_log(b: Seq<Seq<u8>>) -> Seq<Rec> {
    dbz(b) + numbered(b, 1, dtd(b))
}

// the crash-cut obligation: a single block write may only ever EXTEND what is readable
pub open spec fn log_extends(before: Seq<Seq<u8>>, after: Seq<Seq<u8>>) -> bool {
    disk_log(before).is_prefix_of(disk_log(after))
}

pub open spec fn put_block(b: Seq<Seq<u8>>, i: int, img: Seq<u8>) -> Seq<Seq<u8>> {
    if 0 <= i < b.len() { b.update(i, img) } else { b + Seq::new((i - b.len()) as nat, |k: int| zero_hole()) + seq![img] }
}

impl DBFile {
    pub uninterp spec fn blocks(&self) -> Seq<Seq<u8>>;
    pub uninterp spec fn cursor(&self) -> nat;
    pub uninterp spec fn tag(&self) -> nat;

    #[verifier::external_body]
    pub fn seek(&mut self, pos: SeekFrom) -> (r: io::Result<u64>)
        ensures
            final(self).blocks() == old(self).blocks(),
            final(self).tag() == old(self).tag(),
            r is Ok ==> (pos matches SeekFrom::Start(o) && final(self).cursor() == o),
    { unimplemented!() }

    // one block, block-aligned; and it must be a write that keeps every readable record readable
    #[verifier::external_body]
    pub fn write_all(&mut self, buf: &[u8]) -> (r: io::Result<()>)
        requires
            [C17,C01:flush.block_aligned_writes] old(self).tag() > 0 && buf@.len() == old(self).tag() && old(self).cursor() % old(self).tag() == 0,
            [C01,C17:flush.no_loss_at_any_cut] log_extends(old(self).blocks(), put_block(old(self).blocks(), (old(self).cursor() / old(self).tag()) as int, buf@)),
        ensures
            final(self).tag() == old(self).tag(),
            r is Ok ==> final(self).blocks() == put_block(old(self).blocks(), (old(self).cursor() / old(self).tag()) as int, buf@),
            r is Err ==> final(self).blocks() == old(self).blocks(),
    { unimplemented!() }

    #[verifier::external_body]
    pub fn sync_all(&self) -> (r: io::Result<()>)
    { unimplemented!() }

    #[verifier::external_body]
    pub fn truncate(&mut self) -> (r: io::Result<()>)
        ensures
            final(self).tag() == old(self).tag(),
            r is Ok ==> final(self).blocks() == Seq::<Seq<u8>>::empty(),
            r is Err ==> final(self).blocks() == old(self).blocks(),
    { unimplemented!() }
}

//@item crates/axmos-db/src/io/wal.rs | - | struct WriteAheadLog


pub open spec fn queue_recs(q: Seq<WalBlock>) -> Seq<Rec>
    decreases q.len(),
{
    if q.len() == 0 { Seq::<Rec>::empty() } else { queue_recs(q.drop_last()) + q.last().recs() }
}

pub open spec fn MAX_BLOCKS() -> int { 0x1_0000_0000 }
pub open spec fn MAX_BLOCK_SIZE() -> int { 0x100_0000 }

impl WriteAheadLog {
    pub closed spec fn total_blocks(&self) -> int { self.header.meta().wal_header.total_blocks as int }
    pub closed spec fn entries(&self) -> int { self.header.meta().wal_header.total_entries as int }
    pub closed spec fn disk(&self) -> Seq<Seq<u8>> { self.file.blocks() }
    pub closed spec fn pending(&self) -> int { self.flush_queue@.len() + (if self.current_block is Some { 1int } else { 0int }) }
    // id of the first numbered block that still lives (also) in memory
    pub closed spec fn q0(&self) -> int { self.total_blocks() - self.pending() }

    pub closed spec fn cur_recs(&self) -> Seq<Rec> {
        match self.current_block { Some(c) => c.recs(), None => Seq::<Rec>::empty() }
    }

    // the appended-since-truncate sequence this object stands for
    pub closed spec fn view(&self) -> Seq<Rec> {
        self.header.recs() + numbered(self.disk(), 1, self.q0()) + queue_recs(self.flush_queue@) + self.cur_recs()
    }

    pub closed spec fn last_lsn_spec(&self) -> Option<u64> { self.header.meta().wal_header.global_last_lsn }
    pub closed spec fn block_size_spec(&self) -> int { self.block_size as int }

    // number of blocks block zero ON DISK accounts for (1 for a file nothing was written to yet)
    pub closed spec fn td(&self) -> int { dtd(self.disk()) }
    pub closed spec fn disk_bz_recs(&self) -> Seq<Rec> { dbz(self.disk()) }

    // representation invariant
    pub closed spec fn inv(&self) -> bool {
        let bs = self.block_size as int;
        let tm = self.total_blocks();
        let td = self.td();
        let d = self.disk();
        &&& 0 < bs <= MAX_BLOCK_SIZE()
        &&& self.file.tag() == bs
        &&& self.header.size() == bs
        &&& 1 <= td <= tm < MAX_BLOCKS()
        &&& (td > 1 ==> td <= d.len())
        // numbered blocks below q0 are on disk for good; block q0 may be on disk in an older, shorter state
        &&& 1 <= self.q0() <= td
        &&& td - 1 <= self.q0()
        &&& (self.flush_queue@.len() > 0 ==> self.current_block is Some)
        // every queued/current block has the id its position implies and the configured size
        &&& (forall|j: int| 0 <= j < self.flush_queue@.len() ==> (#[trigger] self.flush_queue@[j]).meta().block_number == self.q0() + j && self.flush_queue@[j].size() == bs)
        &&& (self.current_block matches Some(c) ==> c.meta().block_number == tm - 1 && c.size() == bs)
        &&& (forall|j: int| 0 <= j < td && j < d.len() ==> (#[trigger] d[j]).len() == bs)
        // block zero on disk is an older state of block zero in memory, and frozen once numbered blocks exist
        &&& self.disk_bz_recs().is_prefix_of(self.header.recs())
        &&& (td > 1 ==> self.disk_bz_recs() == self.header.recs())
        &&& (tm > 1 && td == 1 ==> true)
        &&& (self.q0() == td - 1 ==> wb_recs(d[td - 1]).is_prefix_of(self.first_pending_recs()))
        // every block is well formed (used_bytes is the total size of its records)
        &&& block_wf(self.header.recs(), self.header.meta().block_header.used_bytes as int)
        &&& (forall|j: int| 0 <= j < self.flush_queue@.len() ==> block_wf((#[trigger] self.flush_queue@[j]).recs(), self.flush_queue@[j].meta().used_bytes as int))
        &&& (self.current_block matches Some(c) ==> block_wf(c.recs(), c.meta().used_bytes as int))
        &&& (forall|i: int| 1 <= i < td && i < d.len() ==> block_wf(wb_recs(#[trigger] d[i]), wb_meta(d[i]).used_bytes as int))
        &&& (d.len() > 0 && bz_meta(d[0]).wal_header.total_blocks >= 1 ==> block_wf(bz_recs(d[0]), bz_meta(d[0]).block_header.used_bytes as int))
    }
    // right after a force: memory and file agree, so a reader opened now returns view()
    pub closed spec fn synced(&self) -> bool {
        &&& self.inv()
        &&& self.disk().len() > 0
        &&& self.td() == self.total_blocks()
        &&& disk_log(self.disk()) =~= self.view()
        &&& disk_wf(self.disk(), self.block_size as int)
    }

    pub closed spec fn first_pending_recs(&self) -> Seq<Rec> {
        if self.flush_queue@.len() > 0 { self.flush_queue@[0].recs() } else { self.cur_recs() }
    }


//@fn crates/axmos-db/src/io/wal.rs | impl WriteAheadLog | perform_flush
//@ requires old(self).inv(),
//@ ensures
//@   [C17,C01:flush.disk_eq_view] r is Ok ==> disk_log(final(self).disk()) =~= old(self).view(),
//@   [C17:flush.view_kept] r is Ok ==> final(self).view() =~= old(self).view(),
//@   [C17:flush.keeps_inv] r is Ok ==> final(self).inv(),
//@   [C17:flush.synced] r is Ok ==> final(self).synced(),
//@   [C17:flush.last_lsn_kept] final(self).last_lsn_spec() == old(self).last_lsn_spec(),
//@   [C17:flush.frame] r is Ok ==> (final(self).total_blocks() == old(self).total_blocks() && final(self).entries() == old(self).entries() && final(self).block_size_spec() == old(self).block_size_spec()),
//@ loop 1
//@   invariant
//@     old(self).inv(),
//@     0 <= old(self).flush_queue@.len() - self.flush_queue@.len() <= old(self).flush_queue@.len(),
//@     self.header == old(self).header,
//@     self.current_block == old(self).current_block && self.block_size == old(self).block_size && self.file.tag() == old(self).file.tag(),
//@     self.flush_queue@ =~= old(self).flush_queue@.skip(old(self).flush_queue@.len() - self.flush_queue@.len()),
//@     dtd(self.disk()) == dtd(old(self).disk()) && dbz(self.disk()) == dbz(old(self).disk()),
//@     self.disk().len() >= old(self).disk().len(),
//@     forall|i: int| 1 <= i < old(self).q0() ==> #[trigger] self.disk()[i] == old(self).disk()[i],
//@     forall|k: int| 0 <= k < old(self).flush_queue@.len() - self.flush_queue@.len() ==> #[trigger] self.disk()[old(self).q0() + k] == old(self).flush_queue@[k].image(),
//@     self.disk().len() >= old(self).q0() + (old(self).flush_queue@.len() - self.flush_queue@.len()) || old(self).flush_queue@.len() - self.flush_queue@.len() == 0,
//@     old(self).flush_queue@.len() - self.flush_queue@.len() == 0 ==> self.disk() =~= old(self).disk(),
//@   ensures
//@     self.flush_queue@.len() == 0,
//@   decreases self.flush_queue@.len(),
//@ proof-before /let write_offset/#1
//@   lemma_off(block.meta().block_number, self.block_size);
//@ proof-before /self\.file\.write_all\(block\.as_ref\(\)\)/#1
//@   let jj = old(self).flush_queue@.len() - self.flush_queue@.len() - 1;
//@   assert(block == old(self).flush_queue@[jj]);
//@   assert(self.file.cursor() / self.file.tag() == block.meta().block_number);
//@   lemma_extend_pending(self.file.blocks(), block.meta().block_number as int, block.image());
//@   lemma_put_index(self.file.blocks(), block.meta().block_number as int, block.image());
//@ proof-before /let write_offset/#2
//@   lemma_off(block.meta().block_number, self.block_size);
//@ proof-before /self\.file\.write_all\(block\.as_ref\(\)\)/#2
//@   assert(self.file.cursor() / self.file.tag() == block.meta().block_number);
//@   lemma_extend_pending(self.file.blocks(), block.meta().block_number as int, block.image());
//@   lemma_put_index(self.file.blocks(), block.meta().block_number as int, block.image());
//@ proof-before /self\.file\.write_all\(self\.header\.as_ref\(\)\)/#-1
//@   lemma_put_header(self.file.blocks(), self.header.image(), old(self).total_blocks());
//@   lemma_put_index(self.file.blocks(), 0, self.header.image());
//@ proof-before /self\.file\.sync_all\(\)/#-1
//@   let o = *old(self);
//@   lemma_flush_view(o.disk(), self.disk(), o.flush_queue@, o.q0(), o.current_block);
//@   lemma_flush_view(o.disk(), self.disk(), o.flush_queue@, o.q0(), None);
//@   let d3 = self.disk();
//@   let bs = self.block_size as int;
//@   assert forall|j: int| 0 <= j < o.total_blocks() && j < d3.len() implies (#[trigger] d3[j]).len() == bs by {
//@       if j == 0 {
//@       } else if j < o.q0() {
//@           assert(d3[j] == o.disk()[j]);
//@       } else if j < o.q0() + o.flush_queue@.len() {
//@           assert(d3[o.q0() + (j - o.q0())] == o.flush_queue@[j - o.q0()].image());
//@       } else {
//@       }
//@   }
//@   assert forall|j: int| 1 <= j < o.total_blocks() && j < d3.len() implies block_wf(wb_recs(#[trigger] d3[j]), wb_meta(d3[j]).used_bytes as int) by {
//@       if j < o.q0() {
//@           assert(d3[j] == o.disk()[j]);
//@       } else if j < o.q0() + o.flush_queue@.len() {
//@           assert(d3[o.q0() + (j - o.q0())] == o.flush_queue@[j - o.q0()].image());
//@       } else {
//@       }
//@   }
//@end

//@fn crates/axmos-db/src/io/wal.rs | impl FileOperations for WriteAheadLog | truncate
//@ requires old(self).inv(),
//@ ensures
//@   [C17:truncate.empties] r is Ok ==> (final(self).view() =~= Seq::<Rec>::empty() && disk_log(final(self).disk()) =~= Seq::<Rec>::empty()),
//@   [C17:truncate.keeps_inv] r is Ok ==> final(self).inv(),
//@   [C17:truncate.resets_lsn] r is Ok ==> final(self).last_lsn_spec() is None,
//@end

//@fn crates/axmos-db/src/io/wal.rs | impl WriteAheadLog | reader
//@ requires old(self).synced(), 1 <= read_ahead_amount <= 0x1_0000,
//@ ensures
//@   [C17:roundtrip.reader_returns_view] r matches Ok(rd) ==> (rd.inv() && rd.remaining() =~= old(self).view()),
//@ proof-before /WalReader::new\(/
//@   lemma_ra(self.block_size, read_ahead_amount);
//@end

//@fn crates/axmos-db/src/io/wal.rs | impl WriteAheadLog | max_record_size
//@ ensures r == wb_usable(self.block_size as nat),
//@end

//@fn crates/axmos-db/src/io/wal.rs | impl WriteAheadLog | last_lsn
//@ ensures
//@   [C17:lsn.last_is_global] r == self.last_lsn_spec(),
//@end

//@fn crates/axmos-db/src/io/wal.rs | impl WriteAheadLog | get_next_block
//@ requires old(self).total_blocks() + 1 < MAX_BLOCKS(),
//@ ensures
//@   [C17:next_block.allocates_fresh_id] r == old(self).total_blocks() && final(self).total_blocks() == old(self).total_blocks() + 1,
//@   [C17:next_block.frame] final(self).header.recs() == old(self).header.recs() && final(self).header.size() == old(self).header.size() && final(self).current_block == old(self).current_block && final(self).flush_queue == old(self).flush_queue && final(self).file == old(self).file && final(self).block_size == old(self).block_size && final(self).header.meta().block_header == old(self).header.meta().block_header && final(self).last_lsn_spec() == old(self).last_lsn_spec() && final(self).entries() == old(self).entries(),
//@end

//@fn crates/axmos-db/src/io/wal.rs | impl WriteAheadLog | rotate_block
//@ use-lemmas lem::lemma_queue_recs_push
//@ requires old(self).inv(), old(self).total_blocks() + 1 < MAX_BLOCKS(), old(self).current_block is Some,
//@ ensures
//@   [C17:rotate.conserves] r is Ok && final(self).view() =~= old(self).view() && final(self).inv(),
//@   [C17:rotate.fresh_current] final(self).current_block matches Some(c) && c.recs().len() == 0 && c.meta().used_bytes == 0 && c.size() == old(self).block_size && final(self).block_size == old(self).block_size,
//@   [C17:rotate.frame] final(self).header.recs() == old(self).header.recs() && final(self).last_lsn_spec() == old(self).last_lsn_spec() && final(self).entries() == old(self).entries() && final(self).total_blocks() == old(self).total_blocks() + 1 && final(self).file == old(self).file,
//@end

//@fn crates/axmos-db/src/io/wal.rs | impl WriteAheadLog | push
//@ sub /IoError::new\(\s*(ErrorKind::\w+),.*?\)\s*\)\s*;/ => mk_err(\1));
//@ use-lemmas lem::lemma_queue_recs_push
//@ requires old(self).inv(), old(self).total_blocks() + 2 < MAX_BLOCKS(), old(self).entries() < 0xFFFF_FFFF,
//@ ensures
//@   [C17:push.size_guard] record@.size > wb_usable(old(self).block_size as nat) ==> (r is Err && final(self).view() =~= old(self).view()),
//@   [C17:push.appends] r is Ok ==> final(self).view() =~= old(self).view().push(record@),
//@   [C17:push.err_keeps_view] r is Err ==> final(self).view() =~= old(self).view(),
//@   [C17:push.keeps_inv] final(self).inv(),
//@   [C17:push.last_lsn] r is Ok ==> final(self).last_lsn_spec() == Some(record@.lsn),
//@   [C17,C01:push.leaves_disk_alone] final(self).disk() == old(self).disk(),
//@   [C17:push.stats] final(self).last_lsn_spec() == Some(record@.lsn) || (r is Err && final(self).last_lsn_spec() == old(self).last_lsn_spec()),
//@   [C17:push.growth] final(self).total_blocks() <= old(self).total_blocks() + 2 && final(self).entries() <= old(self).entries() + 1 && final(self).block_size_spec() == old(self).block_size_spec(),
//@end
}


// ---------------------------------------------------------------------------------------
// The commit chain (C01/C02): Session -> TransactionLogger -> Pager -> WriteAheadLog.
// Environment (bound by name): Pager is reduced to the one field these functions touch;
// SharedPager / the shared LSN cell are Arc<RwLock<_>> in the repository and are modelled
// with the lock's SEQUENTIAL semantics (write() = exclusive access), rule R8.
// ---------------------------------------------------------------------------------------
//@trusted [env] Arc<RwLock<Pager>> / Arc<RwLock<u64>>: write()/read() give access to the protected value (sequential semantics; schedules are property C14, not claimed)
//@trusted [env] Operation::into_record(lsn, tid, prev) builds a record with exactly these three fields and the operation's own kind (io/logger.rs; the kinds of Begin/Commit/Abort/End are checked on the real code by Kani unit logkinds)
//@trusted [env] TransactionContext::{commit_transaction, abort_transaction, is_open} do not touch the log (coordinator + page-zero header only)
//@item crates/axmos-db/src/storage/wal.rs | - | enum RecordType

pub open spec fn kind_code(k: RecordType) -> u8 {
    match k {
        RecordType::Begin => 0u8, RecordType::Commit => 1u8, RecordType::Abort => 2u8, RecordType::End => 3u8,
        RecordType::Update => 6u8, RecordType::Delete => 7u8, RecordType::Insert => 8u8,
        RecordType::Create => 9u8, RecordType::Drop => 10u8, RecordType::Alter => 11u8,
    }
}

pub trait Operation: Sized {
    spec fn kind(&self) -> RecordType;

    fn into_record(&self, lsn: Lsn, tid: TransactionId, prev_lsn: Option<Lsn>) -> (r: OwnedRecord)
        ensures r@.lsn == lsn, r@.tid == tid, r@.prev == prev_lsn, r@.kind == kind_code(self.kind()),
                r@.size <= wb_usable(MIN_BLOCK_SIZE() as nat) || !is_control(self.kind());
}

pub open spec fn is_control(k: RecordType) -> bool {
    k is Begin || k is Commit || k is Abort || k is End
}
pub open spec fn MIN_BLOCK_SIZE() -> int { 4096 }

pub struct Begin;
pub struct Commit;
pub struct Abort;
pub struct End;
impl Operation for Begin {
    spec fn kind(&self) -> RecordType { RecordType::Begin }
    #[verifier::external_body]
    fn into_record(&self, lsn: Lsn, tid: TransactionId, prev_lsn: Option<Lsn>) -> (r: OwnedRecord) { unimplemented!() }
}
impl Operation for Commit {
    spec fn kind(&self) -> RecordType { RecordType::Commit }
    #[verifier::external_body]
    fn into_record(&self, lsn: Lsn, tid: TransactionId, prev_lsn: Option<Lsn>) -> (r: OwnedRecord) { unimplemented!() }
}
impl Operation for Abort {
    spec fn kind(&self) -> RecordType { RecordType::Abort }
    #[verifier::external_body]
    fn into_record(&self, lsn: Lsn, tid: TransactionId, prev_lsn: Option<Lsn>) -> (r: OwnedRecord) { unimplemented!() }
}
impl Operation for End {
    spec fn kind(&self) -> RecordType { RecordType::End }
    #[verifier::external_body]
    fn into_record(&self, lsn: Lsn, tid: TransactionId, prev_lsn: Option<Lsn>) -> (r: OwnedRecord) { unimplemented!() }
}

pub struct Pager { wal: WriteAheadLog }

impl WriteAheadLog {
    // std::io::Write::flush for the log is perform_flush (io/wal.rs `impl Write for WriteAheadLog`)
//@fn crates/axmos-db/src/io/wal.rs | impl Write for WriteAheadLog | flush
//@ requires old(self).inv(),
//@ ensures
//@   [C01,C17:walflush.is_force] r is Ok ==> (disk_log(final(self).disk()) =~= old(self).view() && final(self).view() =~= old(self).view() && final(self).inv()),
//@   [C17:walflush.synced] r is Ok ==> final(self).synced(),
//@   [C01:walflush.keeps_lsn] final(self).last_lsn_spec() == old(self).last_lsn_spec(),
//@   [C01:walflush.frame] r is Ok ==> (final(self).total_blocks() == old(self).total_blocks() && final(self).entries() == old(self).entries() && final(self).block_size_spec() == old(self).block_size_spec()),
//@end
}

pub open spec fn lsn_lt_all(s: Seq<Rec>, lsn: u64) -> bool {
    forall|i: int| 0 <= i < s.len() ==> (#[trigger] s[i]).lsn < lsn
}

impl Pager {
    pub closed spec fn log(&self) -> Seq<Rec> { self.wal.view() }
    pub closed spec fn durable(&self) -> Seq<Rec> { disk_log(self.wal.disk()) }
    // log invariant seen from the pager: the WAL invariant, and the header's last LSN dominates
    // every LSN in the log (what makes `last + 1` fresh)
    pub closed spec fn inv(&self) -> bool {
        &&& self.wal.inv()
        &&& (match self.wal.last_lsn_spec() {
                Some(l) => (forall|i: int| 0 <= i < self.log().len() ==> (#[trigger] self.log()[i]).lsn <= l),
                None => self.log().len() == 0,
            })
        &&& self.wal.block_size_spec() >= MIN_BLOCK_SIZE()
    }
    // consumable resources (stated assumption: the log stays below 2^32 blocks / entries between truncations)
    pub closed spec fn used_blocks(&self) -> int { self.wal.total_blocks() }
    pub closed spec fn used_entries(&self) -> int { self.wal.entries() }
    pub closed spec fn used_lsn(&self) -> int { match self.wal.last_lsn_spec() { Some(l) => l as int, None => -1 } }
    pub open spec fn room(&self, n: int) -> bool {
        &&& self.used_blocks() + 2 * n < MAX_BLOCKS()
        &&& self.used_entries() + n <= 0xFFFF_FFFF
        &&& self.used_lsn() + n <= 0xFFFF_FFFF_FFFF_FFFF
    }
    pub open spec fn grows_by_at_most_one(&self, o: Pager) -> bool {
        self.used_blocks() <= o.used_blocks() + 2 && self.used_entries() <= o.used_entries() + 1 && self.used_lsn() <= o.used_lsn() + 1
    }

//@fn crates/axmos-db/src/io/pager.rs | impl Pager | push_to_log
//@ sub /\.map\(\|l\| l \+ 1\)/ => .map(|l: Lsn| -> (r: Lsn) requires l < 0xFFFF_FFFF_FFFF_FFFF ensures r == l + 1 { l + 1 })
//@ requires old(self).inv(), old(self).room(1), is_control(operation.kind()),
//@ ensures
//@   [C01:pushlog.keeps_inv] final(self).inv() && final(self).grows_by_at_most_one(*old(self)),
//@   [C17,C01:pushlog.lsn_strictly_increasing] r matches Ok(l) ==> lsn_lt_all(old(self).log(), l),
//@   [C17,C01:pushlog.appends_record] r matches Ok(l) ==> (final(self).log().len() == old(self).log().len() + 1 && final(self).log().last().lsn == l && final(self).log().last().tid == tid && final(self).log().last().prev == prev_lsn && final(self).log().last().kind == kind_code(operation.kind()) && final(self).log().drop_last() =~= old(self).log()),
//@   [C01:pushlog.err_keeps_log] r is Err ==> final(self).log() =~= old(self).log(),
//@   [C01:pushlog.keeps_durable] final(self).durable() == old(self).durable(),
//@end

//@fn crates/axmos-db/src/io/pager.rs | impl Pager | flush_wal
//@ requires old(self).inv(),
//@ ensures
//@   [C01:flush_wal.keeps_room] r is Ok ==> (final(self).used_blocks() == old(self).used_blocks() && final(self).used_entries() == old(self).used_entries() && final(self).used_lsn() == old(self).used_lsn()),
//@   [C01:flush_wal.forces] r is Ok ==> (final(self).durable() =~= old(self).log() && final(self).log() =~= old(self).log() && final(self).inv()),
//@end
}


pub struct SharedPager { inner: Pager }
impl SharedPager {
    #[verifier::external_body]
    pub fn write(&mut self) -> (r: &mut Pager)
        ensures *r == old(self).inner, final(self).inner == *final(r),
    { unimplemented!() }
}
pub struct SharedLsn { v: u64 }
impl SharedLsn {
    #[verifier::external_body]
    pub fn read(&self) -> (r: &u64)
        ensures *r == self.v,
    { unimplemented!() }
    #[verifier::external_body]
    pub fn write(&mut self) -> (r: &mut u64)
        ensures *r == old(self).v, final(self).v == *final(r),
    { unimplemented!() }
}
pub type RuntimeResult<T> = Result<T, IoError>;
pub type QueryRunnerResult<T> = Result<T, IoError>;

pub struct TransactionLogger { tid: TransactionId, pager: SharedPager, last_lsn: SharedLsn }

pub open spec fn is_rec(r: Rec, k: RecordType, tid: u64) -> bool { r.kind == kind_code(k) && r.tid == tid }

impl TransactionLogger {
    pub closed spec fn log(&self) -> Seq<Rec> { self.pager.inner.log() }
    pub closed spec fn durable(&self) -> Seq<Rec> { self.pager.inner.durable() }
    pub closed spec fn inv(&self) -> bool { self.pager.inner.inv() }
    pub open spec fn room(&self, n: int) -> bool { self.pg().room(n) }
    pub closed spec fn pg(&self) -> Pager { self.pager.inner }
    pub closed spec fn spec_tid(&self) -> u64 { self.tid }
    pub closed spec fn spec_last(&self) -> u64 { self.last_lsn.v }

//@fn crates/axmos-db/src/runtime/context.rs | impl TransactionLogger | log_operation
//@ mutself
//@ requires old(self).inv(), old(self).room(1), is_control(operation.kind()),
//@ ensures
//@   [C01,C02:logop.appends_own_record] r is Ok ==> (final(self).log().len() == old(self).log().len() + 1 && final(self).log().drop_last() =~= old(self).log() && is_rec(final(self).log().last(), operation.kind(), old(self).spec_tid()) && final(self).log().last().prev == Some(old(self).spec_last()) && final(self).spec_last() == final(self).log().last().lsn && lsn_lt_all(old(self).log(), final(self).log().last().lsn)),
//@   [C01:logop.err_keeps_log] r is Err ==> final(self).log() =~= old(self).log(),
//@   [C01:logop.frame] final(self).durable() == old(self).durable() && final(self).spec_tid() == old(self).spec_tid() && final(self).inv() && final(self).pg().grows_by_at_most_one(old(self).pg()),
//@end

//@fn crates/axmos-db/src/runtime/context.rs | impl TransactionLogger | log_commit
//@ mutself
//@ requires old(self).inv(), old(self).room(1),
//@ ensures
//@   [C01:log_commit.kind] r is Ok ==> (final(self).log().len() == old(self).log().len() + 1 && final(self).log().drop_last() =~= old(self).log() && is_rec(final(self).log().last(), RecordType::Commit, old(self).spec_tid())),
//@   [C01:log_commit.frame] final(self).durable() == old(self).durable() && final(self).spec_tid() == old(self).spec_tid() && final(self).inv() && final(self).pg().grows_by_at_most_one(old(self).pg()) && (r is Err ==> final(self).log() =~= old(self).log()),
//@end

//@fn crates/axmos-db/src/runtime/context.rs | impl TransactionLogger | log_abort
//@ mutself
//@ requires old(self).inv(), old(self).room(1),
//@ ensures
//@   [C02:log_abort.kind] r is Ok ==> (final(self).log().len() == old(self).log().len() + 1 && final(self).log().drop_last() =~= old(self).log() && is_rec(final(self).log().last(), RecordType::Abort, old(self).spec_tid())),
//@   [C02:log_abort.frame] final(self).durable() == old(self).durable() && final(self).spec_tid() == old(self).spec_tid() && final(self).inv() && final(self).pg().grows_by_at_most_one(old(self).pg()) && (r is Err ==> final(self).log() =~= old(self).log()),
//@end

//@fn crates/axmos-db/src/runtime/context.rs | impl TransactionLogger | log_begin
//@ mutself
//@ requires old(self).inv(), old(self).room(1),
//@ ensures
//@   [C02:log_begin.kind] r is Ok ==> (final(self).log().len() == old(self).log().len() + 1 && final(self).log().drop_last() =~= old(self).log() && is_rec(final(self).log().last(), RecordType::Begin, old(self).spec_tid())),
//@end

//@fn crates/axmos-db/src/runtime/context.rs | impl TransactionLogger | log_end
//@ mutself
//@ requires old(self).inv(), old(self).room(1),
//@ ensures
//@   [C01:log_end.forces_before_end] r is Ok ==> old(self).log().is_prefix_of(final(self).durable()),
//@   [C01,C02:log_end.appends_end] r is Ok ==> (final(self).log().len() == old(self).log().len() + 1 && final(self).log().drop_last() =~= old(self).log() && is_rec(final(self).log().last(), RecordType::End, old(self).spec_tid())),
//@   [C01:log_end.frame] final(self).spec_tid() == old(self).spec_tid() && (r is Ok ==> final(self).inv()) && (r is Ok ==> final(self).pg().grows_by_at_most_one(old(self).pg())),
//@end
}

#[verifier::external_body]
pub struct TransactionContext { _p: () }
impl TransactionContext {
    pub uninterp spec fn open_spec(&self) -> bool;
    #[verifier::external_body]
    pub fn is_open(&self) -> (r: bool) ensures r == self.open_spec() { unimplemented!() }
    #[verifier::external_body]
    pub fn commit_transaction(&mut self) -> (r: RuntimeResult<()>)
        ensures r is Ok ==> !final(self).open_spec(),
    { unimplemented!() }
    #[verifier::external_body]
    pub fn abort_transaction(&mut self) -> (r: RuntimeResult<()>)
        ensures r is Ok ==> !final(self).open_spec(),
    { unimplemented!() }
}

pub struct Session { ctx: TransactionContext, logger: TransactionLogger }

impl Session {
    pub closed spec fn log(&self) -> Seq<Rec> { self.logger.log() }
    pub closed spec fn durable(&self) -> Seq<Rec> { self.logger.durable() }
    pub closed spec fn inv(&self) -> bool { self.logger.inv() }
    pub open spec fn room(&self, n: int) -> bool { self.logger.room(n) }
    pub closed spec fn spec_tid(&self) -> u64 { self.logger.spec_tid() }
    pub closed spec fn is_open(&self) -> bool { self.ctx.open_spec() }

//@fn crates/axmos-db/src/tcp/session.rs | impl Session | commit_transaction
//@ requires old(self).inv(), old(self).room(2),
//@ ensures
//@   [C01:commit.durable_on_return] r is Ok ==> (final(self).durable().len() > old(self).log().len() && old(self).log().is_prefix_of(final(self).durable()) && is_rec(final(self).durable()[old(self).log().len() as int], RecordType::Commit, old(self).spec_tid())),
//@   [C01:commit.closes] r is Ok ==> (!final(self).is_open() && final(self).inv()),
//@end

//@fn crates/axmos-db/src/tcp/session.rs | impl Session | abort_transaction
//@ requires old(self).inv(), old(self).room(2),
//@ ensures
//@   [C02:abort.logs_abort_record] r is Ok ==> (final(self).durable().len() > old(self).log().len() && old(self).log().is_prefix_of(final(self).durable()) && is_rec(final(self).durable()[old(self).log().len() as int], RecordType::Abort, old(self).spec_tid())),
//@   [C02:abort.closes] r is Ok ==> (!final(self).is_open() && final(self).inv()),
//@end

//@fn crates/axmos-db/src/tcp/session.rs | impl Drop for Session | drop
//@ rename drop_session
//@ requires old(self).inv(), old(self).room(2),
//@ ensures
//@   [C01:drop.no_abort_after_commit] !old(self).is_open() ==> final(self).log() =~= old(self).log(),
//@end
}


// ---------------------------------------------------------------------------------------
// The reader (C17: reading back yields exactly disk_log, for every read-ahead >= 1 block)
// ---------------------------------------------------------------------------------------
//@trusted [env] MemBlock::record(offset) returns the record that starts at byte `offset` of the block's record area; a block's used_bytes is the total size of its records and every record has positive size (block_wf), for blocks decoded from disk images that the writer produced (wal unit: try_push keeps block_wf) -- checked bounded on the real code by Kani unit walbytes

// std functions used by the reader (assumed contracts of the standard library)
pub assume_specification[ usize::next_multiple_of ](x: usize, rhs: usize) -> (r: usize)
    requires rhs > 0, x + rhs <= usize::MAX,
    ensures r >= x, r as int % rhs as int == 0, r - x < rhs;


// stands for `a.min(b)` on usize (Ord::min is a provided trait method: not specifiable in this Verus)
pub fn min_usize(x: usize, y: usize) -> (r: usize)
    ensures r == (if x <= y { x } else { y }),
{ if x <= y { x } else { y } }

#[verifier::external_body]
pub struct RecordRef<'a> { _p: &'a () }
impl<'a> RecordRef<'a> {
    pub uninterp spec fn view(&self) -> Rec;
    #[verifier::external_body]
    pub fn total_size(&self) -> (r: usize) ensures r == self@.size { unimplemented!() }
}

impl BlockZero {
    #[verifier::external_body]
    pub fn as_mut(&mut self) -> (r: &mut [u8])
        ensures r@ == old(self).image(), final(self).image() == final(r)@,
    { unimplemented!() }

    #[verifier::external_body]
    pub fn record(&self, offset: u64) -> (r: RecordRef<'_>)
        requires [C17:reader.record_offset_valid] at_record(self.recs(), offset as int, pos_of(self.recs(), offset as int)) && pos_of(self.recs(), offset as int) < self.recs().len(),
        ensures r@ == self.recs()[pos_of(self.recs(), offset as int)],
    { unimplemented!() }
}
impl WalBlock {
    #[verifier::external_body]
    pub fn as_mut(&mut self) -> (r: &mut [u8])
        ensures r@ == old(self).image(), final(self).image() == final(r)@,
    { unimplemented!() }

    #[verifier::external_body]
    pub fn record(&self, offset: u64) -> (r: RecordRef<'_>)
        requires [C17:reader.record_offset_valid2] at_record(self.recs(), offset as int, pos_of(self.recs(), offset as int)) && pos_of(self.recs(), offset as int) < self.recs().len(),
        ensures r@ == self.recs()[pos_of(self.recs(), offset as int)],
    { unimplemented!() }
}

impl DBFile {
    // reads exactly one block at a block-aligned cursor; fails (UnexpectedEof) beyond the end of the file
    #[verifier::external_body]
    pub fn read_exact(&mut self, buf: &mut [u8]) -> (r: io::Result<()>)
        requires
            [C17:reader.block_aligned_reads] old(self).tag() > 0 && old(buf)@.len() == old(self).tag() && old(self).cursor() % old(self).tag() == 0,
        ensures
            final(self).blocks() == old(self).blocks(),
            final(self).tag() == old(self).tag(),
            final(buf)@.len() == old(buf)@.len(),
            r is Ok ==> ((old(self).cursor() / old(self).tag()) < old(self).blocks().len() && final(buf)@ == old(self).blocks()[(old(self).cursor() / old(self).tag()) as int]),
    { unimplemented!() }
}

// every block the on-disk header accounts for is well formed (what the writer's force establishes)
pub open spec fn disk_wf(b: Seq<Seq<u8>>, bs: int) -> bool {
    &&& b.len() >= 1
    &&& dtd(b) <= b.len()
    &&& bz_meta(b[0]).wal_header.total_blocks >= 1
    &&& block_wf(bz_recs(b[0]), bz_meta(b[0]).block_header.used_bytes as int)
    &&& (forall|i: int| 1 <= i < dtd(b) ==> block_wf(wb_recs(#[trigger] b[i]), wb_meta(b[i]).used_bytes as int))
    &&& (forall|i: int| 0 <= i < dtd(b) ==> (#[trigger] b[i]).len() == bs)
}

//@item crates/axmos-db/src/io/wal.rs | - | struct WalReader

impl<'a> WalReader<'a> {
    pub closed spec fn bs(&self) -> int { self.block_size as int }
    pub closed spec fn next_disk(&self) -> int { self.file_offset as int / self.block_size as int }
    pub closed spec fn disk_rest(&self) -> Seq<Rec> { numbered(self.file.blocks(), self.next_disk(), self.total_blocks as int) }

    pub closed spec fn core(&self) -> bool {
        let bs = self.block_size as int;
        &&& 0 < bs <= MAX_BLOCK_SIZE()
        &&& self.file.tag() == bs
        &&& disk_wf(self.file.blocks(), bs)
        &&& self.total_blocks as int == dtd(self.file.blocks())
        &&& self.total_blocks < MAX_BLOCKS()
        &&& self.read_ahead_size as int >= bs && self.read_ahead_size as int % bs == 0 && self.read_ahead_size < 0x1000_0000_0000
        &&& self.file_offset as int % bs == 0
        &&& 1 <= self.next_disk() <= self.total_blocks
        &&& self.header.image() == self.file.blocks()[0]
        // the queue holds the blocks just before next_disk
        &&& self.block_queue@.len() <= self.next_disk() - 1
        &&& (forall|j: int| 0 <= j < self.block_queue@.len() ==> (#[trigger] self.block_queue@[j]).image() == self.file.blocks()[self.next_disk() - self.block_queue@.len() + j])
    }
    pub closed spec fn cursor_ok(&self) -> bool {
        match self.current_block_index {
            None => at_record(self.header.recs(), self.current_block_offset as int, pos_of(self.header.recs(), self.current_block_offset as int)),
            Some(i) => i <= self.block_queue@.len() && (i < self.block_queue@.len() ==> at_record(self.block_queue@[i as int].recs(), self.current_block_offset as int, pos_of(self.block_queue@[i as int].recs(), self.current_block_offset as int))),
        }
    }
    pub closed spec fn inv(&self) -> bool { self.core() && self.cursor_ok() }
    // nothing buffered is left to return: the next record (if any) is on disk
    pub closed spec fn buffered_exhausted(&self) -> bool {
        match self.current_block_index {
            None => self.block_queue@.len() == 0 && self.current_block_offset as int >= self.header.meta().block_header.used_bytes,
            Some(i) => i >= self.block_queue@.len(),
        }
    }


//@fn crates/axmos-db/src/io/wal.rs | impl<'a> WalReader<'a> | new
//@ sub /\(read_ahead_size \/ block_size\)\.min\(total_blocks\.saturating_sub\(1\) as usize\)/ => min_usize(read_ahead_size / block_size, total_blocks.saturating_sub(1) as usize)
//@ requires
//@   0 < block_size <= MAX_BLOCK_SIZE(), old(file).tag() == block_size, disk_wf(old(file).blocks(), block_size as int),
//@   total_blocks as int == dtd(old(file).blocks()), total_blocks < MAX_BLOCKS(),
//@   1 <= read_ahead_size < 0x800_0000_0000,
//@ ensures
//@   [C17:reader.starts_at_disk_log] r matches Ok(rd) ==> (rd.inv() && rd.remaining() =~= disk_log(old(file).blocks())),
//@ proof-before /file\.read_exact\(header\.as_mut\(\)\)/
//@   vstd::arithmetic::div_mod::lemma_small_mod(0, block_size as nat);
//@   vstd::arithmetic::div_mod::lemma_div_basics_2(block_size as int);
//@ proof-before /let num_blocks_to_read/
//@   lemma_off(total_blocks, block_size);
//@   lemma_block_arith(block_size as int, block_size as int, total_blocks as int);
//@   lemma_multiple_ge(read_ahead_size as int, block_size as int);
//@   assert(read_ahead_size as int / block_size as int >= 1) by(nonlinear_arith) requires read_ahead_size as int >= block_size as int, block_size as int > 0;
//@ loop 1
//@   invariant
//@     0 < block_size <= MAX_BLOCK_SIZE(), total_blocks < MAX_BLOCKS(), file.tag() == block_size,
//@     disk_wf(file.blocks(), block_size as int), total_blocks as int == dtd(file.blocks()),
//@     file.blocks() == old(file).blocks(), file.tag() == old(file).tag(),
//@     header.image() == file.blocks()[0],
//@     file_offset as int % (block_size as int) == 0,
//@     1 <= file_offset as int / (block_size as int) <= total_blocks,
//@     total_blocks * block_size < 0x100_0000_0000_0000,
//@     qlen(block_queue@) == file_offset as int / (block_size as int) - 1,
//@     queue_mirrors(block_queue@, file.blocks(), 1),
//@ proof-before /if file_offset >= \(total_blocks as u64 \* block_size as u64\)/
//@   lemma_block_arith(file_offset as int, block_size as int, total_blocks as int);
//@ proof-after /file_offset \+= block_size as u64;/
//@   lemma_block_arith(file_offset as int - block_size as int, block_size as int, total_blocks as int);
//@ proof-before /Ok\(Self \{/
//@   lemma_numbered_queue_at(file.blocks(), block_queue@, 1);
//@   lemma_numbered_split(file.blocks(), 1, file_offset as int / (block_size as int), total_blocks as int);
//@   lemma_pos_zero(header.recs());
//@   assert(at_record(header.recs(), 0int, 0int));
//@end

//@fn crates/axmos-db/src/io/wal.rs | impl<'a> WalReader<'a> | header_used_bytes
//@ ensures r == self.header.meta().block_header.used_bytes as usize,
//@end

//@fn crates/axmos-db/src/io/wal.rs | impl<'a> WalReader<'a> | reload_blocks
//@ requires old(self).core(),
//@ ensures
//@   [C17:reload.conserves_rest] r matches Ok(true) ==> (final(self).block_queue@.len() > 0 && queue_recs(final(self).block_queue@) + final(self).disk_rest() =~= old(self).disk_rest()),
//@   [C17:reload.advances] r matches Ok(true) ==> final(self).next_disk() == old(self).next_disk() + final(self).block_queue@.len(),
//@   [C17:reload.false_only_at_end] r matches Ok(false) ==> (old(self).disk_rest().len() == 0 && final(self).disk_rest().len() == 0 && final(self).block_queue@ == old(self).block_queue@),
//@   [C17:reader.never_past_total_blocks] r is Ok ==> final(self).core(),
//@   [C17:reload.frame] final(self).current_block_index == old(self).current_block_index && final(self).current_block_offset == old(self).current_block_offset && final(self).header == old(self).header,
//@ proof-before /let last_valid_offset/
//@   lemma_off(self.total_blocks, self.block_size);
//@   lemma_block_arith(self.file_offset as int, self.block_size as int, self.total_blocks as int);
//@ loop 1
//@   invariant_except_break
//@     self.block_queue@.len() == axv_i,
//@   invariant
//@     self.file.blocks() == old(self).file.blocks(),
//@     self.file.tag() == old(self).file.tag(),
//@     self.block_size == old(self).block_size && self.total_blocks == old(self).total_blocks && self.read_ahead_size == old(self).read_ahead_size,
//@     self.header == old(self).header && self.current_block_index == old(self).current_block_index && self.current_block_offset == old(self).current_block_offset,
//@     old(self).core(),
//@     last_valid_offset == self.total_blocks * self.block_size,
//@     last_valid_offset < 0x100_0000_0000_0000,
//@     num_blocks >= 1,
//@     old(self).file_offset < last_valid_offset,
//@     self.file_offset as int % (self.block_size as int) == 0,
//@     old(self).next_disk() <= self.next_disk() <= self.total_blocks,
//@     self.block_queue@.len() == self.next_disk() - old(self).next_disk(),
//@     forall|j: int| 0 <= j < self.block_queue@.len() ==> (#[trigger] self.block_queue@[j]).image() == self.file.blocks()[old(self).next_disk() + j],
//@   ensures
//@     self.block_queue@.len() > 0,
//@ proof-before /if self\.file_offset >= last_valid_offset \{\s*break/
//@   lemma_block_arith(self.file_offset as int, self.block_size as int, self.total_blocks as int);
//@   lemma_block_arith(old(self).file_offset as int, self.block_size as int, self.total_blocks as int);
//@ proof-before /for axv_i in/
//@   assert(self.read_ahead_size as int / self.block_size as int >= 1) by(nonlinear_arith) requires self.read_ahead_size as int >= self.block_size as int, self.block_size as int > 0;
//@ proof-after /self\.file_offset \+= self\.block_size as u64;/
//@   lemma_block_arith(self.file_offset as int - self.block_size as int, self.block_size as int, self.total_blocks as int);
//@ proof-before /Ok\(!self\.block_queue\.is_empty\(\)\)/
//@   lemma_numbered_queue_at(self.file.blocks(), self.block_queue@, old(self).next_disk());
//@   lemma_numbered_split(self.file.blocks(), old(self).next_disk(), self.next_disk(), self.total_blocks as int);
//@end


//@fn crates/axmos-db/src/io/wal.rs | impl<'a> WalReader<'a> | next_ref
//@ requires old(self).inv(),
//@ ensures
//@   [C17:reader.next_is_disk_log_i] r matches Ok(Some(rec)) ==> (old(self).remaining().len() > 0 && rec@ == old(self).remaining()[0] && final(self).remaining() =~= old(self).remaining().skip(1)),
//@   [C17:reader.none_exactly_at_end] r matches Ok(None) ==> old(self).remaining().len() == 0,
//@   [C17:reader.keeps_inv] r is Ok ==> final(self).inv(),
//@ loop 1
//@   invariant
//@     self.inv(),
//@     self.remaining() =~= old(self).remaining(),
//@   decreases (if self.current_block_index is None { 1int } else { 0int }), self.total_blocks as int - self.next_disk(), (match self.current_block_index { Some(i) => self.block_queue@.len() - i as int, None => 0int }),
//@ proof-before /if self\.current_block_offset >= self\.header_used_bytes\(\)/
//@   lemma_cursor_facts(self.header.recs(), self.header.meta().block_header.used_bytes as int, self.current_block_offset as int);
//@ proof-before /self\.current_block_index = Some\(0\);/#1
//@   lemma_queue_recs_front(self.block_queue@);
//@   lemma_pos_zero(self.block_queue@[0].recs());
//@   lemma_queue_wf(self.file.blocks(), self.block_queue@, self.next_disk(), self.block_size as int);
//@ proof-before /self\.current_block_offset \+= record\.total_size\(\);/#1
//@   lemma_advance(self.header.recs(), self.header.meta().block_header.used_bytes as int, self.current_block_offset as int);
//@ proof-before /self\.current_block_index = Some\(0\);/#2
//@   lemma_queue_recs_front(self.block_queue@);
//@   lemma_pos_zero(self.block_queue@[0].recs());
//@   lemma_queue_wf(self.file.blocks(), self.block_queue@, self.next_disk(), self.block_size as int);
//@ proof-before /let used = self\.block_queue\[idx\]/
//@   lemma_queue_wf(self.file.blocks(), self.block_queue@, self.next_disk(), self.block_size as int);
//@   lemma_cursor_facts(self.block_queue@[idx as int].recs(), self.block_queue@[idx as int].meta().used_bytes as int, self.current_block_offset as int);
//@ proof-before /self\.current_block_index = Some\(idx \+ 1\);/
//@   lemma_queue_recs_front(self.block_queue@.skip(idx as int + 1));
//@   if idx + 1 < self.block_queue@.len() {
//@       assert(self.block_queue@.skip(idx as int + 1).skip(1) =~= self.block_queue@.skip(idx as int + 2));
//@       lemma_pos_zero(self.block_queue@[idx as int + 1].recs());
//@       assert(self.block_queue@.skip(idx as int + 1)[0] == self.block_queue@[idx as int + 1]);
//@   }
//@ proof-before /self\.current_block_offset \+= record\.total_size\(\);/#2
//@   lemma_advance(self.block_queue@[idx as int].recs(), self.block_queue@[idx as int].meta().used_bytes as int, self.current_block_offset as int);
//@end

    // what is still to be returned
    pub closed spec fn remaining(&self) -> Seq<Rec> {
        match self.current_block_index {
            None => self.header.recs().skip(pos_of(self.header.recs(), self.current_block_offset as int)) + queue_recs(self.block_queue@) + self.disk_rest(),
            Some(i) => (if i < self.block_queue@.len() {
                            self.block_queue@[i as int].recs().skip(pos_of(self.block_queue@[i as int].recs(), self.current_block_offset as int))
                                + queue_recs(self.block_queue@.skip(i as int + 1))
                        } else { Seq::<Rec>::empty() }) + self.disk_rest(),
        }
    }
}

pub open spec fn qlen(q: Seq<WalBlock>) -> int { q.len() as int }
pub open spec fn queue_mirrors(q: Seq<WalBlock>, d: Seq<Seq<u8>>, from: int) -> bool {
    forall|j: int| 0 <= j < q.len() ==> (#[trigger] q[j]).image() == d[from + j]
}

// the record index at byte offset `off` (the k with off_of(k) == off)
pub open spec fn pos_of(recs: Seq<Rec>, off: int) -> int {
    choose|k: int| at_record(recs, off, k)
}

// ---------------------------------------------------------------------------------------
// lemmas about sequences of blocks
// ---------------------------------------------------------------------------------------
mod lem {
    use super::*;
    pub(crate) broadcast proof fn lemma_queue_recs_push(q: Seq<WalBlock>, b: WalBlock)
        ensures #[trigger] queue_recs(q.push(b)) == queue_recs(q) + b.recs(),
    {
        assert(q.push(b).drop_last() == q);
    }
}


pub proof fn lemma_off(a: u64, b: usize)
    requires a < MAX_BLOCKS(), 0 < b <= MAX_BLOCK_SIZE(),
    ensures a * b < 0x100_0000_0000_0000, (a * b) % (b as int) == 0, (a * b) / (b as int) == a,
{
    vstd::arithmetic::mul::lemma_mul_strict_inequality(a as int, 0x1_0000_0000, b as int);
    vstd::arithmetic::mul::lemma_mul_inequality(b as int, 0x100_0000, 0x1_0000_0000);
    vstd::arithmetic::mul::lemma_mul_is_commutative(b as int, 0x1_0000_0000);
    assert(0x1_0000_0000 * 0x100_0000 == 0x100_0000_0000_0000) by(compute);
    vstd::arithmetic::div_mod::lemma_mod_multiples_basic(a as int, b as int);
    vstd::arithmetic::div_mod::lemma_div_multiples_vanish(a as int, b as int);
    vstd::arithmetic::mul::lemma_mul_is_commutative(a as int, b as int);
}

pub proof fn lemma_put_index(d: Seq<Seq<u8>>, p: int, img: Seq<u8>)
    requires p >= 0,
    ensures
        put_block(d, p, img).len() >= d.len(),
        put_block(d, p, img).len() > p,
        put_block(d, p, img)[p] == img,
        forall|i: int| 0 <= i < d.len() && i != p ==> #[trigger] put_block(d, p, img)[i] == d[i],
        forall|i: int| d.len() <= i < p ==> #[trigger] put_block(d, p, img)[i] == zero_hole(),
{
}

pub proof fn lemma_numbered_prefix(d: Seq<Seq<u8>>, a: int, b: int, c: int)
    requires a <= b <= c,
    ensures numbered(d, a, b).is_prefix_of(numbered(d, a, c)),
    decreases c - b,
{
    if b < c {
        lemma_numbered_prefix(d, a, b, c - 1);
    }
}

pub proof fn lemma_numbered_split(d: Seq<Seq<u8>>, a: int, b: int, c: int)
    requires a <= b <= c,
    ensures numbered(d, a, c) =~= numbered(d, a, b) + numbered(d, b, c),
    decreases c - b,
{
    if b < c {
        lemma_numbered_split(d, a, b, c - 1);
    }
}

pub proof fn lemma_numbered_queue(d: Seq<Seq<u8>>, q: Seq<WalBlock>, q0: int)
    requires forall|k: int| 0 <= k < q.len() ==> #[trigger] d[q0 + k] == q[k].image(),
    ensures numbered(d, q0, q0 + q.len()) =~= queue_recs(q),
    decreases q.len(),
{
    if q.len() > 0 {
        let q1 = q.drop_last();
        assert forall|k: int| 0 <= k < q1.len() implies #[trigger] d[q0 + k] == q1[k].image() by { assert(q1[k] == q[k]); }
        lemma_numbered_queue(d, q1, q0);
        assert(d[q0 + (q.len() - 1)] == q[q.len() - 1].image());
    }
}

// writing a pending numbered block p (at or beyond the last block the on-disk header accounts
// for) never removes a readable record
pub proof fn lemma_extend_pending(d: Seq<Seq<u8>>, p: int, img: Seq<u8>)
    requires
        p >= 1,
        dtd(d) > 1 ==> dtd(d) <= d.len(),
        p >= dtd(d) || (p == dtd(d) - 1 && p < d.len() && wb_recs(d[p]).is_prefix_of(wb_recs(img))),
    ensures
        log_extends(d, put_block(d, p, img)),
        dtd(put_block(d, p, img)) == dtd(d),
        dbz(put_block(d, p, img)) == dbz(d),
{
    axiom_hole_decodes_empty();
    lemma_put_index(d, p, img);
    let d2 = put_block(d, p, img);
    let td = dtd(d);
    if d.len() == 0 {
        assert(d2[0] == zero_hole());
        assert(numbered(d, 1, 1) =~= Seq::<Rec>::empty());
        assert(numbered(d2, 1, 1) =~= Seq::<Rec>::empty());
    } else {
        assert(d2[0] == d[0]);
        if p >= td {
            assert forall|i: int| 1 <= i < td implies d[i] == d2[i] by { }
            lemma_numbered_same(d, d2, 1, td);
        } else {
            // p == td - 1: the last accounted block is rewritten with an extension of itself
            assert forall|i: int| 1 <= i < td - 1 implies d[i] == d2[i] by { }
            lemma_numbered_same(d, d2, 1, td - 1);
            assert(numbered(d, 1, td) =~= numbered(d, 1, td - 1) + wb_recs(d[td - 1]));
            assert(numbered(d2, 1, td) =~= numbered(d2, 1, td - 1) + wb_recs(img));
        }
    }
}

// writing block zero with a header that accounts for tm >= td blocks, all present
pub proof fn lemma_put_header(d: Seq<Seq<u8>>, img: Seq<u8>, tm: int)
    requires
        bz_meta(img).wal_header.total_blocks == tm,
        tm >= dtd(d),
        tm >= 1,
        tm == 1 || tm <= d.len(),
        dtd(d) > 1 ==> dtd(d) <= d.len(),
        dbz(d).is_prefix_of(bz_recs(img)),
        dtd(d) > 1 ==> dbz(d) == bz_recs(img),
    ensures
        log_extends(d, put_block(d, 0, img)),
        disk_log(put_block(d, 0, img)) =~= bz_recs(img) + numbered(d, 1, tm),
        dtd(put_block(d, 0, img)) == tm,
        dbz(put_block(d, 0, img)) == bz_recs(img),
{
    lemma_put_index(d, 0, img);
    let d2 = put_block(d, 0, img);
    assert(d2[0] == img);
    assert forall|i: int| 1 <= i < tm implies d[i] == d2[i] by { }
    lemma_numbered_same(d, d2, 1, tm);
    lemma_numbered_prefix(d, 1, dtd(d), tm);
    if dtd(d) == 1 {
        assert(numbered(d, 1, 1) =~= Seq::<Rec>::empty());
    }
}

pub open spec fn opt_recs(c: Option<WalBlock>) -> Seq<Rec> {
    match c { Some(b) => b.recs(), None => Seq::<Rec>::empty() }
}

pub proof fn lemma_flush_view(od: Seq<Seq<u8>>, d2: Seq<Seq<u8>>, q: Seq<WalBlock>, q0: int, cur: Option<WalBlock>)
    requires
        1 <= q0,
        forall|i: int| 1 <= i < q0 ==> #[trigger] d2[i] == od[i],
        forall|k: int| 0 <= k < q.len() ==> #[trigger] d2[q0 + k] == q[k].image(),
        cur matches Some(c) ==> d2[q0 + q.len()] == c.image(),
    ensures
        numbered(d2, 1, q0 + q.len() + (if cur is Some { 1int } else { 0int })) =~= numbered(od, 1, q0) + queue_recs(q) + opt_recs(cur),
{
    let n = q.len() as int;
    let tm = q0 + n + (if cur is Some { 1int } else { 0int });
    lemma_numbered_same(d2, od, 1, q0);
    lemma_numbered_queue(d2, q, q0);
    lemma_numbered_split(d2, 1, q0, q0 + n);
    lemma_numbered_split(d2, 1, q0 + n, tm);
    if cur is Some {
        assert(numbered(d2, q0 + n, q0 + n + 1) =~= numbered(d2, q0 + n, q0 + n) + wb_recs(d2[q0 + n]));
        assert(numbered(d2, q0 + n, q0 + n) =~= Seq::<Rec>::empty());
    } else {
        assert(numbered(d2, q0 + n, q0 + n) =~= Seq::<Rec>::empty());
    }
}



pub proof fn lemma_off_monotone(recs: Seq<Rec>, a: int, b: int)
    requires 0 <= a < b <= recs.len(), forall|i: int| 0 <= i < recs.len() ==> (#[trigger] recs[i]).size > 0,
    ensures off_of(recs, a) < off_of(recs, b),
    decreases b,
{
    if a < b - 1 { lemma_off_monotone(recs, a, b - 1); }
}

pub proof fn lemma_pos_unique(recs: Seq<Rec>, off: int, k: int)
    requires at_record(recs, off, k), forall|i: int| 0 <= i < recs.len() ==> (#[trigger] recs[i]).size > 0,
    ensures pos_of(recs, off) == k,
{
    let c = pos_of(recs, off);
    assert(at_record(recs, off, c));   // choose: k is a witness
    if c < k { lemma_off_monotone(recs, c, k); }
    if k < c { lemma_off_monotone(recs, k, c); }
}

pub proof fn lemma_pos_zero(recs: Seq<Rec>)
    requires forall|i: int| 0 <= i < recs.len() ==> (#[trigger] recs[i]).size > 0,
    ensures pos_of(recs, 0) == 0, at_record(recs, 0, 0), at_record(recs, 0, pos_of(recs, 0)), recs.skip(0) =~= recs,
{
    assert(at_record(recs, 0, 0));
    lemma_pos_unique(recs, 0, 0);
}

// at a valid cursor: exhausted iff at the end; otherwise the cursor addresses a record
pub proof fn lemma_cursor_facts(recs: Seq<Rec>, used: int, off: int)
    requires block_wf(recs, used), at_record(recs, off, pos_of(recs, off)),
    ensures
        at_record(recs, off, pos_of(recs, off)),
        off >= used ==> (pos_of(recs, off) == recs.len() && recs.skip(pos_of(recs, off)) =~= Seq::<Rec>::empty()),
        off < used ==> pos_of(recs, off) < recs.len(),
{
    let k = pos_of(recs, off);
    if k < recs.len() { lemma_off_monotone(recs, k, recs.len() as int); }
}

// consuming the record at a valid cursor moves to the next record
pub proof fn lemma_advance(recs: Seq<Rec>, used: int, off: int)
    requires block_wf(recs, used), at_record(recs, off, pos_of(recs, off)), off < used,
    ensures
        ({ let k = pos_of(recs, off);
           &&& k < recs.len()
           &&& at_record(recs, off + recs[k].size, k + 1)
           &&& pos_of(recs, off + recs[k].size) == k + 1
           &&& at_record(recs, off + recs[k].size, pos_of(recs, off + recs[k].size))
           &&& recs.skip(k).len() > 0
           &&& recs.skip(k)[0] == recs[k]
           &&& recs.skip(k).skip(1) =~= recs.skip(k + 1)
           &&& off + recs[k].size <= used }),
{
    lemma_cursor_facts(recs, used, off);
    let k = pos_of(recs, off);
    assert(at_record(recs, off + recs[k].size, k + 1));
    lemma_pos_unique(recs, off + recs[k].size, k + 1);
    if k + 1 < recs.len() { lemma_off_monotone(recs, k + 1, recs.len() as int); }
}

pub proof fn lemma_queue_recs_front(q: Seq<WalBlock>)
    ensures q.len() > 0 ==> queue_recs(q) =~= q[0].recs() + queue_recs(q.skip(1)),
            q.len() == 0 ==> queue_recs(q) =~= Seq::<Rec>::empty(),
    decreases q.len(),
{
    if q.len() > 1 {
        let dl = q.drop_last();
        lemma_queue_recs_front(dl);
        assert(dl.skip(1) =~= q.skip(1).drop_last());
        assert(q.skip(1).last() == q.last());
        assert(dl[0] == q[0]);
        assert(queue_recs(q) =~= queue_recs(dl) + q.last().recs());
        assert(queue_recs(q.skip(1)) =~= queue_recs(q.skip(1).drop_last()) + q.skip(1).last().recs());
    } else if q.len() == 1 {
        assert(q.drop_last().len() == 0);
        assert(queue_recs(q.drop_last()) =~= Seq::<Rec>::empty());
        assert(q.skip(1).len() == 0);
        assert(queue_recs(q.skip(1)) =~= Seq::<Rec>::empty());
        assert(queue_recs(q) =~= queue_recs(q.drop_last()) + q.last().recs());
    }
}

// blocks buffered from a well-formed file are well formed
pub proof fn lemma_queue_wf(d: Seq<Seq<u8>>, q: Seq<WalBlock>, next: int, bs: int)
    requires
        disk_wf(d, bs), 1 <= next <= dtd(d), q.len() <= next - 1,
        forall|j: int| 0 <= j < q.len() ==> (#[trigger] q[j]).image() == d[next - q.len() + j],
    ensures
        forall|j: int| 0 <= j < q.len() ==> block_wf((#[trigger] q[j]).recs(), q[j].meta().used_bytes as int),
{
    assert forall|j: int| 0 <= j < q.len() implies block_wf((#[trigger] q[j]).recs(), q[j].meta().used_bytes as int) by {
        let i = next - q.len() + j;
        assert(1 <= i < dtd(d));
        assert(block_wf(wb_recs(d[i]), wb_meta(d[i]).used_bytes as int));
    }
}

pub proof fn lemma_multiple_ge(r: int, bs: int)
    requires bs > 0, r > 0, r % bs == 0,
    ensures r >= bs,
{
    vstd::arithmetic::div_mod::lemma_fundamental_div_mod(r, bs);
    let q = r / bs;
    if q <= 0 {
        vstd::arithmetic::mul::lemma_mul_inequality(q, 0, bs);
        vstd::arithmetic::mul::lemma_mul_is_commutative(bs, q);
    } else {
        vstd::arithmetic::mul::lemma_mul_inequality(1, q, bs);
        vstd::arithmetic::mul::lemma_mul_is_commutative(bs, q);
    }
}

pub proof fn lemma_ra(bs: usize, n: usize)
    requires 0 < bs <= MAX_BLOCK_SIZE(), 1 <= n <= 0x1_0000,
    ensures 1 <= bs * n <= 0x100_0000_0000,
{
    vstd::arithmetic::mul::lemma_mul_inequality(1, n as int, bs as int);       // 1*bs <= n*bs
    vstd::arithmetic::mul::lemma_mul_inequality(n as int, 0x1_0000, bs as int); // n*bs <= 0x1_0000*bs
    vstd::arithmetic::mul::lemma_mul_inequality(bs as int, 0x100_0000, 0x1_0000); // bs*0x1_0000 <= 0x100_0000*0x1_0000
    vstd::arithmetic::mul::lemma_mul_is_commutative(bs as int, n as int);
    vstd::arithmetic::mul::lemma_mul_is_commutative(bs as int, 0x1_0000);
    assert(0x100_0000 * 0x1_0000 == 0x100_0000_0000) by(compute);
}

pub proof fn lemma_block_arith(off: int, bs: int, t: int)
    requires bs > 0, off >= 0, off % bs == 0, t >= 0,
    ensures
        (off + bs) % bs == 0,
        (off + bs) / bs == off / bs + 1,
        (off >= t * bs) == (off / bs >= t),
        off == (off / bs) * bs,
{
    vstd::arithmetic::div_mod::lemma_fundamental_div_mod(off, bs);
    vstd::arithmetic::div_mod::lemma_div_plus_one(off, bs);
    vstd::arithmetic::div_mod::lemma_mod_adds(off, bs, bs);
    vstd::arithmetic::mul::lemma_mul_is_commutative(bs, off / bs);
    let q = off / bs;
    assert(off == q * bs);
    if q >= t {
        vstd::arithmetic::mul::lemma_mul_inequality(t, q, bs);
    } else {
        vstd::arithmetic::mul::lemma_mul_strict_inequality(q, t, bs);
    }
}

pub proof fn lemma_numbered_queue_at(d: Seq<Seq<u8>>, q: Seq<WalBlock>, q0: int)
    requires forall|k: int| 0 <= k < q.len() ==> (#[trigger] q[k]).image() == d[q0 + k],
    ensures numbered(d, q0, q0 + q.len()) =~= queue_recs(q),
    decreases q.len(),
{
    if q.len() > 0 {
        let q1 = q.drop_last();
        assert forall|k: int| 0 <= k < q1.len() implies (#[trigger] q1[k]).image() == d[q0 + k] by { assert(q1[k] == q[k]); }
        lemma_numbered_queue_at(d, q1, q0);
        assert(q[q.len() - 1].image() == d[q0 + (q.len() - 1)]);
    }
}

pub proof fn lemma_numbered_same(a: Seq<Seq<u8>>, b: Seq<Seq<u8>>, from: int, to: int)
    requires forall|j: int| from <= j < to ==> a[j] == b[j],
    ensures numbered(a, from, to) == numbered(b, from, to),
    decreases to - from,
{
    if from < to { lemma_numbered_same(a, b, from, to - 1); }
}

} // verus!
