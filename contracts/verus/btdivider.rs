//@unit name=btdivider props=C10
//@strip-pub
// Unit `btdivider`: the one step of Btree::balance that decides WHICH KEY separates an interior
// sibling's right-most subtree from the next sibling when the siblings' cells are gathered for
// redistribution (the `if let Some(right_most_child_id) = right_child && next_sibling.is_some()`
// block, checked as a function of the values it reads, R11).
//   C10 "every key that was inserted is found": that key must be a separator of the two subtrees:
//   greater than every key on the left, not greater than any key on the right. The separator the
//   PARENT holds for the sibling is one by the tree invariant; the first cell of the next sibling's
//   first child is one only if that child is a leaf (fix e195cff: keys were lost to searches in trees
//   of depth 4). The gathered divider is the parent's separator, pointing at the right-most child.
//@trusted [env] Btree::get_page_mut, BtreePage::{num_slots, owned_cell, child}, Cell::set_left_child, VecDeque::push_back at the contracts below (a page is an abstract sequence of (key, left child) cells)
//@trusted [pre] the condition of the extracted block (`right_child` is Some(right_most_child_id), a next sibling exists) and `slot_to_remove` being the slot of the current sibling in the parent are facts of the dropped surroundings
//@trusted [outside] the rest of Btree::balance (gathering, distribution, re-linking, the leaf case) -- 800 lines over pager-backed pages
use vstd::prelude::*;
use std::collections::VecDeque;

verus! {

pub struct BtreeError { pub code: u8 }
pub type BtreeResult<T> = Result<T, BtreeError>;
pub type PageId = u64;

pub struct Cell { pub key: u64, pub left: Option<PageId> }
impl Cell {
    pub fn set_left_child(&mut self, c: Option<PageId>) ensures final(self).key == old(self).key, final(self).left == c { self.left = c; }
    pub fn left_child(&self) -> (r: Option<PageId>) ensures r == self.left { self.left }
}

#[verifier::external_body]
pub struct BtreePage { _p: () }
impl BtreePage {
    pub uninterp spec fn cells(&self) -> Seq<Cell>;
    #[verifier::external_body]
    pub fn num_slots(&self) -> (r: usize) ensures r == self.cells().len() { unimplemented!() }
    #[verifier::external_body]
    pub fn owned_cell(&self, slot: usize) -> (r: Cell) requires slot < self.cells().len(), ensures r == self.cells()[slot as int] { unimplemented!() }
    #[verifier::external_body]
    pub fn child(&self, slot: usize) -> (r: Option<PageId>) { unimplemented!() }
}

#[verifier::external_body]
pub struct Btree { _p: () }
impl Btree {
    pub uninterp spec fn page(&self, id: PageId) -> BtreePage;
    #[verifier::external_body]
    pub fn get_page_mut(&mut self, id: PageId) -> (r: BtreeResult<&mut BtreePage>)
        ensures r matches Ok(p) ==> *p == old(self).page(id) && final(self).page(id) == *final(p) && (forall|o: PageId| o != id ==> #[trigger] final(self).page(o) == old(self).page(o)),
            r is Err ==> (forall|o: PageId| #[trigger] final(self).page(o) == old(self).page(o)) { unimplemented!() }

//@fn crates/axmos-db/src/tree/bplustree.rs | impl<Acc> Btree<Acc> | balance
//@ arm /if let Some\(right_most_child_id\) = right_child\s*&& next_sibling\.is_some\(\)\s*\{/ => fn gather_right_divider(&mut self, parent_page_id: PageId, slot_to_remove: usize, right_most_child_id: PageId, next_sibling: Option<PageId>, cells: &mut VecDeque<Cell>) -> BtreeResult<()>
//@ arm-tail Ok(())
//@ ensures
//@   [C10:balance.the_gathered_divider_is_the_separator_the_parent_holds] r is Ok && slot_to_remove < old(self).page(parent_page_id).cells().len() ==> final(cells)@ == old(cells)@.push(Cell { key: old(self).page(parent_page_id).cells()[slot_to_remove as int].key, left: Some(right_most_child_id) }),
//@   [C10:balance.nothing_is_gathered_for_the_parents_right_most_child] r is Ok && slot_to_remove >= old(self).page(parent_page_id).cells().len() ==> final(cells)@ == old(cells)@,
//@   [C10:balance.gathering_a_divider_changes_no_page] forall|o: PageId| #[trigger] final(self).page(o).cells() == old(self).page(o).cells(),
//@end
}

} // verus!
