//@unit name=btsearch props=C10
//@strip-pub
// Unit `btsearch`: in-page search and child routing of the B+tree (C10: a lookup finds every
// key that is present; every separator routes correctly).
//@trusted [env] BtreePage (slotted page over raw memory) is an abstract sequence of cells; each cell has an abstract key value cellv(i): int and an optional left child; num_slots/cell/id/right_child are pure observers
//@trusted [env] CellComparator::compare_cell_payload(key, cell, cursor) returns the order of the search key's abstract value kv(key, cursor) against the cell's, or an I/O error (overflow reassembly); that this order is a total order consistent across calls is the assumption backed by C19's obligations on DataType comparison
//@trusted [pre] cells of a page are strictly increasing in key order (representation invariant of B+tree pages; established by insert/balance, which are outside this unit)
use vstd::prelude::*;

verus! {

type PageId = u64;
const PAGE_ZERO: PageId = 0;

pub enum Ordering { Less, Equal, Greater }

pub open spec fn cmp_int(a: int, b: int) -> Ordering {
    if a < b { Ordering::Less } else if a == b { Ordering::Equal } else { Ordering::Greater }
}

pub struct BtreeError { pub code: u8 }
pub type BtreeResult<T> = Result<T, BtreeError>;

pub struct Position(pub PageId, pub usize);
pub type BtreePagePosition = Position;
impl Position {
    pub fn new(entry: PageId, slot: usize) -> (r: Position)
        ensures r.0 == entry, r.1 == slot,
    { Position(entry, slot) }
}

//@item crates/axmos-db/src/tree/bplustree.rs | - | enum SearchResult

#[verifier::external_body]
pub struct CellHeader { _p: () }
impl CellHeader {
    pub uninterp spec fn left(&self) -> Option<PageId>;
    #[verifier::external_body]
    pub fn left_child(&self) -> (r: Option<PageId>) ensures r == self.left() { unimplemented!() }
}

#[verifier::external_body]
#[derive(Clone, Copy)]
pub struct CellRef<'a> { _p: &'a () }
impl<'a> CellRef<'a> {
    pub uninterp spec fn v(&self) -> int;
    pub uninterp spec fn left(&self) -> Option<PageId>;
    #[verifier::external_body]
    pub fn metadata(&self) -> (r: &CellHeader) ensures r.left() == self.left() { unimplemented!() }
}

#[verifier::external_body]
pub struct BtreePage { _p: () }
impl BtreePage {
    pub uninterp spec fn nslots(&self) -> nat;
    pub uninterp spec fn cellv(&self, i: int) -> int;
    pub uninterp spec fn cell_left(&self, i: int) -> Option<PageId>;
    pub uninterp spec fn pid(&self) -> PageId;
    pub uninterp spec fn rchild(&self) -> Option<PageId>;

    pub open spec fn sorted(&self) -> bool {
        forall|i: int, j: int| 0 <= i < j < self.nslots() ==> self.cellv(i) < self.cellv(j)
    }

    #[verifier::external_body]
    pub fn num_slots(&self) -> (r: usize) ensures r == self.nslots() { unimplemented!() }
    #[verifier::external_body]
    pub fn id(&self) -> (r: PageId) ensures r == self.pid() { unimplemented!() }
    #[verifier::external_body]
    pub fn right_child(&self) -> (r: Option<PageId>) ensures r == self.rchild() { unimplemented!() }
    #[verifier::external_body]
    pub fn cell(&self, index: usize) -> (r: CellRef<'_>)
        requires [C10:search.cell_index_in_bounds] index < self.nslots(),
        ensures r.v() == self.cellv(index as int), r.left() == self.cell_left(index as int),
    { unimplemented!() }
}

#[verifier::external_body]
pub struct CellComparator { _p: () }
impl CellComparator {
    pub uninterp spec fn kv(&self, key: Seq<u8>, cursor: usize) -> int;
    #[verifier::external_body]
    pub fn compare_cell_payload(&self, target: &[u8], cell: CellRef<'_>, target_cursor: usize) -> (r: BtreeResult<Ordering>)
        ensures r matches Ok(o) ==> o == cmp_int(self.kv(target@, target_cursor), cell.v()),
    { unimplemented!() }
}

pub open spec fn res_notfound(r: SearchResult, rc: PageId, n: usize) -> bool {
    r matches SearchResult::NotFound(p) && p.0 == rc && p.1 == n
}
pub open spec fn res_found_at(r: SearchResult, page: &BtreePage, kv: int) -> bool {
    r matches SearchResult::Found(p) && p.1 < page.nslots() && kv < page.cellv(p.1 as int)
        && (forall|j: int| 0 <= j < p.1 ==> page.cellv(j) <= kv)
        && p.0 == (match page.cell_left(p.1 as int) { Some(c) => c, None => PAGE_ZERO })
}

pub struct Btree { _p: () }

impl Btree {
//@fn crates/axmos-db/src/tree/bplustree.rs | impl<Acc> Btree<Acc> | binary_search_page
//@ requires page.sorted(),
//@ ensures
//@   [C10:search.found_is_the_key] r matches Ok(SearchResult::Found(p)) ==> (p.0 == page.pid() && p.1 < page.nslots() && page.cellv(p.1 as int) == comparator.kv(search_key@, target_cursor)),
//@   [C10:search.found_iff_present] r matches Ok(SearchResult::NotFound(p)) ==> (forall|i: int| 0 <= i < page.nslots() ==> page.cellv(i) != comparator.kv(search_key@, target_cursor)),
//@   [C10:search.notfound_position] r matches Ok(SearchResult::NotFound(p)) ==> (p.0 == page.pid() && p.1 == page.nslots()),
//@ loop 1
//@   invariant
//@     0 <= left <= right <= page.nslots(),
//@     slot_count == right - left,
//@     last_slot == page.nslots(),
//@     page.sorted(),
//@     forall|i: int| 0 <= i < left ==> page.cellv(i) < comparator.kv(search_key@, target_cursor),
//@     forall|i: int| right <= i < page.nslots() ==> page.cellv(i) > comparator.kv(search_key@, target_cursor),
//@   decreases right - left,
//@end

//@fn crates/axmos-db/src/tree/bplustree.rs | impl<Acc> Btree<Acc> | find_child_on_page
//@ requires page.sorted(),
//@ ensures
//@   [C10:route.first_greater_separator] r matches Ok(SearchResult::Found(p)) ==> (p.1 < page.nslots() && comparator.kv(search_key@, target_cursor) < page.cellv(p.1 as int) && (forall|j: int| 0 <= j < p.1 ==> page.cellv(j) <= comparator.kv(search_key@, target_cursor)) && p.0 == (match page.cell_left(p.1 as int) { Some(c) => c, None => PAGE_ZERO })),
//@ loop 1
//@   invariant_except_break
//@     res_notfound(result, right_child, num_slots),
//@     forall|j: int| 0 <= j < i ==> page.cellv(j) <= comparator.kv(search_key@, target_cursor),
//@   invariant
//@     num_slots == page.nslots(),
//@     right_child == (match page.rchild() { Some(c) => c, None => PAGE_ZERO }),
//@   ensures
//@     res_notfound(result, right_child, num_slots) ==> (forall|j: int| 0 <= j < num_slots ==> page.cellv(j) <= comparator.kv(search_key@, target_cursor)),
//@     !res_notfound(result, right_child, num_slots) ==> res_found_at(result, page, comparator.kv(search_key@, target_cursor)),
//@   clauses
//@   [C10:route.right_child_when_beyond_all] r matches Ok(SearchResult::NotFound(p)) ==> (p.1 == page.nslots() && (forall|j: int| 0 <= j < page.nslots() ==> page.cellv(j) <= comparator.kv(search_key@, target_cursor)) && p.0 == (match page.rchild() { Some(c) => c, None => PAGE_ZERO })),
//@end
}

} // verus!
