//@unit name=btentry props=C10
//@strip-pub
// Unit `btentry`: the B+tree entry points (C10: a tree contains exactly the keys put and not removed).
// Every entry point must look the key up FROM THE ROOT, with the key cursor at the tuple's key
// area (Tuple::keys_offset(schema.num_values())), and dispatch on found / not found correctly.
//@trusted [env] page_search / insert_cell / update_cell / balance / page.remove / deallocate_cell are abstract here (search and routing inside a page are PROVED in unit btsearch, key comparison in unit keycmp; rebalancing is outside every unit); their preconditions state what a caller must pass
//@trusted [sub] error constructors with format! are replaced by mk_err(kind)
use vstd::prelude::*;

verus! {

type PageId = u64;

pub enum BtreeError { NonExistentKey, AlreadyExists, Other }
pub type BtreeResult<T> = Result<T, BtreeError>;
pub enum ErrorKind { AlreadyExists, Other }
pub fn mk_err(k: ErrorKind) -> (r: BtreeError) ensures r is AlreadyExists { BtreeError::AlreadyExists }

pub struct Position(pub PageId, pub usize);
pub type BtreePagePosition = Position;
impl Position {
    pub fn entry(&self) -> (r: PageId) ensures r == self.0 { self.0 }
    pub fn slot(&self) -> (r: usize) ensures r == self.1 { self.1 }
    pub fn start_pos(p: PageId) -> (r: Position) ensures r.0 == p, r.1 == 0 { Position(p, 0) }
}
//@item crates/axmos-db/src/tree/bplustree.rs | - | enum SearchResult

pub struct Schema { pub nvalues: usize, pub nkeys: usize }
impl Schema {
    pub fn num_values(&self) -> (r: usize) ensures r == self.nvalues { self.nvalues }
    pub fn num_keys(&self) -> (r: usize) ensures r == self.nkeys { self.nkeys }
    #[verifier::external_body]
    pub fn num_columns(&self) -> (r: usize) ensures r == self.nvalues + self.nkeys { unimplemented!() }
}

pub uninterp spec fn keys_off(nvalues: usize) -> usize;

#[verifier::external_body]
pub struct Tuple { _p: () }
impl Tuple {
    pub uninterp spec fn bytes(&self) -> Seq<u8>;
    #[verifier::external_body]
    pub fn effective_data(&self) -> (r: &[u8]) ensures r@ == self.bytes() { unimplemented!() }
    #[verifier::external_body]
    pub fn keys_offset(num_values: usize) -> (r: usize) ensures r == keys_off(num_values) { unimplemented!() }
}

#[verifier::external_body]
pub struct OwnedCell { _p: () }
#[verifier::external_body]
pub struct BtreePage { _p: () }
impl BtreePage {
    #[verifier::external_body]
    pub fn remove(&mut self, slot: usize) -> (r: BtreeResult<OwnedCell>) { unimplemented!() }
}
#[verifier::external_body]
pub struct SharedPager { _p: () }
impl SharedPager {
    #[verifier::external_body]
    pub fn clone(&self) -> (r: SharedPager) { unimplemented!() }
}
#[verifier::external_body]
pub struct CellDeallocator { _p: () }
impl CellDeallocator {
    #[verifier::external_body]
    pub fn new(p: SharedPager) -> (r: CellDeallocator) { unimplemented!() }
    #[verifier::external_body]
    pub fn deallocate_cell(&self, c: OwnedCell) -> (r: BtreeResult<()>) { unimplemented!() }
}
#[verifier::external_body]
pub struct Accessor { _p: () }
impl Accessor {
    #[verifier::external_body]
    pub fn clear(&mut self) { unimplemented!() }
}

// ghost record of what the entry point did (the abstract tree operations it invoked)
pub enum Did { Nothing, Inserted { page: PageId, cursor: usize }, Updated { pos: Position }, Removed { page: PageId, slot: usize } }

pub struct Btree { root: PageId, pager: SharedPager, did: Ghost<Did>, found: Ghost<Option<SearchResult>> }

impl Btree {
    pub closed spec fn the_root(&self) -> PageId { self.root }
    pub closed spec fn done(&self) -> Did { self.did@ }
    pub closed spec fn lookup(&self) -> Option<SearchResult> { self.found@ }

    pub fn get_root(&self) -> (r: PageId) ensures r == self.root { self.root }

    // the descent (unit btsearch proves the per-page steps)
    #[verifier::external_body]
    pub fn page_search(&mut self, page_id: PageId, entry: &[u8], target_cursor: usize, schema: &Schema) -> (r: BtreeResult<SearchResult>)
        requires
            [C10:entry.search_starts_at_root] page_id == old(self).root,
            [C10:entry.cursor_at_key_area] target_cursor == keys_off(schema.nvalues) || target_cursor == 0,
        ensures
            final(self).root == old(self).root, final(self).did == old(self).did,
            r matches Ok(s) ==> final(self).found@ == Some(s),
            r is Err ==> final(self).found == old(self).found,
    { unimplemented!() }

    #[verifier::external_body]
    pub fn search(&mut self, entry: &[u8], schema: &Schema) -> (r: BtreeResult<SearchResult>)
        ensures final(self).root == old(self).root, final(self).did == old(self).did, r matches Ok(s) ==> final(self).found@ == Some(s),
    { unimplemented!() }

    #[verifier::external_body]
    pub fn insert_cell(&mut self, page_id: PageId, data: Tuple, target_cursor: usize, schema: &Schema) -> (r: BtreeResult<()>)
        requires
            [C10:entry.insert_uses_same_cursor] target_cursor == keys_off(schema.nvalues),
            [C10:entry.insert_only_when_absent] old(self).found@ matches Some(SearchResult::NotFound(p)) && p.0 == page_id,
        ensures final(self).root == old(self).root, final(self).found == old(self).found,
            r is Ok ==> final(self).did@ == (Did::Inserted { page: page_id, cursor: target_cursor }),
    { unimplemented!() }

    #[verifier::external_body]
    pub fn update_cell(&mut self, pos: BtreePagePosition, data: Tuple, schema: &Schema) -> (r: BtreeResult<()>)
        requires [C10:entry.update_only_when_present] old(self).found@ matches Some(SearchResult::Found(p)) && p == pos,
        ensures final(self).root == old(self).root, final(self).found == old(self).found,
            r is Ok ==> final(self).did@ == (Did::Updated { pos }),
    { unimplemented!() }

    #[verifier::external_body]
    pub fn get_page_mut(&mut self, id: PageId) -> (r: BtreeResult<&mut BtreePage>)
        ensures final(self).root == old(self).root, final(self).found == old(self).found, final(self).did == old(self).did,
    { unimplemented!() }

    #[verifier::external_body]
    pub fn balance(&mut self, id: PageId) -> (r: BtreeResult<()>)
        ensures final(self).root == old(self).root, final(self).found == old(self).found, final(self).did == old(self).did,
    { unimplemented!() }

    #[verifier::external_body]
    pub fn accessor_mut(&mut self) -> (r: BtreeResult<&mut Accessor>)
        ensures final(self).root == old(self).root, final(self).found == old(self).found, final(self).did == old(self).did,
    { unimplemented!() }

//@fn crates/axmos-db/src/tree/bplustree.rs | impl<Acc> Btree<Acc> | insert
//@ sub /IoError::new\(\s*(ErrorKind::\w+),.*?\)\s*\)\s*,/ => mk_err(\1)),
//@ requires old(self).done() is Nothing,
//@ ensures
//@   [C10:insert.rejects_duplicate] (r is Ok) ==> (final(self).lookup() matches Some(SearchResult::NotFound(p))),
//@   [C10:insert.inserts_where_search_ended] r is Ok ==> (final(self).lookup() matches Some(SearchResult::NotFound(p)) && final(self).done() == (Did::Inserted { page: p.0, cursor: keys_off(schema.nvalues) })),
//@   [C10:insert.duplicate_changes_nothing] old(self).lookup() is None ==> (final(self).lookup() matches Some(SearchResult::Found(p)) ==> (r is Err && final(self).done() is Nothing)),
//@end

//@fn crates/axmos-db/src/tree/bplustree.rs | impl<Acc> Btree<Acc> | upsert
//@ requires old(self).done() is Nothing,
//@ ensures
//@   [C10:upsert.updates_when_present] r is Ok ==> (final(self).lookup() matches Some(SearchResult::Found(p)) ==> final(self).done() == (Did::Updated { pos: p })),
//@   [C10:upsert.inserts_when_absent] r is Ok ==> (final(self).lookup() matches Some(SearchResult::NotFound(p)) ==> final(self).done() == (Did::Inserted { page: p.0, cursor: keys_off(schema.nvalues) })),
//@   [C10:upsert.does_one_of_both] r is Ok ==> !(final(self).done() is Nothing),
//@end

//@fn crates/axmos-db/src/tree/bplustree.rs | impl<Acc> Btree<Acc> | update
//@ requires old(self).done() is Nothing,
//@ ensures
//@   [C10:update.only_existing_keys] r is Ok ==> (final(self).lookup() matches Some(SearchResult::Found(p)) && final(self).done() == (Did::Updated { pos: p })),
//@end

//@fn crates/axmos-db/src/tree/bplustree.rs | impl<Acc> Btree<Acc> | search_tuple
//@ ensures
//@   [C10:search_tuple.from_root_at_key_area] r matches Ok(s) ==> final(self).lookup() == Some(s),
//@end
}

} // verus!
