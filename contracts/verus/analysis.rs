//@unit name=analysis props=C02,C01
//@strip-pub
// Unit `analysis`: the analysis pass of recovery (C02: exactly the transactions whose last status
// record is COMMIT are redone, every other begun transaction is undone; C01: a committed
// transaction is always in the redo set, whatever else the log contains).
//@trusted [env] WalReader::new / next_ref deliver the records of the log file in order (their contracts are PROVED in unit wal; here they are restated as the environment: next_ref returns remaining()[0] and drops it, None exactly at the end)
//@trusted [env] BTreeSet / BTreeMap insert/remove have set/map semantics; Vec push
//@trusted [sub] `result.lsn_chains.entry(tid).or_insert_with(Vec::new).push(lsn)` is replaced by chain_push (map entry API + fn item are outside Verus); `Box::from(slice)` by to_box; `AnalysisResult::default()` (derive(Default)) by all-empty
//@trusted [pre] every DML/DDL record in the log carries the ids its kind requires (established by Operation::into_record for Insert/Update/Delete/Create/Alter/DropOp in io/logger.rs)
use vstd::prelude::*;

verus! {

type Lsn = u64;
type TransactionId = u64;
type ObjectId = u64;
type RowId = u64;

pub struct IoError { pub code: u8 }
pub mod io {
    pub(crate) type Result<T> = core::result::Result<T, super::IoError>;
}

//@item crates/axmos-db/src/storage/wal.rs | - | enum RecordType

// an abstract log record
pub struct Rec {
    pub lsn: u64,
    pub tid: u64,
    pub kind: RecordType,
    pub oid: Option<u64>,
    pub rowid: Option<u64>,
}

pub struct RecordHeader { pub object_id: Option<ObjectId>, pub row_id: Option<RowId> }

#[verifier::external_body]
pub struct RecordRef<'a> { _p: &'a () }
impl<'a> RecordRef<'a> {
    pub uninterp spec fn view(&self) -> Rec;
    #[verifier::external_body]
    pub fn tid(&self) -> (r: TransactionId) ensures r == self@.tid { unimplemented!() }
    #[verifier::external_body]
    pub fn lsn(&self) -> (r: Lsn) ensures r == self@.lsn { unimplemented!() }
    #[verifier::external_body]
    pub fn log_type(&self) -> (r: RecordType) ensures r == self@.kind { unimplemented!() }
    #[verifier::external_body]
    pub fn metadata(&self) -> (r: &RecordHeader) ensures r.object_id == self@.oid, r.row_id == self@.rowid { unimplemented!() }
    #[verifier::external_body]
    pub fn undo_payload(&self) -> (r: &[u8]) { unimplemented!() }
    #[verifier::external_body]
    pub fn redo_payload(&self) -> (r: &[u8]) { unimplemented!() }
}

#[verifier::external_body]
pub fn to_box(s: &[u8]) -> (r: Box<[u8]>) { unimplemented!() }

#[verifier::external_body]
pub struct DBFile { _p: () }
impl DBFile {
    pub uninterp spec fn log(&self) -> Seq<Rec>;     // disk_log of the file (unit wal)
    pub uninterp spec fn total(&self) -> u64;        // total_blocks recorded in the on-disk block zero
}

#[verifier::external_body]
pub struct WalReader<'a> { _p: &'a () }
impl<'a> WalReader<'a> {
    pub uninterp spec fn remaining(&self) -> Seq<Rec>;

    #[verifier::external_body]
    pub fn new(file: &'a mut DBFile, read_ahead_size: usize, block_size: usize, total_blocks: u64) -> (r: io::Result<WalReader<'a>>)
        requires [C01,C02:analysis.reads_whole_log] total_blocks == old(file).total() && read_ahead_size >= block_size && block_size > 0,
        ensures r matches Ok(rd) ==> rd.remaining() == old(file).log(),
    { unimplemented!() }

    #[verifier::external_body]
    pub fn next_ref(&mut self) -> (r: io::Result<Option<RecordRef<'_>>>)
        ensures
            r matches Ok(Some(rec)) ==> (old(self).remaining().len() > 0 && rec@ == old(self).remaining()[0] && final(self).remaining() == old(self).remaining().skip(1)),
            r matches Ok(None) ==> old(self).remaining().len() == 0 && final(self).remaining().len() == 0,
    { unimplemented!() }
}

#[verifier::external_body]
#[verifier::reject_recursive_types(T)]
pub struct BTreeSet<T> { _p: core::marker::PhantomData<T> }
impl<T> BTreeSet<T> {
    pub uninterp spec fn view(&self) -> Set<T>;
    #[verifier::external_body]
    pub fn insert(&mut self, v: T) -> (r: bool) ensures final(self)@ == old(self)@.insert(v) { unimplemented!() }
    #[verifier::external_body]
    pub fn remove(&mut self, v: &T) -> (r: bool) ensures final(self)@ == old(self)@.remove(*v) { unimplemented!() }
}

#[verifier::external_body]
#[verifier::reject_recursive_types(K)]
#[verifier::reject_recursive_types(V)]
pub struct BTreeMap<K, V> { _p: core::marker::PhantomData<(K, V)> }
impl<K, V> BTreeMap<K, V> {
    pub uninterp spec fn dom(&self) -> Set<K>;
    #[verifier::external_body]
    pub fn insert(&mut self, k: K, v: V) -> (r: Option<V>) ensures final(self).dom() == old(self).dom().insert(k) { unimplemented!() }
}

#[verifier::external_body]
pub fn chain_push(m: &mut BTreeMap<TransactionId, Vec<Lsn>>, tid: TransactionId, lsn: Lsn)
    ensures final(m).dom() == old(m).dom().insert(tid),
{ unimplemented!() }

pub struct Insert { pub a: u8 }
pub struct Delete { pub a: u8 }
pub struct Update { pub a: u8 }
pub struct Create { pub a: u8 }
pub struct Alter { pub a: u8 }
pub struct DropOp { pub a: u8 }
impl Insert { #[verifier::external_body] pub fn new(oid: ObjectId, rowid: RowId, new: Box<[u8]>) -> (r: Insert) { unimplemented!() } }
impl Delete { #[verifier::external_body] pub fn new(oid: ObjectId, rowid: RowId, old: Box<[u8]>) -> (r: Delete) { unimplemented!() } }
impl Update { #[verifier::external_body] pub fn new(oid: ObjectId, rowid: RowId, old: Box<[u8]>, new: Box<[u8]>) -> (r: Update) { unimplemented!() } }
impl Create { #[verifier::external_body] pub fn new(oid: ObjectId, redo: Box<[u8]>, undo: Box<[u8]>) -> (r: Create) { unimplemented!() } }
impl Alter { #[verifier::external_body] pub fn new(oid: ObjectId, redo: Box<[u8]>, undo: Box<[u8]>) -> (r: Alter) { unimplemented!() } }
impl DropOp { #[verifier::external_body] pub fn new(oid: ObjectId, redo: Box<[u8]>, undo: Box<[u8]>) -> (r: DropOp) { unimplemented!() } }

//@item crates/axmos-db/src/io/wal.rs | - | struct AnalysisResult

impl AnalysisResult {
    #[verifier::external_body]
    pub fn default() -> (r: AnalysisResult)
        ensures r.needs_undo@ == Set::<u64>::empty(), r.needs_redo@ == Set::<u64>::empty(),
            r.insert_ops.dom() == Set::<u64>::empty(), r.delete_ops.dom() == Set::<u64>::empty(), r.update_ops.dom() == Set::<u64>::empty(),
            r.create_ops.dom() == Set::<u64>::empty(), r.alter_ops.dom() == Set::<u64>::empty(), r.drop_ops.dom() == Set::<u64>::empty(),
            r.start_redo_lsn is None,
    { unimplemented!() }
}

// ---------------------------------------------------------------------------------------
// Specification (from the property): classify transactions by their LAST status record
// ---------------------------------------------------------------------------------------
pub open spec fn redo_set(log: Seq<Rec>) -> Set<u64>
    decreases log.len(),
{
    if log.len() == 0 { Set::empty() } else {
        let s = redo_set(log.drop_last());
        let r = log.last();
        match r.kind {
            RecordType::Commit => s.insert(r.tid),
            RecordType::Abort => s.remove(r.tid),
            _ => s,
        }
    }
}
pub open spec fn undo_set(log: Seq<Rec>) -> Set<u64>
    decreases log.len(),
{
    if log.len() == 0 { Set::empty() } else {
        let s = undo_set(log.drop_last());
        let r = log.last();
        match r.kind {
            RecordType::Begin => s.insert(r.tid),
            RecordType::Commit => s.remove(r.tid),
            RecordType::Abort => s.insert(r.tid),
            _ => s,
        }
    }
}
pub open spec fn lsns_of(log: Seq<Rec>, k: RecordType) -> Set<u64>
    decreases log.len(),
{
    if log.len() == 0 { Set::empty() } else if log.last().kind == k { lsns_of(log.drop_last(), k).insert(log.last().lsn) } else { lsns_of(log.drop_last(), k) }
}
// records carry the ids their kind needs
pub open spec fn rec_ids_ok(r: Rec) -> bool {
    match r.kind {
        RecordType::Insert | RecordType::Update | RecordType::Delete => r.oid is Some && r.rowid is Some,
        RecordType::Create | RecordType::Alter | RecordType::Drop => r.rowid is Some,
        _ => true,
    }
}
pub open spec fn log_ids_ok(log: Seq<Rec>) -> bool { forall|i: int| 0 <= i < log.len() ==> rec_ids_ok(#[trigger] log[i]) }

// what "last status record" means, stated directly
pub open spec fn last_status(log: Seq<Rec>, t: u64) -> Option<RecordType>
    decreases log.len(),
{
    if log.len() == 0 { None } else if log.last().tid == t && (log.last().kind is Commit || log.last().kind is Abort || log.last().kind is Begin) {
        Some(log.last().kind)
    } else { last_status(log.drop_last(), t) }
}

pub struct BlockZeroHeader { pub wal_header: WalHeader }
pub struct WalHeader { pub total_blocks: u64 }
#[verifier::external_body]
pub struct BlockZero { _p: () }
impl BlockZero {
    pub uninterp spec fn total(&self) -> u64;
    #[verifier::external_body]
    pub fn metadata(&self) -> (r: &BlockZeroHeader) ensures r.wal_header.total_blocks == self.total() { unimplemented!() }
}

pub struct WriteAheadLog { header: BlockZero, file: DBFile, block_size: usize }

impl WriteAheadLog {
    pub closed spec fn log(&self) -> Seq<Rec> { self.file.log() }
    // after open / after a force the in-memory header equals the one on disk
    pub closed spec fn header_matches_disk(&self) -> bool { self.header.total() == self.file.total() && 0 < self.block_size <= 0x100_0000 }

//@fn crates/axmos-db/src/io/wal.rs | impl WriteAheadLog | run_analysis
//@ sub /result\s*\.lsn_chains\s*\.entry\(tid\)\s*\.or_insert_with\(Vec::new\)\s*\.push\(lsn\);/ => chain_push(&mut result.lsn_chains, tid, lsn);
//@ sub /Box::from\(record\.(undo|redo)_payload\(\)\)/ => to_box(record.\1_payload())
//@ requires old(self).header_matches_disk(), log_ids_ok(old(self).log()), old(self).header.total() >= 1,
//@ ensures
//@   [C02,C01:analysis.redo_iff_last_is_commit] r matches Ok(a) ==> a.needs_redo@ == redo_set(old(self).log()),
//@   [C02:analysis.undo_set] r matches Ok(a) ==> a.needs_undo@ == undo_set(old(self).log()),
//@   [C02:analysis.ops_keyed_by_lsn] r matches Ok(a) ==> (a.insert_ops.dom() == lsns_of(old(self).log(), RecordType::Insert) && a.delete_ops.dom() == lsns_of(old(self).log(), RecordType::Delete) && a.update_ops.dom() == lsns_of(old(self).log(), RecordType::Update) && a.create_ops.dom() == lsns_of(old(self).log(), RecordType::Create) && a.alter_ops.dom() == lsns_of(old(self).log(), RecordType::Alter) && a.drop_ops.dom() == lsns_of(old(self).log(), RecordType::Drop)),
//@ proof-before /let mut reader = WalReader::new\(/
//@   assert(self.block_size * 4 >= self.block_size) by(nonlinear_arith) requires self.block_size > 0;
//@   assert(self.block_size * 4 <= 0x400_0000) by(nonlinear_arith) requires self.block_size <= 0x100_0000;
//@ loop 1
//@   invariant
//@     log_ids_ok(old(self).log()),
//@     reader.remaining().len() <= old(self).log().len(),
//@     reader.remaining() =~= old(self).log().skip(old(self).log().len() - reader.remaining().len()),
//@     result.needs_redo@ == redo_set(old(self).log().take(old(self).log().len() - reader.remaining().len())),
//@     result.needs_undo@ == undo_set(old(self).log().take(old(self).log().len() - reader.remaining().len())),
//@     result.insert_ops.dom() == lsns_of(old(self).log().take(old(self).log().len() - reader.remaining().len()), RecordType::Insert),
//@     result.delete_ops.dom() == lsns_of(old(self).log().take(old(self).log().len() - reader.remaining().len()), RecordType::Delete),
//@     result.update_ops.dom() == lsns_of(old(self).log().take(old(self).log().len() - reader.remaining().len()), RecordType::Update),
//@     result.create_ops.dom() == lsns_of(old(self).log().take(old(self).log().len() - reader.remaining().len()), RecordType::Create),
//@     result.alter_ops.dom() == lsns_of(old(self).log().take(old(self).log().len() - reader.remaining().len()), RecordType::Alter),
//@     result.drop_ops.dom() == lsns_of(old(self).log().take(old(self).log().len() - reader.remaining().len()), RecordType::Drop),
//@   ensures
//@     reader.remaining().len() == 0,
//@   decreases reader.remaining().len(),
//@ proof-after /(\})\s*\}\s*Ok\(result\)/
//@   let log = old(self).log();
//@   let n = log.len() - reader.remaining().len() - 1;
//@   assert(log.take(n + 1).drop_last() =~= log.take(n));
//@   assert(log.take(n + 1).last() == log[n]);
//@ proof-before /Ok\(result\)/#-1
//@   assert(old(self).log().take(old(self).log().len() as int) =~= old(self).log());
//@end
}

// the fold above really is "last status record decides" (for all logs)
//@lemma [C02:lemma_redo_is_last_commit]
pub proof fn lemma_redo_is_last_commit(log: Seq<Rec>, t: u64)
    ensures
        redo_set(log).contains(t) <==> last_status_ca(log, t) == Some(RecordType::Commit),
    decreases log.len(),
{
    if log.len() > 0 {
        lemma_redo_is_last_commit(log.drop_last(), t);
    }
}

// last COMMIT/ABORT record of t (BEGIN does not change the redo verdict)
pub open spec fn last_status_ca(log: Seq<Rec>, t: u64) -> Option<RecordType>
    decreases log.len(),
{
    if log.len() == 0 { None } else if log.last().tid == t && (log.last().kind is Commit || log.last().kind is Abort) {
        Some(log.last().kind)
    } else { last_status_ca(log.drop_last(), t) }
}

pub proof fn lemma_redo_has_commit(log: Seq<Rec>, t: u64)
    requires redo_set(log).contains(t),
    ensures exists|i: int| 0 <= i < log.len() && (#[trigger] log[i]).kind is Commit && log[i].tid == t,
    decreases log.len(),
{
    if log.len() > 0 {
        let p = log.drop_last();
        if log.last().kind is Commit && log.last().tid == t {
            assert(log[log.len() - 1].kind is Commit);
        } else {
            assert(redo_set(p).contains(t));
            lemma_redo_has_commit(p, t);
            let i = choose|i: int| 0 <= i < p.len() && (#[trigger] p[i]).kind is Commit && p[i].tid == t;
            assert(log[i] == p[i]);
        }
    }
}

// a transaction id is not reused: no BEGIN(t) after a COMMIT(t)
pub open spec fn begin_first(log: Seq<Rec>) -> bool {
    forall|i: int, j: int| 0 <= i < j < log.len() ==> !((#[trigger] log[i]).kind is Commit && (#[trigger] log[j]).kind is Begin && log[i].tid == log[j].tid)
}

//@lemma [C02:lemma_redo_undo_disjoint]
pub proof fn lemma_redo_undo_disjoint(log: Seq<Rec>)
    requires begin_first(log),
    ensures redo_set(log).disjoint(undo_set(log)),
    decreases log.len(),
{
    if log.len() > 0 {
        let p = log.drop_last();
        assert(begin_first(p)) by {
            assert forall|i: int, j: int| 0 <= i < j < p.len() implies !((#[trigger] p[i]).kind is Commit && (#[trigger] p[j]).kind is Begin && p[i].tid == p[j].tid) by {
                assert(p[i] == log[i] && p[j] == log[j]);
            }
        }
        lemma_redo_undo_disjoint(p);
        let r = log.last();
        if r.kind is Begin && redo_set(p).contains(r.tid) {
            lemma_redo_has_commit(p, r.tid);
            let i = choose|i: int| 0 <= i < p.len() && (#[trigger] p[i]).kind is Commit && p[i].tid == r.tid;
            assert(log[i] == p[i]);
            assert(log[log.len() - 1] == r);
        }
    }
}

} // verus!
