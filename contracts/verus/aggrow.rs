//@unit name=aggrow props=C05
//@strip-pub
// Unit `aggrow`: HashAggregate::accumulate_row -- what one input row does to the groups of a
// GROUP BY / aggregate query, against an abstract view of the hash table: for every group key and
// every aggregate expression the SEQUENCE of values fed to its accumulator so far (unit aggregates
// proves what an accumulator makes of such a sequence).
//   C05: the row is fed to the accumulators of ITS group only (the group of its key values), to
//   every one of them, with the value of that aggregate's argument on this row (a non-NULL marker
//   for COUNT(*)); an aggregate over DISTINCT is fed each value once per group: afterwards its
//   sequence has no duplicates and holds exactly the values seen.
//@trusted [env] HashMap::entry(..).or_insert_with(..) as `bucket_for` (the group's bucket, created empty if absent; a `&mut` into the table), Vec index-mut on the bucket's fields as `seen_insert` / `feed` (HashSet::insert returns whether the value is new; Accumulator::accumulate is unit aggregates), ExpressionEvaluator::evaluate_as_single_value and HashAggregate::extract_group_key as abstract functions of the row
//@trusted [sub] the substitutions named above; `for (i, agg_expr) in self.aggregates.iter().enumerate()` -> the same loop by index; `DataType::BigInt(1.into())` -> `DataType::one()`
use vstd::prelude::*;

verus! {

pub struct RuntimeError { pub code: u8 }
pub type RuntimeResult<T> = Result<T, RuntimeError>;

#[verifier::external_body]
pub struct Schema { _p: () }
#[verifier::external_body]
pub struct Row { _p: () }
#[verifier::external_body]
pub struct Opaque { _p: () }
#[verifier::external_body]
pub struct DataType { _p: () }
impl DataType {
    pub uninterp spec fn marker() -> DataType;          // the non-NULL value COUNT(*) is fed
    #[verifier::external_body]
    pub fn one() -> (r: DataType) ensures r == Self::marker() { unimplemented!() }
    #[verifier::external_body]
    pub fn clone(&self) -> (r: DataType) ensures r == *self { unimplemented!() }
}
pub enum BoundExpression { Star, Other(Opaque) }
pub struct AggregateExpr { pub arg: Option<BoundExpression>, pub distinct: bool, pub output_idx: usize }
pub struct ExecutionStats { pub rows_scanned: usize }

pub uninterp spec fn val(e: &BoundExpression, row: &Row) -> DataType;
pub uninterp spec fn key_of(row: &Row) -> Seq<DataType>;
// what aggregate `a` is fed for this row
pub open spec fn fed_value(a: &AggregateExpr, row: &Row) -> DataType {
    match a.arg { None => DataType::marker(), Some(BoundExpression::Star) => DataType::marker(), Some(e) => val(&e, row) }
}

#[verifier::external_body]
pub struct ExpressionEvaluator { _p: () }
impl ExpressionEvaluator {
    pub uninterp spec fn row(&self) -> &Row;
    #[verifier::external_body]
    pub fn new(row: &Row, schema: &Schema) -> (r: ExpressionEvaluator) ensures r.row() == row { unimplemented!() }
    #[verifier::external_body]
    pub fn evaluate_as_single_value(&self, e: &BoundExpression) -> (r: RuntimeResult<DataType>) ensures r matches Ok(v) ==> v == val(e, self.row()) { unimplemented!() }
}

#[verifier::external_body]
pub struct GroupBucket { _p: () }
impl GroupBucket {
    pub uninterp spec fn fed(&self, i: int) -> Seq<DataType>;
    pub uninterp spec fn seen(&self, i: int) -> Set<DataType>;
    // bucket.seen[i].insert(v)
    #[verifier::external_body]
    pub fn seen_insert(&mut self, i: usize, v: DataType) -> (r: bool)
        ensures r == !old(self).seen(i as int).contains(v), final(self).seen(i as int) == old(self).seen(i as int).insert(v),
            forall|j: int| j != i ==> #[trigger] final(self).seen(j) == old(self).seen(j),
            forall|j: int| #[trigger] final(self).fed(j) == old(self).fed(j) { unimplemented!() }
    // bucket.accumulators[i].accumulate(v)
    #[verifier::external_body]
    pub fn feed(&mut self, i: usize, v: &DataType) -> (r: RuntimeResult<()>)
        ensures r is Ok ==> final(self).fed(i as int) == old(self).fed(i as int).push(*v),
            r is Err ==> final(self).fed(i as int) == old(self).fed(i as int),
            forall|j: int| j != i ==> #[trigger] final(self).fed(j) == old(self).fed(j),
            forall|j: int| #[trigger] final(self).seen(j) == old(self).seen(j) { unimplemented!() }
}
pub open spec fn empty_bucket(b: &GroupBucket) -> bool { forall|i: int| #[trigger] b.fed(i) == Seq::<DataType>::empty() && b.seen(i) == Set::<DataType>::empty() }
pub open spec fn same_bucket(a: &GroupBucket, b: &GroupBucket) -> bool { forall|i: int| #[trigger] a.fed(i) == b.fed(i) && a.seen(i) == b.seen(i) }

#[verifier::external_body]
pub struct Buckets { _p: () }
impl Buckets {
    pub uninterp spec fn has(&self, key: Seq<DataType>) -> bool;
    pub uninterp spec fn at(&self, key: Seq<DataType>) -> GroupBucket;
    // self.buckets.entry(key.clone()).or_insert_with(|| GroupBucket::new(key, &self.aggregates))
    #[verifier::external_body]
    pub fn bucket_for(&mut self, key: Vec<DataType>, aggregates: &Vec<AggregateExpr>) -> (r: &mut GroupBucket)
        ensures
            old(self).has(key@) ==> same_bucket(&*r, &old(self).at(key@)),
            !old(self).has(key@) ==> empty_bucket(&*r),
            final(self).has(key@) && same_bucket(&final(self).at(key@), &*final(r)),
            forall|k: Seq<DataType>| k != key@ ==> #[trigger] final(self).has(k) == old(self).has(k),
            forall|k: Seq<DataType>| k != key@ ==> #[trigger] final(self).at(k) == old(self).at(k),
    { unimplemented!() }
}

// an aggregate over DISTINCT has been fed each value it has seen exactly once
pub open spec fn wf_bucket(b: &GroupBucket, aggs: Seq<AggregateExpr>) -> bool {
    forall|i: int| 0 <= i < aggs.len() && (#[trigger] aggs[i]).distinct ==> b.seen(i) == b.fed(i).to_set() && b.fed(i).no_duplicates()
}
pub open spec fn wf(t: &Buckets, aggs: Seq<AggregateExpr>) -> bool { forall|k: Seq<DataType>| #[trigger] t.has(k) ==> wf_bucket(&t.at(k), aggs) }

pub open spec fn fed_after(before: Seq<DataType>, seen: Set<DataType>, a: &AggregateExpr, row: &Row) -> Seq<DataType> {
    if a.distinct && seen.contains(fed_value(a, row)) { before } else { before.push(fed_value(a, row)) }
}
pub open spec fn before_fed(t: &Buckets, k: Seq<DataType>, i: int) -> Seq<DataType> { if t.has(k) { t.at(k).fed(i) } else { Seq::empty() } }
pub open spec fn before_seen(t: &Buckets, k: Seq<DataType>, i: int) -> Set<DataType> { if t.has(k) { t.at(k).seen(i) } else { Set::empty() } }


// one step of an aggregate over DISTINCT: a value already seen changes nothing; a new one extends the sequence without a duplicate
pub broadcast proof fn lemma_seen_again(seen: Set<DataType>, v: DataType)
    requires seen.contains(v),
    ensures #[trigger] seen.insert(v) == seen,
{
    assert(seen.insert(v) =~= seen);
}
pub broadcast proof fn lemma_seen_first(fed: Seq<DataType>, seen: Set<DataType>, v: DataType)
    requires seen == fed.to_set(), fed.no_duplicates(), !seen.contains(v),
    ensures #![trigger seen.insert(v), fed.push(v)] fed.push(v).no_duplicates() && fed.push(v).to_set() == seen.insert(v),
{
    let p = fed.push(v);
    assert(!fed.contains(v));
    assert forall|i: int, j: int| 0 <= i < p.len() && 0 <= j < p.len() && i != j implies p[i] != p[j] by {
        if i < fed.len() && j < fed.len() {
        } else if i == fed.len() {
            assert(fed[j] == p[j]);
            assert(fed.contains(fed[j]));
        } else {
            assert(fed[i] == p[i]);
            assert(fed.contains(fed[i]));
        }
    }
    assert forall|x: DataType| p.to_set().contains(x) <==> seen.insert(v).contains(x) by {
        if p.contains(x) {
            let k = choose|k: int| 0 <= k < p.len() && p[k] == x;
            if k < fed.len() { assert(fed[k] == x); assert(fed.contains(x)); }
        }
        if fed.contains(x) {
            let k = choose|k: int| 0 <= k < fed.len() && fed[k] == x;
            assert(p[k] == x);
            assert(p.contains(x));
        }
        assert(p[fed.len() as int] == v);
        if x == v { assert(p.contains(x)); }
    }
    assert(p.to_set() =~= seen.insert(v));
}
pub broadcast group group_distinct { lemma_seen_again, lemma_seen_first }

pub struct HashAggregate {
    pub input_schema: Schema,
    pub aggregates: Vec<AggregateExpr>,
    pub buckets: Buckets,
    pub stats: ExecutionStats,
}
impl HashAggregate {
    #[verifier::external_body]
    pub fn extract_group_key(&self, row: &Row) -> (r: RuntimeResult<Vec<DataType>>) ensures r matches Ok(k) ==> k@ == key_of(row) { unimplemented!() }

//@fn crates/axmos-db/src/runtime/ops/aggregate.rs | impl<Child: Executor> HashAggregate<Child> | accumulate_row
//@ sub /let bucket = self\s*\.buckets\s*\.entry\(key\.clone\(\)\)\s*\.or_insert_with\(\|\| GroupBucket::new\(key, &self\.aggregates\)\);/ => let bucket = self.buckets.bucket_for(key, &self.aggregates);
//@ sub /for \(i, agg_expr\) in self\.aggregates\.iter\(\)\.enumerate\(\) \{/ => for i in 0..self.aggregates.len() { let agg_expr = &self.aggregates[i];
//@ sub /DataType::BigInt\(1\.into\(\)\)/ => DataType::one()
//@ sub /bucket\.seen\[i\]\.insert\(value\.clone\(\)\)/ => bucket.seen_insert(i, value.clone())
//@ sub /bucket\.accumulators\[i\]\.accumulate\(&value\)/ => bucket.feed(i, &value)
//@ loopfacts
//@ use-lemmas group_distinct
//@ requires
//@   wf(&old(self).buckets, old(self).aggregates@),
//@   old(self).stats.rows_scanned < usize::MAX,
//@ ensures
//@   [C05:agg.the_row_feeds_every_aggregate_of_its_group_distinct_ones_once_per_value] r is Ok ==> final(self).buckets.has(key_of(row)) && (forall|i: int| 0 <= i < old(self).aggregates@.len() ==> #[trigger] final(self).buckets.at(key_of(row)).fed(i) == fed_after(before_fed(&old(self).buckets, key_of(row), i), before_seen(&old(self).buckets, key_of(row), i), &old(self).aggregates@[i], row)),
//@   [C05:agg.other_groups_are_untouched] (forall|k: Seq<DataType>| k != key_of(row) ==> #[trigger] final(self).buckets.has(k) == old(self).buckets.has(k)) && (forall|k: Seq<DataType>| k != key_of(row) ==> #[trigger] final(self).buckets.at(k) == old(self).buckets.at(k)),
//@   [C05:agg.distinct_aggregates_hold_each_value_once] r is Ok ==> wf(&final(self).buckets, old(self).aggregates@),
//@   [C05:agg.the_aggregate_list_is_not_changed] final(self).aggregates@ == old(self).aggregates@,
//@ ghost-before /for i in 0\.\.self\.aggregates\.len\(\)/
//@   let ghost b0 = *bucket;
//@   let ghost aggs = self.aggregates@;
//@ loop 1
//@   invariant
//@     self.aggregates@ == aggs,
//@     evaluator.row() == row,
//@     forall|j: int| 0 <= j < i ==> #[trigger] bucket.fed(j) == fed_after(b0.fed(j), b0.seen(j), &aggs[j], row),
//@     forall|j: int| i <= j ==> #[trigger] bucket.fed(j) == b0.fed(j) && bucket.seen(j) == b0.seen(j),
//@     forall|j: int| 0 <= j < aggs.len() && (#[trigger] aggs[j]).distinct ==> bucket.seen(j) == bucket.fed(j).to_set() && bucket.fed(j).no_duplicates(),
//@end
}

} // verus!
