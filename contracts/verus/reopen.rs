//@unit name=reopen props=C08,C01
//@strip-pub
// Unit `reopen`: the recovery job Database::open runs (the closure body of Database::run_recovery,
// checked as a function of the values it captures, R11).
//   C01/C08: the log is ANALYSED before anything is appended to it. The recovery transaction's own
//   BEGIN record opens, in memory, a log block that is not in the file; an analysis that runs after
//   it reads past the end of the file -- a log of more than one block (a committed DELETE of 100
//   rows) could never be recovered, every open failed (fix 1a398bb).
//   C08/C01: recovery is repeatable and a crash right after it loses nothing -- the log may only be
//   dropped by a checkpoint (Pager::flush: dirty pages, header, THEN truncate; unit pagerio), and that
//   checkpoint comes after the redo/undo pass and after the recovery transaction committed.
//@trusted [env] begin_transaction (appends the BEGIN record of the recovery transaction: an event on the pager), TransactionContext::create_child, run_analysis (unit analysis), WalRecuperator::run_recovery (unit recovery), Pager::flush (unit pagerio: checkpoint.*) are taken at their contracts; `applied(a)` / `committed(t)` are facts established only by the env calls that perform them (typestate)
//@trusted [sub] `pager.write()` (exclusive lock on the shared pager) is the `&mut Pager` parameter itself (R8); `Self::begin_transaction(coordinator.clone(), pager.clone(), catalog.clone())` (clones of shared handles) is `begin_transaction(coordinator, pager, catalog)` on the same objects; `.map_err(box_err)` error boxing is dropped (env functions return the boxed error type)
use vstd::prelude::*;

verus! {

pub struct BoxError { pub code: u8 }
pub type JobResult<T> = Result<T, BoxError>;

#[verifier::external_body]
pub struct AnalysisResult { _p: () }
pub uninterp spec fn applied(a: &AnalysisResult) -> bool;     // undo + redo of this analysis have run
#[verifier::external_body]
pub struct TransactionLogger { _p: () }
impl TransactionLogger { #[verifier::external_body] pub fn clone(&self) -> TransactionLogger { unimplemented!() } }
#[verifier::external_body]
pub struct ChildCtx { _p: () }
#[verifier::external_body]
pub struct TransactionContext { _p: () }
pub uninterp spec fn committed(t: &TransactionContext) -> bool;
impl TransactionContext {
    #[verifier::external_body]
    pub fn create_child(&self) -> JobResult<ChildCtx> { unimplemented!() }
    #[verifier::external_body]
    pub fn commit_transaction(&self) -> (r: JobResult<()>) ensures r is Ok ==> committed(self) { unimplemented!() }
}

#[verifier::external_body]
pub struct WalRecuperator { _p: () }
impl WalRecuperator {
    #[verifier::external_body]
    pub fn new(ctx: ChildCtx, logger: TransactionLogger) -> WalRecuperator { unimplemented!() }
    #[verifier::external_body]
    pub fn run_recovery(&mut self, a: &AnalysisResult) -> (r: JobResult<()>) ensures r is Ok ==> applied(a) { unimplemented!() }
}

pub enum Ev { Analysis, Begin, Checkpoint, TruncateOnly }
#[verifier::external_body]
pub struct TransactionCoordinator { _p: () }
#[verifier::external_body]
pub struct Catalog { _p: () }
#[verifier::external_body]
pub struct Pager { _p: () }
impl Pager {
    pub uninterp spec fn events(&self) -> Seq<Ev>;
    #[verifier::external_body]
    pub fn run_analysis(&mut self) -> (r: JobResult<AnalysisResult>)
        ensures final(self).events() == old(self).events().push(Ev::Analysis) { unimplemented!() }
    // Pager::truncate_wal: empties the log and nothing else
    #[verifier::external_body]
    pub fn truncate_wal(&mut self) -> (r: JobResult<()>)
        ensures final(self).events() == old(self).events().push(Ev::TruncateOnly) { unimplemented!() }
    // Pager::flush: the checkpoint (unit pagerio)
    #[verifier::external_body]
    pub fn flush(&mut self) -> (r: JobResult<()>)
        requires
            [C08,C01:recovery.checkpoint_after_redo] exists|a: &AnalysisResult| #[trigger] applied(a),
            [C08:recovery.checkpoint_after_recovery_commit] exists|t: &TransactionContext| #[trigger] committed(t),
        ensures final(self).events() == old(self).events().push(Ev::Checkpoint) { unimplemented!() }
}
#[verifier::external_body]
pub fn begin_transaction(coordinator: &TransactionCoordinator, pager: &mut Pager, catalog: &Catalog) -> (r: JobResult<(TransactionContext, TransactionLogger)>)
    ensures final(pager).events() == old(pager).events().push(Ev::Begin) { unimplemented!() }

pub open spec fn no_bare_truncate(s: Seq<Ev>, from: int) -> bool { forall|i: int| from <= i < s.len() ==> !(#[trigger] s[i] is TruncateOnly) }

//@fn crates/axmos-db/src/lib.rs | impl Database | run_recovery
//@ arm /self\.task_runner\.run\(move \|_ctx\| \{/ => fn recovery_job(coordinator: &TransactionCoordinator, pager: &mut Pager, catalog: &Catalog) -> JobResult<()>
//@ sub /Self::begin_transaction\(coordinator\.clone\(\), pager\.clone\(\), catalog\.clone\(\)\)/ => begin_transaction(coordinator, pager, catalog)
//@ sub /pager\.write\(\)/ => pager
//@ sub /\.map_err\(box_err\)/ => 
//@ ensures
//@   [C08,C01:recovery.log_dropped_only_by_a_checkpoint] no_bare_truncate(final(pager).events(), old(pager).events().len() as int),
//@   [C08,C01:recovery.ends_with_a_checkpoint] r is Ok ==> final(pager).events().len() > 0 && final(pager).events().last() is Checkpoint,
//@   [C08,C01:recovery.the_log_is_analysed_before_anything_is_appended_to_it] final(pager).events().len() > old(pager).events().len() ==> final(pager).events()[old(pager).events().len() as int] is Analysis,
//@   [C08,C01:recovery.the_recovery_transaction_begins_once_and_after_the_analysis] r is Ok ==> final(pager).events() == old(pager).events().push(Ev::Analysis).push(Ev::Begin).push(Ev::Checkpoint),
//@end

} // verus!
