//@unit name=equikeys props=C05
//@strip-pub
// Unit `equikeys`: which columns the planner hands to the hash / merge join operators as join keys
// (C05: joins pair rows correctly).  JoinOp::extract_equi_keys must return, for every equality of
// the ON condition, the pair (column of the LEFT input, column of the RIGHT input) -- whichever way
// round the equality was written -- or nothing at all if some equality does not compare the two
// inputs (the operators drop the condition and join on the keys alone).
//@trusted [env] BoundExpression is reduced to the three shapes the functions look at (BinaryOp with Eq / And / other operator, ColumnBinding, anything else); Schema::num_columns is abstract
//@trusted [sub] `left.as_ref()` / `right.as_ref()` on Box are `&**left` / `&**right`; `for (l, r) in keys` (by value) is a loop over `&keys` with `let (l, r) = *kp;`
use vstd::prelude::*;

verus! {

pub struct Binding { pub column_idx: usize }
pub enum BinaryOperator { Eq, And, Other }
pub enum BoundExpression {
    BinaryOp { op: BinaryOperator, left: Box<BoundExpression>, right: Box<BoundExpression>, result_type: u8 },
    ColumnBinding(Binding),
    Other,
}
#[verifier::external_body]
pub struct Schema { _p: () }
impl Schema {
    pub uninterp spec fn ncols(&self) -> usize;
    #[verifier::external_body]
    pub fn num_columns(&self) -> (r: usize) ensures r == self.ncols() { unimplemented!() }
}

// the equalities between two plain columns, left to right
pub open spec fn pairs(e: BoundExpression) -> Seq<(usize, usize)>
    decreases e
{
    match e {
        BoundExpression::BinaryOp { op, left, right, result_type } => match op {
            BinaryOperator::Eq => match (*left, *right) {
                (BoundExpression::ColumnBinding(l), BoundExpression::ColumnBinding(r)) => seq![(l.column_idx, r.column_idx)],
                _ => Seq::<(usize, usize)>::empty(),
            },
            BinaryOperator::And => pairs(*left) + pairs(*right),
            BinaryOperator::Other => Seq::<(usize, usize)>::empty(),
        },
        _ => Seq::<(usize, usize)>::empty(),
    }
}
pub open spec fn cross(p: (usize, usize), n: usize) -> bool { (p.0 < n && p.1 >= n) || (p.1 < n && p.0 >= n) }
pub open spec fn orient(p: (usize, usize), n: usize) -> (usize, usize) { if p.0 < n { p } else { (p.1, p.0) } }

pub struct JoinOp { pub condition: Option<BoundExpression>, pub left_schema: Schema, pub right_schema: Schema }

impl JoinOp {
    pub open spec fn collected(&self) -> Seq<(usize, usize)> { match self.condition { Some(c) => pairs(c), None => Seq::<(usize, usize)>::empty() } }

//@fn crates/axmos-db/src/sql/planner/logical.rs | impl JoinOp | collect_equi_keys
//@ sub /\(left\.as_ref\(\), right\.as_ref\(\)\)/ => (&**left, &**right)
//@ ensures
//@   [C05:equikeys.collects_every_column_equality] final(keys)@ == old(keys)@ + pairs(*expr),
//@ clauses
//@   decreases expr
//@end

//@fn crates/axmos-db/src/sql/planner/logical.rs | impl JoinOp | extract_equi_keys
//@ sub /for \(l, r\) in keys \{/ => for kp in it: &keys { let (l, r) = *kp;
//@ ensures
//@   [C05:equikeys.left_column_first_right_column_second] forall|i: int| 0 <= i < r@.len() ==> (#[trigger] r@[i]).0 < self.left_schema.ncols() && r@[i].1 >= self.left_schema.ncols(),
//@   [C05:equikeys.all_or_nothing] r@.len() == self.collected().len() || r@.len() == 0,
//@   [C05:equikeys.same_equalities_in_order] r@.len() == self.collected().len() ==> (forall|i: int| 0 <= i < r@.len() ==> #[trigger] r@[i] == orient(self.collected()[i], self.left_schema.ncols())),
//@   [C05:equikeys.nothing_iff_some_equality_is_one_sided] (r@.len() == self.collected().len()) <==> (forall|i: int| 0 <= i < self.collected().len() ==> cross(#[trigger] self.collected()[i], self.left_schema.ncols())),
//@ loop 1
//@   invariant
//@     left_cols == self.left_schema.ncols(), keys@ == self.collected(),
//@     oriented@.len() == it.index@,
//@     forall|i: int| 0 <= i < oriented@.len() ==> #[trigger] oriented@[i] == orient(keys@[i], left_cols),
//@     forall|i: int| 0 <= i < oriented@.len() ==> cross(#[trigger] keys@[i], left_cols),
//@end
}

} // verus!
