//@unit name=scalarfns props=C05,C16
//@strip-pub
// Unit `scalarfns`: the scalar functions that do not touch strings (C16: no argument list makes the
// worker panic -- every `args[i]` is a bounds obligation; C05: they compute what they say).
//@trusted [env] DataType::{is_numeric, is_null, abs, ceil, floor, round, sqrt, clone, ==} are abstract (C19 / Kani unit types for equality)
//@trusted [sub] `args[0] == args[1]` is dt_eq(&args[0], &args[1])
use vstd::prelude::*;

verus! {

pub enum ScalarFunction { Abs, Ceil, Floor, Round, Sqrt, Coalesce, NullIf, Other }
pub enum EvaluationError { InvalidArguments(ScalarFunction), Other }
pub type EvaluationResult<T> = Result<T, EvaluationError>;

pub enum DataType { Null, Num(u64), Other(u64) }
pub uninterp spec fn abs_spec(a: DataType) -> DataType;
pub uninterp spec fn ceil_spec(a: DataType) -> DataType;
pub uninterp spec fn floor_spec(a: DataType) -> DataType;
pub uninterp spec fn round_spec(a: DataType) -> DataType;
pub uninterp spec fn sqrt_spec(a: DataType) -> DataType;
pub uninterp spec fn eq_spec(a: DataType, b: DataType) -> bool;
impl DataType {
    pub open spec fn numeric(&self) -> bool { self is Num }
    #[verifier::external_body] pub fn is_numeric(&self) -> (r: bool) ensures r == self.numeric() { unimplemented!() }
    #[verifier::external_body] pub fn is_null(&self) -> (r: bool) ensures r == (self is Null) { unimplemented!() }
    #[verifier::external_body] pub fn clone(&self) -> (r: DataType) ensures r == *self { unimplemented!() }
    #[verifier::external_body] pub fn abs(&self) -> (r: DataType) ensures r == abs_spec(*self) { unimplemented!() }
    #[verifier::external_body] pub fn ceil(&self) -> (r: DataType) ensures r == ceil_spec(*self) { unimplemented!() }
    #[verifier::external_body] pub fn floor(&self) -> (r: DataType) ensures r == floor_spec(*self) { unimplemented!() }
    #[verifier::external_body] pub fn round(&self) -> (r: DataType) ensures r == round_spec(*self) { unimplemented!() }
    #[verifier::external_body] pub fn sqrt(&self) -> (r: DataType) ensures r == sqrt_spec(*self) { unimplemented!() }
}
#[verifier::external_body]
pub fn dt_eq(a: &DataType, b: &DataType) -> (r: bool) ensures r == eq_spec(*a, *b) { unimplemented!() }

pub struct Abs; pub struct Ceil; pub struct Floor; pub struct Round; pub struct Sqrt; pub struct Coalesce; pub struct NullIf;

impl Abs {
//@fn crates/axmos-db/src/runtime/eval.rs | impl Callable for Abs | call
//@ rename abs_call
//@ ensures
//@   [C05,C16:fn.abs] if args@.len() == 1 && args@[0].numeric() { r == Ok::<DataType, EvaluationError>(abs_spec(args@[0])) } else { r is Err },
//@end
}
impl Ceil {
//@fn crates/axmos-db/src/runtime/eval.rs | impl Callable for Ceil | call
//@ rename ceil_call
//@ ensures
//@   [C05,C16:fn.ceil] if args@.len() == 1 && args@[0].numeric() { r == Ok::<DataType, EvaluationError>(ceil_spec(args@[0])) } else { r is Err },
//@end
}
impl Floor {
//@fn crates/axmos-db/src/runtime/eval.rs | impl Callable for Floor | call
//@ rename floor_call
//@ ensures
//@   [C05,C16:fn.floor] if args@.len() == 1 && args@[0].numeric() { r == Ok::<DataType, EvaluationError>(floor_spec(args@[0])) } else { r is Err },
//@end
}
impl Round {
//@fn crates/axmos-db/src/runtime/eval.rs | impl Callable for Round | call
//@ rename round_call
//@ ensures
//@   [C05,C16:fn.round] if args@.len() == 1 && args@[0].numeric() { r == Ok::<DataType, EvaluationError>(round_spec(args@[0])) } else { r is Err },
//@end
}
impl Sqrt {
//@fn crates/axmos-db/src/runtime/eval.rs | impl Callable for Sqrt | call
//@ rename sqrt_call
//@ ensures
//@   [C05,C16:fn.sqrt] if args@.len() == 1 && args@[0].numeric() { r == Ok::<DataType, EvaluationError>(sqrt_spec(args@[0])) } else { r is Err },
//@end
}
impl Coalesce {
//@fn crates/axmos-db/src/runtime/eval.rs | impl Callable for Coalesce | call
//@ rename coalesce_call
//@ ensures
//@   [C05,C16:fn.coalesce_first_non_null] if args@.len() == 2 { r == Ok::<DataType, EvaluationError>(if args@[0] is Null { args@[1] } else { args@[0] }) } else { r is Err },
//@end
}
impl NullIf {
//@fn crates/axmos-db/src/runtime/eval.rs | impl Callable for NullIf | call
//@ rename nullif_call
//@ sub /args\[0\] == args\[1\]/ => dt_eq(&args[0], &args[1])
//@ ensures
//@   [C05,C16:fn.nullif_null_when_equal] if args@.len() == 2 { r == Ok::<DataType, EvaluationError>(if eq_spec(args@[0], args@[1]) { DataType::Null } else { args@[0] }) } else { r is Err },
//@end
}

} // verus!
