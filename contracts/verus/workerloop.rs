//@unit name=workerloop props=C16
//@strip-pub
// Unit `workerloop`: the loop every worker thread of the pool runs (the closure handed to
// thread::spawn in Worker::new, checked as a function of the values it captures, R11).
//   C16 "no input makes a worker die or the call block forever": the pool never replaces a worker,
//   so a task that panics must not end the thread that runs it -- after `pool_size` such tasks every
//   later call would wait for ever for an answer nobody sends (that is what turned each panic repaired
//   so far into a hang; fix db87d8f). The obligation: the loop runs a task ONLY inside
//   std::panic::catch_unwind; a bare call of the task is a call the contract forbids.
//@trusted [env] JobQueue::pop_interruptible (returns the next job or None once the pool stops); std::panic::catch_unwind contains a panic of the closure it is given (std)
//@trusted [sub] `std::panic::catch_unwind(std::panic::AssertUnwindSafe(task))` is `contained(task)`; a bare `task()` is `task.run_bare()` (whose precondition is the obligation); `Duration::from_millis(100)` is `poll_interval()`; `&running` is the parameter itself
//@trusted [outside] termination of the loop (it ends when the queue says so: R12), what the task does
use vstd::prelude::*;

verus! {

#[verifier::external_body]
pub struct Task { _p: () }
impl Task {
    #[verifier::external_body]
    pub fn run_bare(self) -> (r: Result<(), ()>)
        requires [C16:worker.a_task_runs_only_inside_catch_unwind] false,
    { unimplemented!() }
}
#[verifier::external_body]
pub fn contained(task: Task) -> Result<Result<(), ()>, ()> { unimplemented!() }

pub enum Job { Task(Task), Shutdown }
#[verifier::external_body]
pub struct Duration { _p: () }
#[verifier::external_body]
pub fn poll_interval() -> Duration { unimplemented!() }
#[verifier::external_body]
pub struct AtomicBool { _p: () }
pub enum Ordering { Relaxed, Acquire, Release, AcqRel, SeqCst }
impl AtomicBool {
    #[verifier::external_body]
    pub fn load(&self, o: Ordering) -> bool { unimplemented!() }
}
#[verifier::external_body]
pub struct JobQueue { _p: () }
impl JobQueue {
    #[verifier::external_body]
    pub fn pop_interruptible(&self, timeout: Duration, running: &AtomicBool) -> Option<Job> { unimplemented!() }
}

//@fn crates/axmos-db/src/multithreading/threadpool.rs | impl Worker | new
//@ arm /let thread = thread::spawn\(move \|\| \{/ => fn worker_loop(job_queue: &JobQueue, running: &AtomicBool)
//@ sub? /std::panic::catch_unwind\(std::panic::AssertUnwindSafe\(task\)\)/ => contained(task)
//@ sub? /\btask\(\)/ => task.run_bare()
//@ sub /Duration::from_millis\(100\)/ => poll_interval()
//@ sub /&running\)/ => running)
//@ nodecreases
//@end

} // verus!
