//@unit name=pagerio props=C12,C01,C09,C02
//@strip-pub
// Unit `pagerio`: what the pager does with frames that leave the cache (C12: data survives any
// amount of eviction) and what a checkpoint leaves behind (C01/C09: after Pager::flush the log file is
// an openable, empty log and every dirty page has been written).
//@trusted [env] PageCache::insert / clear have the contracts PROVED in unit cache (restated here WITHOUT insert.evicts_only_free_and_clean: since fix f7fd299 the cache hands back no dirty frame and the write-back branch of cache_frame is a defence that does not run; it is checked here as if it could -- whole page, own page id, log forced first -- and unit nosteal checks, with the full contract of insert, that it does not)
//@trusted [env] WriteAheadLog::flush / truncate have the contracts PROVED in unit wal (restated here at the granularity "number of blocks in the log file")
//@trusted [sub] `frame.with_bytes_mut(|bytes| self.write_block(ID, &bytes, SIZE))` (closure over the frame's bytes) is replaced by write_frame_block(&frame, ID, SIZE) with the same ID and SIZE expressions; the checkpoint loop `for page in pages { if page.is_dirty() { ... write_block ... } }` by write_dirty_pages(pages, SIZE)
//@trusted [env] write_block writes `block_size` bytes at page_number * block_size; sync_header writes page zero; DBFile::flush makes them durable
use vstd::prelude::*;

verus! {

type PageId = u64;
//@item crates/axmos-db/src/common/mod.rs | - | const MIN_PAGE_SIZE
//@item crates/axmos-db/src/common/mod.rs | - | const PAGE_ALIGNMENT
pub struct IoError { pub code: u8 }
pub mod io {
    pub(crate) type Result<T> = core::result::Result<T, super::IoError>;
}

#[verifier::external_body]
pub struct MemFrame { _p: () }
impl MemFrame {
    pub uninterp spec fn id(&self) -> u64;
    pub uninterp spec fn dirty(&self) -> bool;
    #[verifier::external_body]
    pub fn page_number(&self) -> (r: PageId) ensures r == self.id() { unimplemented!() }
    #[verifier::external_body]
    pub fn is_dirty(&self) -> (r: bool) ensures r == self.dirty() { unimplemented!() }
}

#[verifier::external_body]
pub struct PageCache { _p: () }
impl PageCache {
    pub uninterp spec fn frames(&self) -> Set<MemFrame>;
    pub uninterp spec fn cap(&self) -> usize;
    // contract proved in unit cache (insert.no_loss / insert.caches_the_frame / insert.err_keeps_all)
    #[verifier::external_body]
    pub fn insert(&mut self, frame: MemFrame) -> (r: io::Result<Option<MemFrame>>)
        ensures
            final(self).cap() == old(self).cap(),
            r is Ok ==> final(self).frames().contains(frame),
            r is Ok ==> (forall|f: MemFrame| old(self).frames().contains(f) && f.id() != frame.id() ==> final(self).frames().contains(f) || r == Ok::<Option<MemFrame>, IoError>(Some(f))),
            r is Err ==> final(self).frames() == old(self).frames(),
    { unimplemented!() }
    // contract proved in unit cache (clear.returns_all / clear.empties / clear.keeps_capacity)
    #[verifier::external_body]
    pub fn clear(&mut self) -> (r: Vec<MemFrame>)
        ensures
            final(self).cap() == old(self).cap(),
            final(self).frames() == Set::<MemFrame>::empty(),
            forall|f: MemFrame| old(self).frames().contains(f) ==> r@.contains(f),
    { unimplemented!() }
}

#[verifier::external_body]
pub struct WriteAheadLog { _p: () }
impl WriteAheadLog {
    pub uninterp spec fn disk_blocks(&self) -> nat;   // blocks in the log file (0 = empty file: cannot be opened)
    pub uninterp spec fn pending(&self) -> nat;       // records appended and not yet readable from the file
    pub uninterp spec fn records(&self) -> nat;       // records in the log (view length)
    // unit wal: flush.disk_eq_view + the header block is always written
    #[verifier::external_body]
    pub fn flush(&mut self) -> (r: io::Result<()>)
        ensures r is Ok ==> (final(self).disk_blocks() >= 1 && final(self).pending() == 0 && final(self).records() == old(self).records()),
    { unimplemented!() }
    // unit wal: truncate.empties (the file is emptied, the in-memory log is reset)
    #[verifier::external_body]
    pub fn truncate(&mut self) -> (r: io::Result<()>)
        ensures r is Ok ==> (final(self).disk_blocks() == 0 && final(self).records() == 0),
    { unimplemented!() }
}

#[verifier::external_body]
pub struct DBFile { _p: () }
impl DBFile {
    #[verifier::external_body]
    pub fn flush(&mut self) -> (r: io::Result<()>) { unimplemented!() }
}

pub struct Pager { cache: PageCache, wal: WriteAheadLog, file: DBFile, written: Ghost<Set<MemFrame>>, hdr_synced: Ghost<bool>, psize: usize }

impl Pager {
    pub closed spec fn written_set(&self) -> Set<MemFrame> { self.written@ }
    pub closed spec fn cached(&self) -> Set<MemFrame> { self.cache.frames() }
    pub closed spec fn header_synced(&self) -> bool { self.hdr_synced@ }

    pub closed spec fn wf(&self) -> bool { self.psize >= 4096 && self.psize % 4096 == 0 }
    pub fn page_size(&self) -> (r: usize) ensures r == self.psize { self.psize }

    // stands for frame.with_bytes_mut(|bytes| self.write_block(id, &bytes, size))
    #[verifier::external_body]
    pub fn write_frame_block(&mut self, frame: &MemFrame, id: PageId, size: usize) -> (r: io::Result<()>)
        requires
            [C12:writeback.at_own_page_id] id == frame.id(),
            [C12:writeback.whole_page] size == old(self).psize,
            [C02,C01:writeback.the_log_is_forced_before_an_evicted_page_reaches_the_file] old(self).wal.pending() == 0,
        ensures
            final(self).cache == old(self).cache && final(self).wal == old(self).wal && final(self).psize == old(self).psize && final(self).hdr_synced == old(self).hdr_synced,
            r is Ok ==> final(self).written@ == old(self).written@.insert(*frame),
            r is Err ==> final(self).written@ == old(self).written@,
    { unimplemented!() }

    // stands for the checkpoint loop over the drained frames
    #[verifier::external_body]
    pub fn write_dirty_pages(&mut self, pages: Vec<MemFrame>, size: usize) -> (r: io::Result<()>)
        requires
            [C01,C09:checkpoint.whole_pages] size == old(self).psize,
            [C02,C01:checkpoint.the_log_is_forced_before_the_pages_are_written] old(self).wal.pending() == 0,
        ensures
            final(self).cache == old(self).cache && final(self).wal == old(self).wal && final(self).psize == old(self).psize && final(self).hdr_synced == old(self).hdr_synced,
            r is Ok ==> (forall|f: MemFrame| pages@.contains(f) && f.dirty() ==> final(self).written@.contains(f)) && (forall|f: MemFrame| old(self).written@.contains(f) ==> final(self).written@.contains(f)),
    { unimplemented!() }

    #[verifier::external_body]
    pub fn sync_header(&mut self) -> (r: io::Result<()>)
        ensures
            final(self).cache == old(self).cache && final(self).wal == old(self).wal && final(self).psize == old(self).psize && final(self).written == old(self).written,
            r is Ok ==> final(self).hdr_synced@,
    { unimplemented!() }

//@fn crates/axmos-db/src/io/pager.rs | impl Pager | cache_frame
//@ sub /evicted\.with_bytes_mut\(\|bytes\| self\.write_block\((\w+), &bytes, (\w+)\)\)\?;/ => self.write_frame_block(&evicted, \1, \2)?;
//@ ensures
//@   [C12:cache_frame.caches_it] r is Ok ==> final(self).cached().contains(frame),
//@   [C12:cache_frame.dirty_evictee_written] r is Ok ==> (forall|f: MemFrame| old(self).cached().contains(f) && f.id() != frame.id() && f.dirty() ==> final(self).cached().contains(f) || final(self).written_set().contains(f)),
//@   [C12:cache_frame.returns_id] r matches Ok(i) ==> i == frame.id(),
//@end

//@fn crates/axmos-db/src/io/pager.rs | impl Write for Pager | flush
//@ sub /for page in pages \{.*?\n        \}\n/ => self.write_dirty_pages(pages, block_size)?;\n
//@ ensures
//@   [C01,C09:checkpoint.log_openable_and_empty] r is Ok ==> (final(self).wal.disk_blocks() >= 1 && final(self).wal.records() == 0 && final(self).wal.pending() == 0),
//@   [C01,C09:checkpoint.dirty_pages_written] r is Ok ==> (forall|f: MemFrame| old(self).cached().contains(f) && f.dirty() ==> final(self).written_set().contains(f)),
//@   [C09:checkpoint.header_written] r is Ok ==> final(self).header_synced(),
//@   [C12:checkpoint.cache_keeps_capacity] final(self).cache.cap() == old(self).cache.cap() || r is Err,
//@end
}

} // verus!
