//@unit name=uniqueprobe props=C07,C04
//@strip-pub
// Unit `uniqueprobe`: what the UNIQUE probe decides for the index entry it finds under a key (the
// closure ConstraintValidator::search_index runs on that entry, checked as a function of the values
// it captures, R11).
//   C07: a value is taken exactly when the index holds an entry for it that the writer's snapshot
//   can SEE (C04: an entry whose creator rolled back or is not yet visible, or that is deleted for
//   the writer, does not count) and that belongs to another row than the ones the caller excludes
//   (an UPDATE excludes the row it rewrites, an INSERT the row itself).
//@trusted [env] TupleReader::parse_for_snapshot (unit versionchain: which version, if any, the snapshot sees), TupleRef::value_with / to_owned / as_big_u_int (decoding of the entry's payload: the row id is value 0 of an index entry) at the contracts below; std HashSet<u64> as specified by vstd
//@trusted [outside] the key bytes search_index builds and Btree::search finding the entry (units btsearch / keycmp), the NULL rule in front of the probe, ConstraintValidator::search_table (foreign keys: a sequential scan inside closures)
use vstd::prelude::*;
use std::collections::HashSet;

verus! {

// std specifications vstd does not carry (sound: they say what the std functions do)
pub assume_specification<T, F: FnOnce(T) -> bool>[ Option::<T>::is_none_or ](o: Option<T>, f: F) -> (r: bool)
    requires o matches Some(v) ==> f.requires((v,)),
    ensures o is None ==> r, o matches Some(v) ==> f.ensures((v,), r);
pub assume_specification<T, F: FnOnce(T) -> bool>[ Option::<T>::is_some_and ](o: Option<T>, f: F) -> (r: bool)
    requires o matches Some(v) ==> f.requires((v,)),
    ensures o is None ==> !r, o matches Some(v) ==> f.ensures((v,), r);


pub struct TupleError { pub code: u8 }
pub type RowId = u64;

#[verifier::external_body]
pub struct Schema { _p: () }
#[verifier::external_body]
pub struct Snapshot { _p: () }
#[verifier::external_body]
pub struct TupleLayout { _p: () }

// what the snapshot sees of the entry stored in these bytes, and the row id that entry carries
pub uninterp spec fn visible(snap: &Snapshot, bytes: Seq<u8>) -> bool;
pub uninterp spec fn entry_rid(bytes: Seq<u8>) -> Option<u64>;     // None: the payload cannot be decoded as a row id

#[verifier::external_body]
pub struct TupleReader { _p: () }
impl TupleReader {
    #[verifier::external_body]
    pub fn parse_for_snapshot(&self, bytes: &[u8], snapshot: &Snapshot) -> (r: Result<Option<TupleLayout>, TupleError>)
        ensures r matches Ok(o) ==> (o is Some <==> visible(snapshot, bytes@)) { unimplemented!() }
    // the newest stored version, whoever may see it
    #[verifier::external_body]
    pub fn parse_last_version(&self, bytes: &[u8]) -> (r: Result<TupleLayout, TupleError>) { unimplemented!() }
}

pub struct UInt64(pub u64);
impl UInt64 { pub fn value(&self) -> (r: u64) ensures r == self.0 { self.0 } }
#[verifier::external_body]
pub struct DataType { _p: () }
impl DataType {
    pub uninterp spec fn big_u_int(&self) -> Option<u64>;
    #[verifier::external_body]
    pub fn as_big_u_int(&self) -> (r: Option<&UInt64>) ensures (r matches Some(u) ==> self.big_u_int() == Some(u.0)), r is None ==> self.big_u_int() is None { unimplemented!() }
}
#[verifier::external_body]
pub struct DataTypeRef { _p: () }
impl DataTypeRef {
    pub uninterp spec fn owned(&self) -> Option<DataType>;
    #[verifier::external_body]
    pub fn to_owned(&self) -> (r: Option<DataType>) ensures r == self.owned() { unimplemented!() }
}
#[verifier::external_body]
pub struct TupleRef { _p: () }
impl TupleRef {
    pub uninterp spec fn src(&self) -> Seq<u8>;
    #[verifier::external_body]
    pub fn new(bytes: &[u8], layout: TupleLayout) -> (r: TupleRef) ensures r.src() == bytes@ { unimplemented!() }
    #[verifier::external_body]
    pub fn is_tuple_deleted(&self) -> bool { unimplemented!() }
    #[verifier::external_body]
    pub fn xmin(&self) -> u64 { unimplemented!() }
    #[verifier::external_body]
    pub fn xmax(&self) -> Option<u64> { unimplemented!() }
    // value 0 of an index entry is the row id
    #[verifier::external_body]
    pub fn value_with(&self, idx: usize, schema: &Schema) -> (r: Result<DataTypeRef, TupleError>)
        ensures idx == 0 ==> (match r { Ok(v) => (match v.owned() { Some(d) => d.big_u_int() == entry_rid(self.src()), None => entry_rid(self.src()) is None }), Err(_) => entry_rid(self.src()) is None }) { unimplemented!() }
}

pub struct ConstraintValidator { pub c: u8 }
impl ConstraintValidator {
//@fn crates/axmos-db/src/runtime/validator.rs | impl<'a> ConstraintValidator<'a> | search_index
//@ arm /index_btree\.with_cell_at\(pos, \|bytes\| \{/ => fn probe_entry(bytes: &[u8], tuple_reader: &TupleReader, snapshot: &Snapshot, index_schema: &Schema, excluded_set: &HashSet<RowId>) -> Result<bool, TupleError>
//@ use-lemmas vstd::std_specs::hash::group_hash_axioms
//@ ensures
//@   [C07,C04:unique.an_entry_the_writer_cannot_see_is_no_conflict] r matches Ok(c) ==> (c ==> visible(snapshot, bytes@)),
//@   [C07:unique.a_visible_entry_of_another_row_is_a_conflict] r matches Ok(c) ==> (visible(snapshot, bytes@) && !(entry_rid(bytes@) matches Some(id) && excluded_set@.contains(id)) ==> c),
//@   [C07:unique.the_excluded_rows_own_entry_is_no_conflict] r matches Ok(c) ==> ((entry_rid(bytes@) matches Some(id) && excluded_set@.contains(id)) ==> !c),
//@end
}

} // verus!
