//@unit name=pageralloc props=C01,C08,C09,C12,C11
//@strip-pub
// Unit `pageralloc`: page allocation and deallocation against an abstract free list (C09: the free
// list kept in page zero and in the freed pages survives close/reopen only if it is a well-formed
// chain whose every member's free-format image reaches the file; C12: a page handed out or freed is
// dirty or already written, whatever the cache size).
//   view: the sequence s with first_free = s[0], next(s[i]) = s[i+1], next(last) = None, last_free = s.last()
//   allocate_page pops the head (or takes the next fresh page number), dealloc_page appends at the tail.
//@trusted [env] header accessors first/last_free_page, set_*, get_next_page (one-line field accesses through header_unchecked[_mut]) are specified, not extracted; arithmetic overflow of total_pages is outside
//@trusted [env] the logical `next` link of a page is what with_page::<OverflowPage> would read: set by with_page_mut (set_overflow_next) and by caching a frame built in memory (cache_frame); loading a page (ensure_cached) does not change it
//@trusted [env] PageCache::remove has the contract proved in unit cache (returns the frame iff present and unpinned; keys are unique); Pager::cache_frame the one proved in unit pagerio, plus the call-site obligation below
//@trusted [env] MemFrame::mark_dirty(&self) is specified as `ensures self.dirty()` on an immutable value: dirty() here means "mark_dirty has been called on this frame value or it was dirty"; the env exposes no negative dirty fact, so the model is consistent (typestate, monotone within these two functions)
//@trusted [pre] dealloc_page: the page is not latched by the caller (unpinned) and is not already in the free list (no double free)
//@trusted [sub] generics are erased: `::<P>` / `::<P::Header>` / `<P>` + where clause dropped, P::alloc(..) is alloc_fresh(..); `self.with_page::<OverflowPage,_,_>(id, |o| o.next())` is overflow_next(id); `self.with_page_mut::<OverflowPage,_,_>(l, |o| { o.metadata_mut().next = Some(id); })` is set_overflow_next(l, Some(id)); `f.with_bytes(|bytes| self.write_block(ID, bytes, SIZE))` is write_frame_ro(&f, ID, SIZE)
use vstd::prelude::*;

verus! {

type PageId = u64;
pub const PAGE_ZERO: PageId = 0;
pub struct IoError { pub code: u8 }
pub enum ErrorKind { InvalidData, NotFound, InvalidInput }
impl IoError {
    #[verifier::external_body]
    pub fn new(k: ErrorKind, m: &str) -> IoError { unimplemented!() }
}
pub mod io {
    pub(crate) type Result<T> = core::result::Result<T, super::IoError>;
}

#[verifier::external_body]
pub struct RawPage { _p: () }
impl RawPage { pub uninterp spec fn id(&self) -> u64; }
#[verifier::external_body]
pub fn alloc_fresh(id: PageId, size: usize) -> (r: RawPage) ensures r.id() == id { unimplemented!() }
#[verifier::external_body]
pub struct Frame { _p: () }
impl Frame {
    pub uninterp spec fn id(&self) -> u64;
    #[verifier::external_body]
    pub fn new(p: RawPage) -> (r: Frame) ensures r.id() == p.id() { unimplemented!() }
}

#[verifier::external_body]
pub struct MemFrame { _p: () }
impl MemFrame {
    pub uninterp spec fn id(&self) -> u64;
    pub uninterp spec fn dirty(&self) -> bool;
    pub uninterp spec fn free_fmt(&self) -> bool;          // overflow-format page with a fresh header
    pub uninterp spec fn next_link(&self) -> Option<u64>;  // the `next` field an OverflowPage reader sees
    #[verifier::external_body]
    pub fn page_number(&self) -> (r: PageId) ensures r == self.id() { unimplemented!() }
    #[verifier::external_body]
    pub fn mark_dirty(&self) ensures self.dirty() { unimplemented!() }
    #[verifier::external_body]
    pub fn from(f: Frame) -> (r: MemFrame) ensures r.id() == f.id() { unimplemented!() }
    // Frame::new(..) inside: the dirty flag of the result is false -> no dirty fact is given
    #[verifier::external_body]
    pub fn reinit_as(self) -> (r: MemFrame) ensures r.id() == self.id() { unimplemented!() }
    // BtreePage::dealloc: OverflowPageHeader::new(number, size) (next = None), data zeroed; Frame::new -> not dirty
    #[verifier::external_body]
    pub fn dealloc(self) -> (r: MemFrame) ensures r.id() == self.id(), r.free_fmt(), r.next_link() is None { unimplemented!() }
}

#[verifier::external_body]
pub struct PageCache { _p: () }
impl PageCache {
    pub uninterp spec fn frames(&self) -> Set<MemFrame>;
    pub uninterp spec fn unpinned(&self, id: u64) -> bool;
    pub closed spec fn has(&self, id: u64) -> bool { exists|f: MemFrame| self.frames().contains(f) && f.id() == id }
    // unit cache: remove.only_free / remove.no_loss / remove.pinned_stays (+ unique keys from inv)
    #[verifier::external_body]
    pub fn remove(&mut self, id: PageId) -> (r: Option<MemFrame>)
        ensures
            r matches Some(v) ==> (v.id() == id && old(self).frames().contains(v) && final(self).frames() == old(self).frames().remove(v) && !final(self).has(id)),
            r is None ==> final(self).frames() == old(self).frames(),
            old(self).has(id) && old(self).unpinned(id) ==> r is Some,
            forall|i: u64| i != id ==> final(self).unpinned(i) == old(self).unpinned(i),
    { unimplemented!() }
}

pub struct Pager {
    cache: PageCache,
    first: Ghost<Option<u64>>, last: Ghost<Option<u64>>, total: Ghost<u64>,
    nextm: Ghost<Map<u64, Option<u64>>>,
    written: Ghost<Set<MemFrame>>,
    psize: u32,
}

impl Pager {
    pub closed spec fn first_free(&self) -> Option<u64> { self.first@ }
    pub closed spec fn last_free(&self) -> Option<u64> { self.last@ }
    pub closed spec fn total_pages(&self) -> u64 { self.total@ }
    pub closed spec fn next_of(&self, p: u64) -> Option<u64> { self.nextm@[p] }
    pub closed spec fn knows(&self, p: u64) -> bool { self.nextm@.dom().contains(p) }
    pub closed spec fn cached(&self) -> Set<MemFrame> { self.cache.frames() }
    pub closed spec fn written_set(&self) -> Set<MemFrame> { self.written@ }
    pub closed spec fn unpinned(&self, id: u64) -> bool { self.cache.unpinned(id) }

    // the abstract free list
    pub open spec fn is_free_list(&self, s: Seq<u64>) -> bool {
        &&& s.no_duplicates()
        &&& (s.len() == 0 ==> self.first_free() is None && self.last_free() is None)
        &&& (s.len() > 0 ==> self.first_free() == Some(s[0]) && self.last_free() == Some(s.last()) && self.knows(s.last()) && self.next_of(s.last()) is None)
        &&& (forall|i: int| 0 <= i < s.len() - 1 ==> self.knows(#[trigger] s[i]) && self.next_of(s[i]) == Some(s[i + 1]))
    }

    #[verifier::external_body]
    pub fn first_free_page(&self) -> (r: Option<PageId>) ensures r == self.first@ { unimplemented!() }
    #[verifier::external_body]
    pub fn last_free_page(&self) -> (r: Option<PageId>) ensures r == self.last@ { unimplemented!() }
    #[verifier::external_body]
    pub fn set_first_free_page(&mut self, value: Option<PageId>)
        ensures final(self).first@ == value, final(self).last == old(self).last, final(self).total == old(self).total, final(self).nextm == old(self).nextm, final(self).cache == old(self).cache, final(self).written == old(self).written, final(self).psize == old(self).psize { unimplemented!() }
    #[verifier::external_body]
    pub fn set_last_free_page(&mut self, value: Option<PageId>)
        ensures final(self).last@ == value, final(self).first == old(self).first, final(self).total == old(self).total, final(self).nextm == old(self).nextm, final(self).cache == old(self).cache, final(self).written == old(self).written, final(self).psize == old(self).psize { unimplemented!() }
    #[verifier::external_body]
    pub fn get_next_page(&mut self) -> (r: PageId)
        ensures r == old(self).total@, final(self).total@ == old(self).total@ + 1, final(self).last == old(self).last, final(self).first == old(self).first, final(self).nextm == old(self).nextm, final(self).cache == old(self).cache, final(self).written == old(self).written, final(self).psize == old(self).psize { unimplemented!() }
    #[verifier::external_body]
    pub fn page_size(&self) -> (r: u32) ensures r == self.psize { unimplemented!() }

    // with_page::<OverflowPage>(id, |o| o.next()): reads the link; may load the page (cache changes, nothing logical does)
    #[verifier::external_body]
    pub fn overflow_next(&mut self, id: PageId) -> (r: io::Result<Option<PageId>>)
        ensures
            final(self).first == old(self).first, final(self).last == old(self).last, final(self).total == old(self).total, final(self).nextm == old(self).nextm, final(self).written == old(self).written, final(self).psize == old(self).psize,
            r matches Ok(n) ==> (old(self).knows(id) ==> n == old(self).next_of(id)),
    { unimplemented!() }
    // with_page_mut::<OverflowPage>(id, |o| o.metadata_mut().next = v): write latch => the frame is dirty (unit framedirty)
    #[verifier::external_body]
    pub fn set_overflow_next(&mut self, id: PageId, v: Option<PageId>) -> (r: io::Result<()>)
        ensures
            final(self).first == old(self).first, final(self).last == old(self).last, final(self).total == old(self).total, final(self).written == old(self).written, final(self).psize == old(self).psize,
            r is Ok ==> final(self).nextm@ == old(self).nextm@.insert(id, v),
            forall|i: u64| final(self).cache.unpinned(i) == old(self).cache.unpinned(i),
    { unimplemented!() }
    #[verifier::external_body]
    pub fn ensure_cached(&mut self, id: PageId) -> (r: io::Result<()>)
        ensures
            final(self).first == old(self).first, final(self).last == old(self).last, final(self).total == old(self).total, final(self).nextm == old(self).nextm, final(self).written == old(self).written, final(self).psize == old(self).psize,
            r is Ok ==> final(self).cache.has(id),
            forall|i: u64| final(self).cache.unpinned(i) == old(self).cache.unpinned(i),
    { unimplemented!() }
    // stands for frame.with_bytes(|bytes| self.write_block(id, bytes, size)): dealloc_page wrote the freed image at once until fix f7fd299;
    // kept so that a body that writes again is still extracted (and then fails dealloc.the_data_file_is_not_written)
    #[verifier::external_body]
    pub fn write_frame_ro(&mut self, frame: &MemFrame, id: PageId, size: u32) -> (r: io::Result<()>)
        requires
            frame.free_fmt(), id == frame.id(), size == old(self).psize,
        ensures
            final(self).first == old(self).first, final(self).last == old(self).last, final(self).total == old(self).total, final(self).nextm == old(self).nextm, final(self).cache == old(self).cache, final(self).psize == old(self).psize,
            r is Ok ==> final(self).written@ == old(self).written@.insert(*frame),
    { unimplemented!() }
    // unit pagerio: cache_frame.caches_it / returns_id; here also: the frame's link becomes the logical link of its page
    #[verifier::external_body]
    pub fn cache_frame(&mut self, frame: MemFrame) -> (r: io::Result<PageId>)
        requires
            [C09,C12,C11:alloc_dealloc.cached_frame_dirty_or_written] frame.dirty() || old(self).written@.contains(frame),
        ensures
            final(self).first == old(self).first, final(self).last == old(self).last, final(self).total == old(self).total, final(self).psize == old(self).psize,
            r is Ok ==> final(self).cached().contains(frame),
            r matches Ok(i) ==> i == frame.id(),
            r is Ok ==> final(self).nextm@ == old(self).nextm@.insert(frame.id(), frame.next_link()),
            final(self).written == old(self).written,      // unit nosteal: cache_frame.the_data_file_changes_only_at_a_checkpoint
    { unimplemented!() }

//@fn crates/axmos-db/src/io/pager.rs | impl Pager | allocate_page
//@ sub /fn allocate_page<P>\(/ => fn allocate_page(
//@ sub /where\s+P: Buffer<IdType = PageId>,\s+MemFrame: [^\n]*\n/ => \n
//@ sub /self\.with_page::<OverflowPage, _, _>\((\w+), \|overflow\| overflow\.next\(\)\)/ => self.overflow_next(\1)
//@ sub /self\.ensure_cached::<P>\(/ => self.ensure_cached(
//@ sub /\.reinit_as::<P::Header>\(\)/ => .reinit_as()
//@ sub /P::alloc\(/ => alloc_fresh(
//@ ensures
//@   [C09,C11:alloc.pops_free_list_head] forall|s: Seq<u64>| #![trigger old(self).is_free_list(s)] old(self).is_free_list(s) && s.len() > 0 && r is Ok ==> r == Ok::<PageId, IoError>(s[0]) && final(self).is_free_list(s.drop_first()) && final(self).total_pages() == old(self).total_pages(),
//@   [C09,C11:alloc.fresh_page_number_when_list_empty] old(self).first_free() is None && r is Ok ==> r == Ok::<PageId, IoError>(old(self).total_pages()) && final(self).total_pages() == old(self).total_pages() + 1 && final(self).first_free() is None && final(self).last_free() == old(self).last_free(),
//@   [C09,C12:alloc.handed_out_page_cached_dirty] r matches Ok(i) ==> (exists|f: MemFrame| final(self).cached().contains(f) && f.id() == i && f.dirty()),
//@end

//@fn crates/axmos-db/src/io/pager.rs | impl Pager | dealloc_page
//@ sub /fn dealloc_page<P>\(/ => fn dealloc_page(
//@ sub /where\s+P: Buffer \+ AsMut<\[u8\]>,\s+MemFrame: [^\n]*\n/ => \n
//@ sub /self\.with_page_mut::<OverflowPage, _, _>\((\w+), \|overflow\| \{\s*overflow\.metadata_mut\(\)\.next = (.*?);\s*\}\)/ => self.set_overflow_next(\1, \2)
//@ sub /self\.ensure_cached::<P>\(/ => self.ensure_cached(
//@ sub? /(\w+)\.with_bytes\(\|bytes\| self\.write_block\((\w+), bytes, (\w+)\)\)/ => self.write_frame_ro(&\1, \2, \3)
//@ requires
//@   old(self).unpinned(id),
//@ ensures
//@   [C09,C11:dealloc.appends_to_free_list] forall|s: Seq<u64>| #![trigger old(self).is_free_list(s)] old(self).is_free_list(s) && !s.contains(id) && r is Ok ==> final(self).is_free_list(s.push(id)),
//@   [C09,C11:dealloc.page_zero_refused] id == 0 ==> r is Err,
//@   [C09,C11:dealloc.keeps_page_count] final(self).total_pages() == old(self).total_pages(),
//@   [C09,C12,C11:dealloc.freed_image_cached] r is Ok ==> (exists|f: MemFrame| final(self).cached().contains(f) && f.id() == id && f.free_fmt()),
//@   [C01,C08:dealloc.the_data_file_is_not_written] final(self).written_set() == old(self).written_set(),
//@end
}

} // verus!
