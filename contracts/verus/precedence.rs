//@unit name=precedence props=C05
//@strip-pub
// Unit `precedence`: the Pratt parser's binding-power table (C05: predicates follow the documented
// operator precedence: OR < AND < comparison / LIKE / IN / BETWEEN / IS < additive / || < multiplicative,
// all binary operators left-associative).
//@trusted [env] Lexer::__peek_token returns the token after the current one (abstract); the driver loop parse_expr_bp (`break` at the first operator whose left power is below the minimum) and parse_infix are not under contract (they build AST values with String payloads)
//@trusted [R11] the `Token::Minus` and `Token::Not` arms of parse_prefix are checked as functions of their own; f64 negation of a literal is the opaque neg()
use vstd::prelude::*;

verus! {

//@item crates/axmos-db/src/sql/parser/lexer.rs | - | enum Token

pub struct Parser { current_token: Token, peeked: Token }
impl Parser {
    #[verifier::external_body]
    pub fn __peek_token(&mut self) -> (r: Token)
        ensures r == old(self).peeked, final(self).current_token == old(self).current_token, final(self).peeked == old(self).peeked,
    { unimplemented!() }

    pub closed spec fn cur(&self) -> Token { self.current_token }
    pub closed spec fn next(&self) -> Token { self.peeked }

//@fn crates/axmos-db/src/sql/parser/mod.rs | impl Parser | infix_binding_power
//@ ensures
//@   [C05:prec.left_associative] r matches Some(p) ==> p.0 < p.1,
//@   [C05:prec.or_lowest] old(self).cur() is Or ==> r == Some((1u8, 2u8)),
//@   [C05:prec.and_above_or] old(self).cur() is And ==> (r matches Some(p) && p.0 > 2),
//@   [C05:prec.comparison_above_and] (old(self).cur() is Eq || old(self).cur() is Neq || old(self).cur() is Lt || old(self).cur() is Gt || old(self).cur() is Le || old(self).cur() is Ge || old(self).cur() is Like || old(self).cur() is In || old(self).cur() is Between || old(self).cur() is Is) ==> (r matches Some(p) && p.0 > 4 && p.1 < 7),
//@   [C05:prec.additive_above_comparison] (old(self).cur() is Plus || old(self).cur() is Minus || old(self).cur() is Concat) ==> (r matches Some(p) && p.0 > 6 && p.1 < 9),
//@   [C05:prec.multiplicative_highest] (old(self).cur() is Star || old(self).cur() is Slash || old(self).cur() is Percent) ==> (r matches Some(p) && p.0 > 8),
//@   [C05:prec.not_only_before_in_between_like] old(self).cur() is Not ==> ((r is Some) == (old(self).next() is In || old(self).next() is Between || old(self).next() is Like)),
//@   [C05:prec.not_binds_like_comparison] (old(self).cur() is Not && r is Some) ==> (r matches Some(p) && p.0 > 4 && p.1 < 7),
//@   [C05:prec.keeps_token] final(self).cur() == old(self).cur(),
//@   [C05:prec.left_powers_used_by_prefix_operators] (old(self).cur() is And ==> r == Some((3u8, 4u8))) && (old(self).cur() is Eq ==> r == Some((5u8, 6u8))) && (old(self).cur() is Plus ==> r == Some((7u8, 8u8))) && (old(self).cur() is Star ==> r == Some((9u8, 10u8))),
//@end
}

// ---- prefix operators: the operand is parsed with a minimum binding power; parse_expr_bp(m) stops
// at the first infix operator whose LEFT power is below m (loop in parse_expr_bp, outside).
pub struct ParseError { pub code: u8 }
pub type ParseResult<T> = Result<T, ParseError>;
pub enum UnaryOperator { Minus, Not, Plus }
pub enum Expr { Number(f64), UnaryOp { op: UnaryOperator, expr: Box<Expr> }, Other }
#[verifier::external_body]
pub fn neg(n: f64) -> f64 { unimplemented!() }

pub struct MinusCtx { current_token: Token }
impl MinusCtx {
    #[verifier::external_body]
    pub fn next_token(&mut self) { unimplemented!() }
    // -a + b is (-a) + b, -a = b is (-a) = b: the operand must stop before every additive (left power 7),
    // comparison (5) and boolean (3, 1) operator
    #[verifier::external_body]
    pub fn parse_expr_bp(&mut self, min_bp: u8) -> (r: ParseResult<Expr>)
        requires [C05:prefix.unary_minus_binds_tighter_than_additive] min_bp > 7,
    { unimplemented!() }

//@fn crates/axmos-db/src/sql/parser/mod.rs | impl Parser | parse_prefix
//@ arm /Token::Minus => \{/ => fn minus_arm(&mut self) -> ParseResult<Expr>
//@ sub /let num = -n;/ => let num = neg(n);
//@end
}

pub struct NotCtx { current_token: Token }
impl NotCtx {
    #[verifier::external_body]
    pub fn next_token(&mut self) { unimplemented!() }
    // NOT a AND b is (NOT a) AND b (the documented precedence: NOT binds tighter than AND, left power 3),
    // NOT a = b is NOT (a = b) (comparisons, left power 5, stay inside the operand)
    #[verifier::external_body]
    pub fn parse_expr_bp(&mut self, min_bp: u8) -> (r: ParseResult<Expr>)
        requires
            [C05:prefix.not_binds_tighter_than_and] min_bp > 3,
            [C05:prefix.not_binds_looser_than_comparison] min_bp <= 5,
    { unimplemented!() }

//@fn crates/axmos-db/src/sql/parser/mod.rs | impl Parser | parse_prefix
//@ arm /Token::Not => \{/ => fn not_arm(&mut self) -> ParseResult<Expr>
//@end
}

} // verus!
