//@unit name=precedence props=C05
//@strip-pub
// Unit `precedence`: the Pratt parser's binding-power table (C05: predicates follow the documented
// operator precedence: OR < AND < comparison / LIKE / IN / BETWEEN / IS < additive / || < multiplicative,
// all binary operators left-associative).
//@trusted [env] Lexer::__peek_token returns the token after the current one (abstract); the driver loop parse_expr_bp / parse_infix consult this table exactly as in a textbook Pratt parser (not under contract: they build AST values with String payloads)
use vstd::prelude::*;

verus! {

//@item crates/axmos-db/src/sql/parser/lexer.rs | - | enum Token

pub struct Parser { current_token: Token, peeked: Token }
impl Parser {
    #[verifier::external_body]
    pub fn __peek_token(&mut self) -> (r: Token)
        ensures r == old(self).peeked, final(self).current_token == old(self).current_token, final(self).peeked == old(self).peeked,
    { unimplemented!() }

    pub closed spec fn cur(&self) -> Token { self.current_token }
    pub closed spec fn next(&self) -> Token { self.peeked }

//@fn crates/axmos-db/src/sql/parser/mod.rs | impl Parser | infix_binding_power
//@ ensures
//@   [C05:prec.left_associative] r matches Some(p) ==> p.0 < p.1,
//@   [C05:prec.or_lowest] old(self).cur() is Or ==> r == Some((1u8, 2u8)),
//@   [C05:prec.and_above_or] old(self).cur() is And ==> (r matches Some(p) && p.0 > 2),
//@   [C05:prec.comparison_above_and] (old(self).cur() is Eq || old(self).cur() is Neq || old(self).cur() is Lt || old(self).cur() is Gt || old(self).cur() is Le || old(self).cur() is Ge || old(self).cur() is Like || old(self).cur() is In || old(self).cur() is Between || old(self).cur() is Is) ==> (r matches Some(p) && p.0 > 4 && p.1 < 7),
//@   [C05:prec.additive_above_comparison] (old(self).cur() is Plus || old(self).cur() is Minus || old(self).cur() is Concat) ==> (r matches Some(p) && p.0 > 6 && p.1 < 9),
//@   [C05:prec.multiplicative_highest] (old(self).cur() is Star || old(self).cur() is Slash || old(self).cur() is Percent) ==> (r matches Some(p) && p.0 > 8),
//@   [C05:prec.not_only_before_in_between_like] old(self).cur() is Not ==> ((r is Some) == (old(self).next() is In || old(self).next() is Between || old(self).next() is Like)),
//@   [C05:prec.not_binds_like_comparison] (old(self).cur() is Not && r is Some) ==> (r matches Some(p) && p.0 > 4 && p.1 < 7),
//@   [C05:prec.keeps_token] final(self).cur() == old(self).cur(),
//@end
}

} // verus!
