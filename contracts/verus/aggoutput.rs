//@unit name=aggoutput props=C05,C16
//@strip-pub
// Unit `aggoutput`: HashAggregate::bucket_to_row -- the output row of one group.
//   C05 "results as SQL defines": the row follows the SELECT LIST, not the internal order of the
//   hash table: every position that is the select item of an aggregate holds that aggregate's
//   finalized value, every other position holds the next group key (the planner lists the selected
//   keys first, in select order), each cast to the type of the output column AT THAT POSITION; the
//   row is exactly as wide as the output schema.
//   C16: no index leaves the accumulators, the keys or the schema (a key that is missing is an error).
//@trusted [env] Accumulator::finalize (unit aggregates), DataType::try_cast (unit types: C19), Schema::{num_columns, column}, Column::datatype, Row::new as abstract functions; Vec::get as specified here (Some(&v[i]) iff i < len)
//@trusted [sub] `for acc in bucket.accumulators { finalized.push(acc.finalize()?); }` (a loop that consumes the vector) -> the same loop by index with `finalize_at(i)`; `Row::new(values.into_boxed_slice())` -> `Row::from_vec(values)`; `bucket.key.get(next_key)` -> `key_at(&bucket.key, next_key)`
use vstd::prelude::*;

verus! {

pub struct RuntimeError { pub code: u8 }
impl RuntimeError { #[verifier::external_body] #[allow(non_snake_case)] pub fn ColumnNotFound(i: usize) -> RuntimeError { unimplemented!() } }
pub type RuntimeResult<T> = Result<T, RuntimeError>;

#[derive(Clone, Copy, PartialEq, Eq)]
pub enum DataTypeKind { Int, BigInt, Double, Text, Other }
#[verifier::external_body]
pub struct DataType { _p: () }
pub uninterp spec fn cast(v: DataType, ty: DataTypeKind) -> Option<DataType>;
impl DataType {
    #[verifier::external_body]
    pub fn clone(&self) -> (r: DataType) ensures r == *self { unimplemented!() }
    #[verifier::external_body]
    pub fn try_cast(&self, ty: DataTypeKind) -> (r: RuntimeResult<DataType>) ensures r matches Ok(v) ==> cast(*self, ty) == Some(v) { unimplemented!() }
}
#[verifier::external_body]
pub struct Column { _p: () }
impl Column {
    pub uninterp spec fn ty(&self) -> DataTypeKind;
    #[verifier::external_body]
    pub fn datatype(&self) -> (r: DataTypeKind) ensures r == self.ty() { unimplemented!() }
}
#[verifier::external_body]
pub struct Schema { _p: () }
impl Schema {
    pub uninterp spec fn cols(&self) -> Seq<Column>;
    #[verifier::external_body]
    pub fn num_columns(&self) -> (r: usize) ensures r == self.cols().len() { unimplemented!() }
    #[verifier::external_body]
    pub fn column(&self, i: usize) -> (r: Option<&Column>) ensures i < self.cols().len() ==> r == Some(&self.cols()[i as int]), i >= self.cols().len() ==> r is None { unimplemented!() }
}
#[verifier::external_body]
pub struct Accumulator { _p: () }
pub uninterp spec fn fin(a: Accumulator) -> DataType;
#[verifier::external_body]
pub fn finalize_at(accs: &Vec<Accumulator>, i: usize) -> (r: RuntimeResult<DataType>)
    requires i < accs@.len(),
    ensures r matches Ok(v) ==> v == fin(accs@[i as int]) { unimplemented!() }
#[verifier::external_body]
pub fn key_at(keys: &Vec<DataType>, i: usize) -> (r: Option<&DataType>)
    ensures i < keys@.len() ==> r == Some(&keys@[i as int]), i >= keys@.len() ==> r is None { unimplemented!() }

pub struct AggregateExpr { pub output_idx: usize, pub distinct: bool }
pub struct GroupBucket { pub key: Vec<DataType>, pub accumulators: Vec<Accumulator> }
#[verifier::external_body]
pub struct Row { _p: () }
impl Row {
    pub uninterp spec fn vals(&self) -> Seq<DataType>;
    #[verifier::external_body]
    pub fn from_vec(v: Vec<DataType>) -> (r: Row) ensures r.vals() == v@ { unimplemented!() }
}

pub open spec fn agg_pos(aggs: Seq<AggregateExpr>, c: int) -> bool { exists|i: int| 0 <= i < aggs.len() && (#[trigger] aggs[i]).output_idx == c }
// how many key positions lie before position c
pub open spec fn rank(aggs: Seq<AggregateExpr>, c: int) -> int
    decreases c
{
    if c <= 0 { 0 } else { rank(aggs, c - 1) + (if agg_pos(aggs, c - 1) { 0int } else { 1int }) }
}
// position c of the output row is right
pub open spec fn cell_ok(v: DataType, c: int, aggs: Seq<AggregateExpr>, accs: Seq<Accumulator>, keys: Seq<DataType>, out: &Schema) -> bool {
    if agg_pos(aggs, c) {
        exists|i: int| 0 <= i < aggs.len() && i < accs.len() && (#[trigger] aggs[i]).output_idx == c && cast(fin(accs[i]), out.cols()[c].ty()) == Some(v)
    } else {
        0 <= rank(aggs, c) < keys.len() && cast(keys[rank(aggs, c)], out.cols()[c].ty()) == Some(v)
    }
}

pub struct HashAggregate { pub output_schema: Schema, pub aggregates: Vec<AggregateExpr> }
impl HashAggregate {
//@fn crates/axmos-db/src/runtime/ops/aggregate.rs | impl<Child: Executor> HashAggregate<Child> | bucket_to_row
//@ sub /for acc in bucket\.accumulators \{\s*finalized\.push\(acc\.finalize\(\)\?\);/ => for axv_a in 0..bucket.accumulators.len() { finalized.push(finalize_at(&bucket.accumulators, axv_a)?);
//@ sub /Row::new\(values\.into_boxed_slice\(\)\)/ => Row::from_vec(values)
//@ sub /bucket\s*\.key\s*\.get\(next_key\)/ => key_at(&bucket.key, next_key)
//@ requires
//@   self.aggregates@.len() == bucket.accumulators@.len(),
//@ ensures
//@   [C05:aggrow.the_row_is_as_wide_as_the_select_list] r matches Ok(row) ==> row.vals().len() == self.output_schema.cols().len(),
//@   [C05:aggrow.aggregates_sit_at_their_select_positions_keys_fill_the_rest_in_order] r matches Ok(row) ==> (forall|c: int| 0 <= c < row.vals().len() ==> cell_ok(#[trigger] row.vals()[c], c, self.aggregates@, bucket.accumulators@, bucket.key@, &self.output_schema)),
//@ loop 1
//@   invariant
//@     finalized@.len() == axv_a,
//@     forall|j: int| 0 <= j < axv_a ==> #[trigger] finalized@[j] == fin(bucket.accumulators@[j]),
//@ loop 2
//@   invariant
//@     finalized@.len() == bucket.accumulators@.len(),
//@     self.aggregates@.len() == bucket.accumulators@.len(),
//@     forall|j: int| 0 <= j < finalized@.len() ==> #[trigger] finalized@[j] == fin(bucket.accumulators@[j]),
//@     num_columns == self.output_schema.cols().len(),
//@     values@.len() == col_idx,
//@     next_key == rank(self.aggregates@, col_idx as int),
//@     next_key <= col_idx,
//@     forall|c: int| 0 <= c < col_idx ==> cell_ok(#[trigger] values@[c], c, self.aggregates@, bucket.accumulators@, bucket.key@, &self.output_schema),
//@ loop 3
//@   invariant
//@     self.aggregates@.len() == bucket.accumulators@.len(),
//@     aggregate matches Some(k) ==> k < self.aggregates@.len() && self.aggregates@[k as int].output_idx == col_idx,
//@     aggregate is None ==> (forall|j: int| 0 <= j < i ==> (#[trigger] self.aggregates@[j]).output_idx != col_idx),
//@end
}

} // verus!
