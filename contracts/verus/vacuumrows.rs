//@unit name=vacuumrows props=C13,C03
//@strip-pub
// Unit `vacuumrows`: what VACUUM decides for one stored row (the closure body Catalog::vacuum_btree
// runs on every cell, checked as a function of the values it captures, R11).
//   C13: "VACUUM never changes the result of any query issued after it, whatever happened before it
//   (... rolled-back deletes ...); it removes only versions no transaction can need".
//   VACUUM runs after every open transaction has been aborted, so for every later reader a creator
//   or deleter id stored in a row is either in the snapshot's aborted set or committed. A row is
//   `dead` exactly when no later reader can see it: its creator rolled back, or it carries the delete
//   mark of a transaction that did NOT roll back. Only dead rows may be queued for removal. A live
//   row that carries the mark of a rolled-back deleter is queued for rewriting WITHOUT the mark:
//   Database::vacuum trims the aborted set afterwards (Pager::clear_aborted_up_to), and a mark whose
//   owner is no longer known as aborted reads as a committed delete.
//   C03: a rolled-back DELETE leaves no effect -- the row survives VACUUM and the mark is gone.
//@trusted [env] Tuple::{from_slice_unchecked, xmin, xmax, is_deleted, full_data, clear_delete_mark} read / rewrite the tuple header (Kani unit tuplelayout: header_roundtrip, tuple_clear_delete_mark); Tuple::vaccum_with keeps a prefix of the image that contains the header (unit versionchain: vacuum.keeps_exactly_the_deltas_at_or_above_horizon), so creator and deleter are unchanged; Snapshot::is_transaction_aborted is membership in the aborted set (unit visibility)
//@trusted [sub] `total_freed += freed` on the captured counter becomes the env call add_freed(total_freed, freed) on the `&mut usize` parameter (R8): exact when the sum fits, unspecified otherwise (the counter is a statistic; its overflow is not decided here); Option::{is_some_and, is_none_or} at assumed std specifications (the closure's own contract)
//@trusted [outside] the two loops after the scan (Btree::update of the rewritten rows, Btree::remove_tuple of the dead ones) and the clean-up of the coordinator / aborted set in Database::vacuum
use vstd::prelude::*;

verus! {

// std specifications vstd does not carry (sound: they say what the std functions do)
pub assume_specification<T, F: FnOnce(T) -> bool>[ Option::<T>::is_none_or ](o: Option<T>, f: F) -> (r: bool)
    requires o matches Some(v) ==> f.requires((v,)),
    ensures o is None ==> r, o matches Some(v) ==> f.ensures((v,), r);
pub assume_specification<T, F: FnOnce(T) -> bool>[ Option::<T>::is_some_and ](o: Option<T>, f: F) -> (r: bool)
    requires o matches Some(v) ==> f.requires((v,)),
    ensures o is None ==> !r, o matches Some(v) ==> f.ensures((v,), r);


pub struct TupleError { pub code: u8 }
pub type TupleResult<T> = Result<T, TupleError>;
pub type TransactionId = u64;

#[verifier::external_body]
pub struct Schema { _p: () }

#[verifier::external_body]
pub struct Snapshot { _p: () }
impl Snapshot {
    pub uninterp spec fn aborted(&self) -> Set<u64>;
    #[verifier::external_body]
    pub fn is_transaction_aborted(&self, xid: TransactionId) -> (r: bool) ensures r == self.aborted().contains(xid) { unimplemented!() }
}

// creator / deleter stored in the header of a tuple image
pub uninterp spec fn hdr_xmin(d: Seq<u8>) -> u64;
pub uninterp spec fn hdr_xmax(d: Seq<u8>) -> Option<u64>;

#[verifier::external_body]
pub struct Tuple { _p: () }
impl Tuple {
    pub uninterp spec fn src(&self) -> Seq<u8>;          // the cell this tuple was copied from
    pub uninterp spec fn creator(&self) -> u64;
    pub uninterp spec fn deleter(&self) -> Option<u64>;
    pub uninterp spec fn size(&self) -> nat;
    #[verifier::external_body]
    pub fn from_slice_unchecked(buffer: &[u8]) -> (r: TupleResult<Tuple>)
        ensures r matches Ok(t) ==> t.src() == buffer@ && t.creator() == hdr_xmin(buffer@) && t.deleter() == hdr_xmax(buffer@) && t.size() == buffer@.len() { unimplemented!() }
    #[verifier::external_body]
    pub fn xmin(&self) -> (r: TransactionId) ensures r == self.creator() { unimplemented!() }
    #[verifier::external_body]
    pub fn xmax(&self) -> (r: Option<TransactionId>) ensures r == self.deleter() { unimplemented!() }
    #[verifier::external_body]
    pub fn is_deleted(&self) -> (r: bool) ensures r == (self.deleter() is Some) { unimplemented!() }
    #[verifier::external_body]
    pub fn full_data(&self) -> (r: &[u8]) ensures r@.len() == self.size() { unimplemented!() }
    #[verifier::external_body]
    pub fn clear_delete_mark(&mut self) -> (r: TupleResult<()>)
        ensures final(self).src() == old(self).src(), final(self).creator() == old(self).creator(), final(self).size() == old(self).size(),
            r is Ok ==> final(self).deleter() is None,
            r is Err ==> final(self).deleter() == old(self).deleter() { unimplemented!() }
    #[verifier::external_body]
    pub fn vaccum_with(&mut self, oldest_active_xid: TransactionId, schema: &Schema) -> (r: TupleResult<usize>)
        ensures final(self).src() == old(self).src(), final(self).creator() == old(self).creator(), final(self).deleter() == old(self).deleter(),
            r matches Ok(n) ==> n <= old(self).size() && final(self).size() == old(self).size() - n,
            r is Err ==> final(self).size() == old(self).size() { unimplemented!() }
}

#[verifier::external_body]
pub fn add_freed(c: &mut usize, n: usize)
    ensures *old(c) + n <= usize::MAX ==> *final(c) == *old(c) + n { unimplemented!() }

// no reader that starts after VACUUM can see the row stored in `d`
pub open spec fn dead(snap: &Snapshot, d: Seq<u8>) -> bool {
    snap.aborted().contains(hdr_xmin(d)) || (hdr_xmax(d) matches Some(x) && !snap.aborted().contains(x))
}
pub open spec fn aborted_mark(snap: &Snapshot, d: Seq<u8>) -> bool {
    hdr_xmax(d) matches Some(x) && snap.aborted().contains(x)
}
pub open spec fn extends(after: Seq<Tuple>, before: Seq<Tuple>) -> bool {
    after.len() >= before.len() && after.subrange(0, before.len() as int) =~= before
}

//@fn crates/axmos-db/src/schema/catalog.rs | impl Catalog | vacuum_btree
//@ arm /tree\.with_cell_at\(pos, \|bytes\| \{/ => fn vacuum_cell(bytes: &[u8], snapshot: &Snapshot, oldest_active_xid: TransactionId, schema: &Schema, tuples_to_remove: &mut Vec<Tuple>, tuples_to_vaccum: &mut Vec<Tuple>, total_freed: &mut usize) -> Result<(), TupleError>
//@ sub /total_freed \+= freed;/ => add_freed(total_freed, freed);
//@ ensures
//@   [C13,C03:vacuum.removes_only_rows_no_reader_can_see] extends(final(tuples_to_remove)@, old(tuples_to_remove)@) && (forall|i: int| old(tuples_to_remove)@.len() <= i < final(tuples_to_remove)@.len() ==> dead(snapshot, (#[trigger] final(tuples_to_remove)@[i]).src()) && final(tuples_to_remove)@[i].src() == bytes@),
//@   [C13,C03:vacuum.live_row_is_never_queued_for_removal] !dead(snapshot, bytes@) ==> final(tuples_to_remove)@ == old(tuples_to_remove)@,
//@   [C13:vacuum.dead_row_is_removed] r is Ok && dead(snapshot, bytes@) ==> final(tuples_to_remove)@.len() == old(tuples_to_remove)@.len() + 1 && final(tuples_to_vaccum)@ == old(tuples_to_vaccum)@,
//@   [C13,C03:vacuum.rolled_back_delete_mark_is_cleared] r is Ok && !dead(snapshot, bytes@) && aborted_mark(snapshot, bytes@) ==> final(tuples_to_vaccum)@.len() == old(tuples_to_vaccum)@.len() + 1,
//@   [C13,C03:vacuum.rewritten_rows_keep_creator_and_carry_no_mark] extends(final(tuples_to_vaccum)@, old(tuples_to_vaccum)@) && (forall|i: int| old(tuples_to_vaccum)@.len() <= i < final(tuples_to_vaccum)@.len() ==> (#[trigger] final(tuples_to_vaccum)@[i]).src() == bytes@ && final(tuples_to_vaccum)@[i].creator() == hdr_xmin(bytes@) && final(tuples_to_vaccum)@[i].deleter() is None),
//@   [C13:vacuum.only_changed_rows_are_rewritten] forall|i: int| old(tuples_to_vaccum)@.len() <= i < final(tuples_to_vaccum)@.len() ==> (#[trigger] final(tuples_to_vaccum)@[i]).size() < bytes@.len() || aborted_mark(snapshot, bytes@),
//@   [C13:vacuum.counts_bytes_freed] r is Ok && *old(total_freed) + bytes@.len() <= usize::MAX ==> *final(total_freed) >= *old(total_freed) && *final(total_freed) <= *old(total_freed) + bytes@.len(),
//@end

} // verus!
