//@unit name=nosteal props=C01,C08,C12
//@strip-pub
// Unit `nosteal`: Pager::cache_frame -- the only place outside a checkpoint where the pager could write
// a cached page to the data file -- does not write (C01/C08: after a crash the data file is the state
// of the last checkpoint, the state the logical log was written against; C12: and no frame is lost).
// The argument is modular: PageCache::insert hands back only frames that are free and CLEAN (PROVED in
// unit cache: insert.evicts_only_free_and_clean, NO-STEAL, fix f7fd299), and cache_frame writes an
// evicted frame only if it is dirty. (Unit pagerio checks the same function WITHOUT that fact: what
// the write-back branch would do if it ran.) Pager::dealloc_page is the other former writer: unit
// pageralloc, dealloc.the_data_file_is_not_written.
//@trusted [env] PageCache::insert at the contract proved in unit cache (restated); WriteAheadLog::flush, write_block (through write_frame_block) as in unit pagerio
//@trusted [sub] `evicted.with_bytes_mut(|bytes| self.write_block(ID, &bytes, SIZE))` (closure over the frame's bytes) is write_frame_block(&evicted, ID, SIZE), as in unit pagerio
use vstd::prelude::*;

verus! {

type PageId = u64;
pub struct IoError { pub code: u8 }
pub mod io {
    pub(crate) type Result<T> = core::result::Result<T, super::IoError>;
}

#[verifier::external_body]
pub struct MemFrame { _p: () }
impl MemFrame {
    pub uninterp spec fn id(&self) -> u64;
    pub uninterp spec fn dirty(&self) -> bool;
    #[verifier::external_body]
    pub fn page_number(&self) -> (r: PageId) ensures r == self.id() { unimplemented!() }
    #[verifier::external_body]
    pub fn is_dirty(&self) -> (r: bool) ensures r == self.dirty() { unimplemented!() }
}

#[verifier::external_body]
pub struct PageCache { _p: () }
impl PageCache {
    pub uninterp spec fn frames(&self) -> Set<MemFrame>;
    // unit cache: insert.caches_the_frame / insert.no_loss / insert.evicts_only_free_and_clean / insert.err_keeps_all
    #[verifier::external_body]
    pub fn insert(&mut self, frame: MemFrame) -> (r: io::Result<Option<MemFrame>>)
        ensures
            r is Ok ==> final(self).frames().contains(frame),
            r is Ok ==> (forall|f: MemFrame| old(self).frames().contains(f) && f.id() != frame.id() ==> final(self).frames().contains(f) || r == Ok::<Option<MemFrame>, IoError>(Some(f))),
            r matches Ok(Some(v)) ==> !v.dirty(),
            r is Err ==> final(self).frames() == old(self).frames(),
    { unimplemented!() }
}

#[verifier::external_body]
pub struct WriteAheadLog { _p: () }
impl WriteAheadLog {
    #[verifier::external_body]
    pub fn flush(&mut self) -> (r: io::Result<()>) { unimplemented!() }
}

pub struct Pager { cache: PageCache, wal: WriteAheadLog, written: Ghost<Set<MemFrame>>, psize: usize }

impl Pager {
    pub closed spec fn written_set(&self) -> Set<MemFrame> { self.written@ }
    pub closed spec fn cached(&self) -> Set<MemFrame> { self.cache.frames() }
    pub fn page_size(&self) -> (r: usize) ensures r == self.psize { self.psize }

    // stands for frame.with_bytes_mut(|bytes| self.write_block(id, &bytes, size)): the frame's bytes go to the data file
    #[verifier::external_body]
    pub fn write_frame_block(&mut self, frame: &MemFrame, id: PageId, size: usize) -> (r: io::Result<()>)
        ensures
            final(self).cache == old(self).cache && final(self).psize == old(self).psize,
            final(self).written@ == old(self).written@.insert(*frame),      // written, or partly written: the data file has changed
    { unimplemented!() }

//@fn crates/axmos-db/src/io/pager.rs | impl Pager | cache_frame
//@ sub /evicted\.with_bytes_mut\(\|bytes\| self\.write_block\((\w+), &bytes, (\w+)\)\)\?;/ => self.write_frame_block(&evicted, \1, \2)?;
//@ ensures
//@   [C01,C08:cache_frame.the_data_file_changes_only_at_a_checkpoint] final(self).written_set() == old(self).written_set(),
//@   [C12:cache_frame.nothing_dirty_leaves_the_cache] forall|f: MemFrame| old(self).cached().contains(f) && f.id() != frame.id() && f.dirty() ==> final(self).cached().contains(f) || r is Err,
//@end
}

} // verus!
