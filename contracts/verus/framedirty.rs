//@unit name=framedirty props=C12,C09,C11
//@strip-pub
// Unit `framedirty`: every way of obtaining WRITE access to a cached page marks the frame dirty first
// (C12: data survives any amount of eviction -- eviction and the checkpoint write back only dirty
// frames, units cache/pagerio; C09: what a checkpoint must persist; C11: the free-list links
// dealloc_page writes through a write latch on the list's tail reach the file only if that frame is dirty).  Read access changes nothing.
//@trusted [env] Arc<AtomicBool> with SeqCst store/load is a sequential boolean cell (DirtyFlag); Arc<RwLock<P>> is an opaque Lock<P>; ReadLatch::new / WriteLatch::new (parking_lot guard acquisition) are abstract
//@trusted [R8] mark_dirty(&self) and try_from(value: &MemFrame) are checked with `&mut` receivers/parameters: the flag is interior-mutable state
//@trusted [sub] `match value {` on the (now `&mut`) parameter is `match &*value {`; `format!("..{}", value.id())` is the env message constructor fmt_id(value.id())
use vstd::prelude::*;

verus! {

type PageId = u64;
pub struct IoError { pub code: u8 }
pub enum ErrorKind { InvalidData, NotFound, InvalidInput }
pub struct Msg { pub m: u8 }
pub trait IntoMsg { fn conv(self) -> Msg; }
impl IntoMsg for &str { #[verifier::external_body] fn conv(self) -> Msg { unimplemented!() } }
impl IntoMsg for Msg { fn conv(self) -> Msg { self } }
impl IoError {
    #[verifier::external_body]
    pub fn new<M: IntoMsg>(k: ErrorKind, m: M) -> IoError { unimplemented!() }
}
#[verifier::external_body]
pub fn fmt_id(id: PageId) -> Msg { unimplemented!() }

pub enum Ordering { SeqCst }
pub struct DirtyFlag { pub v: bool }
impl DirtyFlag {
    pub fn store(&mut self, val: bool, o: Ordering) ensures final(self).v == val { self.v = val; }
    pub fn load(&self, o: Ordering) -> (r: bool) ensures r == self.v { self.v }
}
#[verifier::external_body]
#[verifier::reject_recursive_types(P)]
pub struct Lock<P> { _p: core::marker::PhantomData<P> }

pub struct BtreePage { pub x: u8 }
pub struct OverflowPage { pub x: u8 }
pub struct PageZero { pub x: u8 }

#[verifier::reject_recursive_types(P)]
pub struct Frame<P> { pub id: PageId, pub inner: Lock<P>, pub is_dirty: DirtyFlag }
type BtreeFrame = Frame<BtreePage>;
type OverflowFrame = Frame<OverflowPage>;
type PageZeroFrame = Frame<PageZero>;

#[verifier::external_body]
#[verifier::reject_recursive_types(P)]
pub struct ReadLatch<P> { _p: core::marker::PhantomData<P> }
#[verifier::external_body]
#[verifier::reject_recursive_types(P)]
pub struct WriteLatch<P> { _p: core::marker::PhantomData<P> }
impl<P> ReadLatch<P> {
    #[verifier::external_body]
    pub fn new(l: &Lock<P>) -> Self { unimplemented!() }
}
impl<P> WriteLatch<P> {
    #[verifier::external_body]
    pub fn new(l: &Lock<P>) -> Self { unimplemented!() }
}

impl<P> Frame<P> {
    pub open spec fn dirty(&self) -> bool { self.is_dirty.v }

//@fn crates/axmos-db/src/multithreading/frames.rs | impl<P> Frame<P> | is_dirty
//@ ensures
//@   [C12,C09:frame.is_dirty_reads_flag] r == self.dirty(),
//@end

//@fn crates/axmos-db/src/multithreading/frames.rs | impl<P> Frame<P> | mark_dirty
//@ mutself
//@ ensures
//@   [C12,C09:frame.mark_dirty_sets_flag] final(self).dirty(),
//@   [C12:frame.mark_dirty_frame] final(self).id == old(self).id && final(self).inner == old(self).inner,
//@end
}

//@item crates/axmos-db/src/multithreading/frames.rs | - | enum MemFrame

impl MemFrame {
    pub open spec fn dirty(&self) -> bool {
        match self { MemFrame::Btree(f) => f.dirty(), MemFrame::Overflow(f) => f.dirty(), MemFrame::Zero(f) => f.dirty() }
    }
    pub open spec fn same_page(&self, o: &MemFrame) -> bool {
        match (self, o) {
            (MemFrame::Btree(f), MemFrame::Btree(g)) => f.id == g.id && f.inner == g.inner,
            (MemFrame::Overflow(f), MemFrame::Overflow(g)) => f.id == g.id && f.inner == g.inner,
            (MemFrame::Zero(f), MemFrame::Zero(g)) => f.id == g.id && f.inner == g.inner,
            _ => false,
        }
    }
    #[verifier::external_body]
    pub fn id(&self) -> PageId { unimplemented!() }

//@fn crates/axmos-db/src/multithreading/frames.rs | impl MemFrame | is_dirty
//@ ensures
//@   [C12,C09:memframe.is_dirty_reads_flag] r == self.dirty(),
//@end

//@fn crates/axmos-db/src/multithreading/frames.rs | impl MemFrame | mark_dirty
//@ mutself
//@ ensures
//@   [C12,C09:memframe.mark_dirty_sets_flag] final(self).dirty(),
//@   [C12:memframe.mark_dirty_frame] final(self).same_page(old(self)),
//@end
}

impl WriteLatch<BtreePage> {
//@fn crates/axmos-db/src/multithreading/frames.rs | impl TryFrom<&MemFrame> for WriteLatch<BtreePage> | try_from
//@ mutparam value
//@ sub /Result<Self, Self::Error>/ => Result<Self, IoError>
//@ sub /match value \{/ => match &*value {
//@ sub /format!\("Expected btreepage frame\. Page id: \{\}", value\.id\(\)\)/ => fmt_id(value.id())
//@ ensures
//@   [C12,C09,C11:latch.write_btree_marks_dirty] final(value).dirty(),
//@   [C12:latch.write_btree_same_page] final(value).same_page(old(value)),
//@   [C12:latch.write_btree_checks_kind] r is Ok <==> (*old(value)) is Btree,
//@end
}
impl WriteLatch<OverflowPage> {
//@fn crates/axmos-db/src/multithreading/frames.rs | impl TryFrom<&MemFrame> for WriteLatch<OverflowPage> | try_from
//@ mutparam value
//@ sub /Result<Self, Self::Error>/ => Result<Self, IoError>
//@ sub /match value \{/ => match &*value {
//@ ensures
//@   [C12,C09,C11:latch.write_overflow_marks_dirty] final(value).dirty(),
//@   [C12:latch.write_overflow_same_page] final(value).same_page(old(value)),
//@   [C12:latch.write_overflow_checks_kind] r is Ok <==> (*old(value)) is Overflow,
//@end
}
impl WriteLatch<PageZero> {
//@fn crates/axmos-db/src/multithreading/frames.rs | impl TryFrom<&MemFrame> for WriteLatch<PageZero> | try_from
//@ mutparam value
//@ sub /Result<Self, Self::Error>/ => Result<Self, IoError>
//@ sub /match value \{/ => match &*value {
//@ ensures
//@   [C12,C09,C11:latch.write_zero_marks_dirty] final(value).dirty(),
//@   [C12:latch.write_zero_same_page] final(value).same_page(old(value)),
//@   [C12:latch.write_zero_checks_kind] r is Ok <==> (*old(value)) is Zero,
//@end
}
impl ReadLatch<BtreePage> {
//@fn crates/axmos-db/src/multithreading/frames.rs | impl TryFrom<&MemFrame> for ReadLatch<BtreePage> | try_from
//@ sub /Result<Self, Self::Error>/ => Result<Self, IoError>
//@ sub /format!\("Expected btreepage frame\. Page id: \{\}", value\.id\(\)\)/ => fmt_id(value.id())
//@ ensures
//@   [C12:latch.read_btree_checks_kind] r is Ok <==> value is Btree,
//@end
}
impl ReadLatch<OverflowPage> {
//@fn crates/axmos-db/src/multithreading/frames.rs | impl TryFrom<&MemFrame> for ReadLatch<OverflowPage> | try_from
//@ sub /Result<Self, Self::Error>/ => Result<Self, IoError>
//@ ensures
//@   [C12:latch.read_overflow_checks_kind] r is Ok <==> value is Overflow,
//@end
}
impl ReadLatch<PageZero> {
//@fn crates/axmos-db/src/multithreading/frames.rs | impl TryFrom<&MemFrame> for ReadLatch<PageZero> | try_from
//@ sub /Result<Self, Self::Error>/ => Result<Self, IoError>
//@ ensures
//@   [C12:latch.read_zero_checks_kind] r is Ok <==> value is Zero,
//@end
}

} // verus!
