//@unit name=dmlwal props=C01,C02,C03,C04,C09,C10,C07
//@strip-pub
// Unit `dmlwal`: the three row-level write paths DmlExecutor::{insert, update, delete}.
//   C01/C02 write-ahead rule: the log record naming this table and this row is appended BEFORE the
//           table's tree is modified, on every path, and a path that modifies nothing logs nothing.
//   C03     a delete mark left by a rolled-back transaction does not block a later delete.
//   C03/C04 every version written carries the writing transaction's own id (creator of an inserted
//           or updated version, deleter of a deleted one); a row the transaction's snapshot cannot
//           see is neither logged nor modified.
//   C07 constraint validation (NOT NULL: unit notnull; UNIQUE / foreign keys: outside) of the row
//           image that is going to be stored comes before the log record and the tree write.
// Typestate: covered(root, key) ("a log record for this row of this table has been appended") and
// Tuple::writer() are facts about immutable values established only by the env's log_* / stamping
// calls; the env states no negative fact, so a fact is available exactly when the call came first.
//@trusted [env] catalog lookup, B+tree search/insert/update (units btsearch, btentry), tuple building and version stamping (Kani unit tuplelayout), logger (unit wal), secondary-index maintenance and constraint validation are abstract
//@trusted [env] Tuple::add_version_with is given the contract `the newest version is created by tid`; that contract is what unit tupleversion checks on the real function (and where the open finding update.newest_version_created_by_writer lives)
//@trusted [pre] a row visible to the writer carries a delete mark only if that mark was left by a rolled-back transaction (a mark of a committed deleter makes the row invisible; marks of concurrent uncommitted deleters are excluded: no write over another transaction's uncommitted write)
//@trusted [pre] row ids stay below 2^64 - 16 (one per INSERT); column 0 of a full row is its BIGUINT row id (build_full_row writes it, casts go to the column's type)
//@trusted [sub] `&full_row[0]` is full_row.first_col(); `a.max(b)` on u64 is max_u64(a, b)
//@trusted [pre] ThreadContext is well formed: ctx.tid() == ctx.snapshot().xid() (both copied from the same TransactionHandle when the context is built)
//@trusted [sub] `btree.with_cell_at(position, |bytes| { tuple_reader.parse_for_snapshot(bytes, &snapshot).ok()??; Tuple::from_slice_unchecked(bytes).ok() })` is visible_tuple_at(position, &tuple_reader, &snapshot); Box::from(&t) is boxed(&t); HashMap<usize, DataType> is the opaque Assignments; `.expect(msg)` is `.unwrap()`
use vstd::prelude::*;

verus! {

type ObjectId = u64;
type PageId = u64;
type RowId = u64;
type TransactionId = u64;
pub struct RtError { pub code: u8 }
pub type RuntimeResult<T> = Result<T, RtError>;

pub uninterp spec fn ser(v: u64) -> Seq<u8>;          // UInt64::serialize
pub uninterp spec fn root_of(oid: u64) -> u64;        // the table's tree root
pub uninterp spec fn covered(root: u64, key: Seq<u8>) -> bool;
pub uninterp spec fn persisted_next(table: u64, n: u64) -> bool;   // update_relation stored n as the table's next row id
pub fn max_u64(a: u64, b: u64) -> (r: u64) ensures r == if a >= b { a } else { b } { if a >= b { a } else { b } }

pub struct InsertResult { pub row_id: u64 }
pub struct UpdateResult { pub updated: bool }
pub struct DeleteResult { pub deleted: bool }

#[derive(Clone, Copy)]
pub struct UInt64(pub u64);
impl UInt64 {
    pub open spec fn v(&self) -> u64 { self.0 }
    #[verifier::external_body]
    pub fn value(&self) -> (r: u64) ensures r == self.v() { unimplemented!() }
    #[verifier::external_body]
    pub fn serialize(&self) -> (r: RuntimeResult<Vec<u8>>) ensures r matches Ok(b) ==> b@ == ser(self.v()) { unimplemented!() }
}
#[verifier::external_body]
pub struct Snapshot { _p: () }
impl Snapshot {
    pub uninterp spec fn id(&self) -> u64;
    #[verifier::external_body]
    pub fn xid(&self) -> (r: u64) ensures r == self.id() { unimplemented!() }
    #[verifier::external_body]
    pub fn xmin(&self) -> (r: u64) { unimplemented!() }
    pub uninterp spec fn aborted(&self, t: u64) -> bool;
    #[verifier::external_body]
    pub fn is_transaction_aborted(&self, t: u64) -> (r: bool) ensures r == self.aborted(t) { unimplemented!() }
    #[verifier::external_body]
    pub fn clone(&self) -> (r: Snapshot) ensures r.id() == self.id() { unimplemented!() }
}
#[verifier::external_body]
pub struct Schema { _p: () }
impl Schema { #[verifier::external_body] pub fn clone(&self) -> (r: Schema) { unimplemented!() } }
#[verifier::external_body]
pub struct BtreeBuilder { _p: () }
#[verifier::external_body]
pub struct IndexHandle { _p: () }
pub enum DataType { BigUInt(UInt64), Other(u64) }
#[verifier::external_body]
pub struct Assignments { _p: () }
#[verifier::external_body]
pub struct Stats { _p: () }
#[verifier::external_body]
pub struct Row { _p: () }
pub uninterp spec fn vals_ok(v: Seq<DataType>) -> bool;          // "these column values passed constraint validation"
pub uninterp spec fn upd_ok(old: Seq<DataType>, a: &Assignments) -> bool;   // "old values with these assignments applied passed validation"
impl Row {
    pub uninterp spec fn rid(&self) -> u64;
    pub uninterp spec fn vals(&self) -> Seq<DataType>;
    #[verifier::external_body]
    pub fn as_slice(&self) -> (r: &[DataType]) ensures r@ == self.vals() { unimplemented!() }
    // `&row[0]`: the row id column; the stored row id IS this column's value
    #[verifier::external_body]
    pub fn first_col(&self) -> (r: &DataType) ensures r is BigUInt, r matches DataType::BigUInt(u) ==> u.v() == self.rid() && u.v() < 0xffff_ffff_ffff_fff0 { unimplemented!() }
}

#[verifier::external_body]
pub struct Tuple { _p: () }
impl Tuple {
    pub uninterp spec fn key(&self) -> Seq<u8>;
    pub uninterp spec fn writer(&self) -> u64;     // who stamped the newest version / the delete mark
    pub uninterp spec fn checked(&self) -> bool;   // the stored image was built from validated values
    #[verifier::external_body]
    pub fn clone(&self) -> (r: Tuple) ensures r.key() == self.key() && r.mark() == self.mark() && r.writer() == self.writer() && r.checked() == self.checked() { unimplemented!() }
    pub uninterp spec fn mark(&self) -> Option<u64>;    // the delete mark (xmax) of the stored tuple
    #[verifier::external_body]
    pub fn xmax(&self) -> (r: Option<TransactionId>) ensures r == self.mark() { unimplemented!() }
    // Tuple::clear_delete_mark: header rewritten with xmax = None, nothing else
    #[verifier::external_body]
    pub fn clear_delete_mark(&mut self) -> (r: RuntimeResult<()>)
        ensures final(self).key() == old(self).key(), final(self).checked() == old(self).checked(), r is Ok ==> final(self).mark() is None, r is Err ==> final(self).mark() == old(self).mark() { unimplemented!() }
    // Tuple::delete KEEPS an existing mark (Kani unit tuplelayout: tuple.delete_stamps_deleter)
    #[verifier::external_body]
    pub fn delete(&mut self, xid: TransactionId) -> (r: RuntimeResult<()>)
        ensures final(self).key() == old(self).key(),
            r is Ok && old(self).mark() is None ==> final(self).writer() == xid && final(self).mark() == Some(xid),
            old(self).mark() is Some ==> final(self).writer() == old(self).writer() && final(self).mark() == old(self).mark(),
    { unimplemented!() }
    #[verifier::external_body]
    pub fn add_version_with(&mut self, a: &Assignments, tid: TransactionId, s: &Schema) -> (r: RuntimeResult<()>)
        ensures final(self).key() == old(self).key(), r is Ok ==> final(self).writer() == tid,
            r is Ok ==> (forall|o: Seq<DataType>| upd_ok(o, a) ==> final(self).checked()) { unimplemented!() }
    pub uninterp spec fn del(&self) -> bool;
    #[verifier::external_body]
    pub fn is_deleted(&self) -> (r: bool) ensures r == self.del() { unimplemented!() }
    #[verifier::external_body]
    pub fn as_tuple_ref(&self, s: &Schema, snap: &Snapshot) -> (r: Option<TupleRef>)
        ensures self.writer() == snap.id() ==> r is Some { unimplemented!() }   // own writes are visible
}
#[verifier::external_body]
pub struct TupleRef { _p: () }
impl TupleRef { #[verifier::external_body] pub fn to_row_with(&self, s: &Schema) -> RuntimeResult<Row> { unimplemented!() } }
#[verifier::external_body]
pub struct TupleBuilder { _p: () }
impl TupleBuilder {
    #[verifier::external_body]
    pub fn from_schema(s: &Schema) -> TupleBuilder { unimplemented!() }
    #[verifier::external_body]
    pub fn build(&self, row: &Row, tid: TransactionId) -> (r: RuntimeResult<Tuple>)
        ensures r matches Ok(t) ==> t.key() == ser(row.rid()) && t.writer() == tid && (vals_ok(row.vals()) ==> t.checked()) { unimplemented!() }
}
#[verifier::external_body]
pub struct TupleReader { _p: () }
impl TupleReader { #[verifier::external_body] pub fn from_schema(s: &Schema) -> TupleReader { unimplemented!() } }
#[verifier::external_body]
pub struct Image { _p: () }
impl Image { pub uninterp spec fn of(&self) -> Tuple; }
#[verifier::external_body]
pub fn boxed(t: &Tuple) -> (r: Image) ensures r.of() == *t { unimplemented!() }

#[verifier::external_body]
pub struct Relation { _p: () }
impl Relation {
    pub uninterp spec fn oid(&self) -> u64;
    pub uninterp spec fn next(&self) -> u64;
    #[verifier::external_body]
    pub fn schema(&self) -> &Schema { unimplemented!() }
    #[verifier::external_body]
    pub fn root(&self) -> (r: PageId) ensures r == root_of(self.oid()) { unimplemented!() }
    #[verifier::external_body]
    pub fn object_id(&self) -> (r: ObjectId) ensures r == self.oid() { unimplemented!() }
    #[verifier::external_body]
    pub fn next_row_id(&self) -> (r: UInt64) ensures r.v() == self.next() { unimplemented!() }
    #[verifier::external_body]
    pub fn increment_row_id(&mut self) ensures final(self).oid() == old(self).oid(), final(self).next() == old(self).next() + 1 { unimplemented!() }
    #[verifier::external_body]
    pub fn get_indexes(&self) -> Vec<IndexHandle> { unimplemented!() }
}
#[verifier::external_body]
pub struct Catalog { _p: () }
impl Catalog {
    pub uninterp spec fn next_row(&self, id: u64) -> u64;     // the table's persisted next row id
    #[verifier::external_body]
    pub fn get_relation(&self, id: ObjectId, b: &BtreeBuilder, s: &Snapshot) -> (r: RuntimeResult<Relation>)
        ensures r matches Ok(rel) ==> rel.oid() == id && rel.next() == self.next_row(id) { unimplemented!() }
    #[verifier::external_body]
    pub fn update_relation(&self, id: ObjectId, new_row_id: Option<u64>, new_schema: Option<Schema>, new_stats: Option<Stats>, b: &BtreeBuilder, s: &Snapshot) -> (r: RuntimeResult<()>)
        requires [C09:insert.row_id_counter_never_goes_back] new_row_id matches Some(n) && n >= self.next_row(id) + 1,
        ensures r is Ok ==> (new_row_id matches Some(n) ==> persisted_next(id, n)),
    { unimplemented!() }
}

pub enum SearchResult { Found(u64), NotFound(u64) }
#[verifier::external_body]
pub struct Btree { _p: () }
impl Btree {
    pub uninterp spec fn root(&self) -> u64;
    pub uninterp spec fn owner(&self) -> u64;                 // the transaction this accessor works for
    pub uninterp spec fn key_at(&self, pos: u64) -> Seq<u8>;
    pub uninterp spec fn writes(&self) -> nat;                // number of modifications made through this accessor
    #[verifier::external_body]
    pub fn search(&mut self, key: &Vec<u8>, s: &Schema) -> (r: RuntimeResult<SearchResult>)
        ensures final(self).root() == old(self).root() && final(self).owner() == old(self).owner() && final(self).writes() == old(self).writes(),
            r matches Ok(SearchResult::Found(p)) ==> final(self).key_at(p) == key@,
    { unimplemented!() }
    #[verifier::external_body]
    pub fn search_tuple(&mut self, t: &Tuple, s: &Schema) -> (r: RuntimeResult<SearchResult>)
        ensures final(self).root() == old(self).root() && final(self).owner() == old(self).owner() && final(self).writes() == old(self).writes(),
            r matches Ok(SearchResult::Found(p)) ==> final(self).key_at(p) == t.key(),
    { unimplemented!() }
    // TupleReader::parse_for_snapshot decides both (same cell, same snapshot)
    pub uninterp spec fn visible(&self, pos: u64, who: u64) -> bool;
    pub uninterp spec fn tombstone(&self, pos: u64) -> bool;   // the stored tuple carries a delete mark
    #[verifier::external_body]
    pub fn visible_tuple_at(&mut self, pos: u64, reader: &TupleReader, snap: &Snapshot) -> (r: RuntimeResult<Option<Tuple>>)
        ensures *final(self) == *old(self),
            r matches Ok(Some(t)) ==> t.key() == old(self).key_at(pos),
            r matches Ok(Some(t)) ==> (t.mark() matches Some(x) ==> snap.aborted(x)),
            r matches Ok(o) ==> (o is Some <==> old(self).visible(pos, snap.id())),
    { unimplemented!() }
    #[verifier::external_body]
    pub fn get_tuple_at_unchecked(&self, pos: u64, s: &Schema) -> (r: RuntimeResult<Tuple>)
        ensures r matches Ok(t) ==> t.key() == self.key_at(pos) && t.del() == self.tombstone(pos),
    { unimplemented!() }
    #[verifier::external_body]
    pub fn get_row_at(&mut self, pos: u64, s: &Schema, snap: &Snapshot) -> (r: RuntimeResult<Option<Row>>)
        ensures *final(self) == *old(self),
            r matches Ok(o) ==> (o is Some <==> old(self).visible(pos, snap.id())),
    { unimplemented!() }
    #[verifier::external_body]
    pub fn update(&mut self, root: PageId, t: Tuple, s: &Schema) -> (r: RuntimeResult<()>)
        requires
            [C10:dml.modifies_the_tree_it_opened] root == old(self).root(),
            [C01,C02:dml.update_logged_before_applied] covered(old(self).root(), t.key()),
            [C03,C04:dml.update_version_stamped_by_self] t.writer() == old(self).owner(),
            [C04:dml.modifies_only_rows_it_can_see] exists|p: u64| old(self).key_at(p) == t.key() && (old(self).visible(p, old(self).owner()) || old(self).tombstone(p)),
        ensures final(self).root() == old(self).root() && final(self).owner() == old(self).owner() && final(self).writes() == old(self).writes() + 1,
    { unimplemented!() }
    #[verifier::external_body]
    pub fn insert(&mut self, root: PageId, t: Tuple, s: &Schema) -> (r: RuntimeResult<()>)
        requires
            [C10:dml.inserts_into_the_tree_it_opened] root == old(self).root(),
            [C01,C02:dml.insert_logged_before_applied] covered(old(self).root(), t.key()),
            [C03,C04:dml.insert_version_stamped_by_self] t.writer() == old(self).owner(),
        ensures final(self).root() == old(self).root() && final(self).owner() == old(self).owner() && final(self).writes() == old(self).writes() + 1,
    { unimplemented!() }
}

#[verifier::external_body]
pub struct ThreadContext { _p: () }
impl ThreadContext {
    pub uninterp spec fn me(&self) -> u64;
    #[verifier::external_body]
    pub fn snapshot(&self) -> (r: &Snapshot) ensures r.id() == self.me() { unimplemented!() }
    #[verifier::external_body]
    pub fn tid(&self) -> (r: TransactionId) ensures r == self.me() { unimplemented!() }
    pub uninterp spec fn cat(&self) -> Catalog;
    #[verifier::external_body]
    pub fn catalog(&self) -> (r: &Catalog) ensures *r == self.cat() { unimplemented!() }
    #[verifier::external_body]
    pub fn tree_builder(&self) -> BtreeBuilder { unimplemented!() }
    #[verifier::external_body]
    pub fn build_tree_mut(&self, root: PageId) -> (r: Btree) ensures r.root() == root && r.owner() == self.me() && r.writes() == 0 { unimplemented!() }
}

#[verifier::external_body]
pub struct TransactionLogger { _p: () }
impl TransactionLogger {
    #[verifier::external_body]
    pub fn log_insert(&self, oid: ObjectId, rowid: RowId, data: Image) -> (r: RuntimeResult<()>)
        requires
            [C01,C02:dml.insert_log_names_the_row] ser(rowid) == data.of().key(),
            [C07:dml.insert_validated_before_logged] data.of().checked(),
        ensures r is Ok ==> covered(root_of(oid), data.of().key()),
    { unimplemented!() }
    #[verifier::external_body]
    pub fn log_update(&self, oid: ObjectId, rowid: RowId, old_data: Image, new_data: Image) -> (r: RuntimeResult<()>)
        requires
            [C01,C02:dml.update_log_names_the_row] ser(rowid) == old_data.of().key() && old_data.of().key() == new_data.of().key(),
            [C07:dml.update_validated_before_logged] new_data.of().checked(),
        ensures r is Ok ==> covered(root_of(oid), new_data.of().key()),
    { unimplemented!() }
    #[verifier::external_body]
    pub fn log_delete(&self, oid: ObjectId, rowid: RowId, old_data: Image) -> (r: RuntimeResult<()>)
        requires [C01,C02:dml.delete_log_names_the_row] ser(rowid) == old_data.of().key(),
        ensures r is Ok ==> covered(root_of(oid), old_data.of().key()),
    { unimplemented!() }
}

pub struct DmlExecutor { ctx: ThreadContext, logger: TransactionLogger }

impl DmlExecutor {
    #[verifier::external_body]
    // full_values[0] = BigUInt(row_id), then every input column is copied to its schema position: if the
    // caller supplies column 0 itself (recovery does), ITS value is the stored row id -- nothing is
    // promised about row.rid() vs row_id
    pub fn build_full_row(&self, schema: &Schema, columns: &[usize], values: &Row, row_id: UInt64) -> (r: RuntimeResult<Row>)
    { unimplemented!() }
    #[verifier::external_body]
    pub fn validate_insert_constraints(&self, relation: &Relation, new_values: &[DataType]) -> (r: RuntimeResult<()>)
        ensures r is Ok ==> vals_ok(new_values@) { unimplemented!() }
    #[verifier::external_body]
    pub fn validate_update_constraints(&self, relation: &Relation, old_values: &[DataType], assignments: &Assignments, row_id: RowId) -> (r: RuntimeResult<()>)
        ensures r is Ok ==> upd_ok(old_values@, assignments) { unimplemented!() }
    #[verifier::external_body]
    pub fn maintain_secondary_indexes(&mut self, indexes: &Vec<IndexHandle>, old_values: Option<Row>, new_values: Option<Row>, table_assignments: Option<Assignments>, table_schema: &Schema, row_id: RowId) -> (r: RuntimeResult<()>)
        ensures final(self).ctx == old(self).ctx { unimplemented!() }

//@fn crates/axmos-db/src/runtime/dml.rs | impl DmlExecutor | insert
//@ sub /Box::from\(&(\w+)\)/ => boxed(&\1)
//@ sub? /match &full_row\[0\] \{/ => match full_row.first_col() {
//@ sub? /relation\.next_row_id\(\)\.value\(\)\.max\(row_id\.value\(\) \+ 1\)/ => max_u64(relation.next_row_id().value(), row_id.value() + 1)
//@ requires
//@   old(self).ctx.cat().next_row(table_id) < 0xffff_ffff_ffff_fff0,
//@ ensures
//@   [C09,C01:insert.row_id_counter_stays_ahead_of_the_stored_row] r matches Ok(res) ==> (exists|n: u64| #[trigger] persisted_next(table_id, n) && n > res.row_id && n > old(self).ctx.cat().next_row(table_id)),
//@end

//@fn crates/axmos-db/src/runtime/dml.rs | impl DmlExecutor | update
//@ sub /assignments: HashMap<usize, DataType>/ => assignments: Assignments
//@ sub /btree\.with_cell_at\(position, \|bytes\| \{\s*tuple_reader\.parse_for_snapshot\(bytes, &snapshot\)\.ok\(\)\?\?;\s*Tuple::from_slice_unchecked\(bytes\)\.ok\(\)\s*\}\)/ => btree.visible_tuple_at(position, &tuple_reader, &snapshot)
//@ sub /Box::from\(&(\w+)\)/ => boxed(&\1)
//@ sub /\.expect\("[^"]*"\)/ => .unwrap()
//@end

//@fn crates/axmos-db/src/runtime/dml.rs | impl DmlExecutor | delete
//@ sub /btree\.with_cell_at\(position, \|bytes\| \{\s*tuple_reader\.parse_for_snapshot\(bytes, &snapshot\)\.ok\(\)\?\?;\s*Tuple::from_slice_unchecked\(bytes\)\.ok\(\)\s*\}\)/ => btree.visible_tuple_at(position, &tuple_reader, &snapshot)
//@ sub /Box::from\(&(\w+)\)/ => boxed(&\1)
//@ sub /\.expect\("[^"]*"\)/ => .unwrap()
//@end
}

} // verus!
