//@unit name=btleftmost props=C10,C16
//@strip-pub
// Unit `btleftmost`: Btree::get_left_most, where every forward scan starts (C10: every stored key is
// reached by a scan; C16: no panic).  An interior page may hold ZERO cells and only its right child
// (split of a page holding one large cell): the descent must take child(0), which is the right child
// then, and must not read slot 0 of an empty page.
//@trusted [env] pages are an abstract forest: page(id) gives num_slots, cells' left children and the right child; a child lies strictly below its parent (depth decreases: the tree is acyclic); get_page / release (latching through the accessor) do not change pages
//@trusted [pre] the tree is not empty (is_empty() is taken at its contract: root.num_slots == 0)
use vstd::prelude::*;

verus! {

type PageId = u64;
pub struct BtreeError { pub code: u8 }
pub type BtreeResult<T> = Result<T, BtreeError>;
impl BtreeError { pub const BtreeEmpty: BtreeError = BtreeError { code: 1 }; }

pub struct Position { pub page: PageId, pub slot: usize }
impl Position { pub fn new(page: PageId, slot: usize) -> (r: Position) ensures r.page == page && r.slot == slot { Position { page, slot } } }
type BtreePagePosition = Position;

pub uninterp spec fn nslots(p: PageId) -> nat;
pub uninterp spec fn left_child_of(p: PageId, i: int) -> Option<PageId>;   // None on leaf pages
pub uninterp spec fn right_child_of(p: PageId) -> Option<PageId>;          // None on leaf pages
pub uninterp spec fn depth(p: PageId) -> nat;
pub open spec fn child_spec(p: PageId, i: int) -> Option<PageId> { if i == nslots(p) { right_child_of(p) } else { left_child_of(p, i) } }
pub open spec fn wf_page(p: PageId) -> bool {
    &&& (right_child_of(p) matches Some(c) ==> depth(c) < depth(p))
    &&& (forall|i: int| 0 <= i < nslots(p) ==> (#[trigger] left_child_of(p, i) matches Some(c) ==> depth(c) < depth(p)))
    &&& (right_child_of(p) is None ==> forall|i: int| 0 <= i < nslots(p) ==> #[trigger] left_child_of(p, i) is None)
}
// first page of the scan: follow child 0 until there is none
pub open spec fn leftmost_leaf(p: PageId) -> PageId
    decreases depth(p)
{
    match child_spec(p, 0) { Some(c) => if wf_page(p) { leftmost_leaf(c) } else { p }, None => p }
}

#[verifier::external_body]
pub struct CellRef { _p: () }
impl CellRef {
    pub uninterp spec fn lc(&self) -> Option<PageId>;
    #[verifier::external_body]
    pub fn left_child(&self) -> (r: Option<PageId>) ensures r == self.lc() { unimplemented!() }
}
#[verifier::external_body]
pub struct BtreePage { _p: () }
impl BtreePage {
    pub uninterp spec fn id(&self) -> PageId;
    #[verifier::external_body]
    pub fn num_slots(&self) -> (r: usize) ensures r == nslots(self.id()) { unimplemented!() }
    #[verifier::external_body]
    pub fn cell(&self, index: usize) -> (r: CellRef)
        requires [C10,C16:leftmost.no_slot_read_past_the_slot_array] index < nslots(self.id()),
        ensures r.lc() == left_child_of(self.id(), index as int),
    { unimplemented!() }
    #[verifier::external_body]
    pub fn child(&self, index: usize) -> (r: Option<PageId>)
        requires [C10,C16:leftmost.child_index_in_range] index <= nslots(self.id()),
        ensures r == child_spec(self.id(), index as int),
    { unimplemented!() }
    #[verifier::external_body]
    pub fn is_leaf(&self) -> (r: bool) ensures r == (right_child_of(self.id()) is None) { unimplemented!() }
}
#[verifier::external_body]
pub struct Accessor { _p: () }
impl Accessor { #[verifier::external_body] pub fn release(&mut self, id: PageId) { unimplemented!() } }

pub struct Btree { root: PageId, acc: Accessor }
impl Btree {
    pub closed spec fn root_page(&self) -> PageId { self.root }
    pub fn get_root(&self) -> (r: PageId) ensures r == self.root { self.root }
    #[verifier::external_body]
    pub fn get_page(&mut self, id: PageId) -> (r: BtreeResult<&BtreePage>)
        ensures final(self).root == old(self).root, r matches Ok(p) ==> p.id() == id && wf_page(id) { unimplemented!() }
    #[verifier::external_body]
    pub fn accessor_mut(&mut self) -> (r: BtreeResult<&mut Accessor>) ensures final(self).root == old(self).root { unimplemented!() }
    #[verifier::external_body]
    pub fn is_empty(&mut self) -> (r: BtreeResult<bool>)
        ensures final(self).root == old(self).root, r matches Ok(b) ==> b == (nslots(old(self).root) == 0) { unimplemented!() }

//@fn crates/axmos-db/src/tree/bplustree.rs | impl<Acc> Btree<Acc> | get_left_most
//@ ensures
//@   [C10:leftmost.scan_starts_at_the_leftmost_leaf] r matches Ok(pos) ==> pos.page == leftmost_leaf(old(self).root_page()) && pos.slot == 0,
//@ loop 1
//@   invariant
//@     self.root == old(self).root,
//@     leftmost_leaf(current) == leftmost_leaf(old(self).root),
//@   decreases depth(current)
//@end
}

} // verus!
