//@unit name=recovery props=C02,C01
//@strip-pub
// Unit `recovery`: dispatch of the undo and redo passes (C02: nothing written by an unfinished or
// rolled-back transaction stays visible -- the undo pass must UNDO; C01: committed work is REDONE).
// Decided here: run_recovery runs the undo pass and then the redo pass; during the undo pass only
// undo handlers run, during the redo pass only redo handlers, each over exactly the transactions
// of its own set.  What the handlers do to tables is outside.
//@trusted [env] the undo_* / redo_* handlers (logical DML/DDL re-execution through DmlExecutor/DdlExecutor) are abstract: each records (direction, kind) in a ghost trace
//@trusted [sub] `for t in analysis.needs_X.iter()` is a loop over set_items(&analysis.needs_X) (BTreeSet iterator); `for lsn in analysis.try_iter_lsn(t).ok_or(..)?` a loop over chain_of(analysis, t)? (slice iterator + error constructor)
use vstd::prelude::*;

verus! {

type Lsn = u64;
type TransactionId = u64;
pub struct RtError { pub code: u8 }
pub type RuntimeResult<T> = Result<T, RtError>;

pub struct Insert { pub a: u8 }
pub struct Delete { pub a: u8 }
pub struct Update { pub a: u8 }
pub struct Create { pub a: u8 }
pub struct Alter { pub a: u8 }
pub struct DropOp { pub a: u8 }

#[verifier::external_body]
#[verifier::reject_recursive_types(V)]
pub struct OpMap<V> { _p: core::marker::PhantomData<V> }
impl<V> OpMap<V> {
    #[verifier::external_body]
    pub fn get(&self, k: &Lsn) -> (r: Option<&V>) { unimplemented!() }
}
#[verifier::external_body]
pub struct IdSet { _p: () }
impl IdSet { pub uninterp spec fn items(&self) -> Seq<u64>; }

pub struct AnalysisResult {
    pub needs_undo: IdSet,
    pub needs_redo: IdSet,
    pub insert_ops: OpMap<Insert>,
    pub delete_ops: OpMap<Delete>,
    pub update_ops: OpMap<Update>,
    pub create_ops: OpMap<Create>,
    pub alter_ops: OpMap<Alter>,
    pub drop_ops: OpMap<DropOp>,
}
#[verifier::external_body]
pub fn set_items(s: &IdSet) -> (r: &Vec<TransactionId>) ensures r@ == s.items() { unimplemented!() }
#[verifier::external_body]
pub fn chain_of<'a>(a: &'a AnalysisResult, t: &TransactionId) -> (r: RuntimeResult<&'a Vec<Lsn>>) { unimplemented!() }

pub enum Dir { Undo, Redo }
pub struct Step { pub dir: Dir, pub kind: u8, pub tid: u64 }

pub struct WalRecuperator { trace: Ghost<Seq<Step>>, cur: Ghost<u64> }

pub open spec fn all_dir(s: Seq<Step>, from: int, d: Dir) -> bool { forall|i: int| from <= i < s.len() ==> (#[trigger] s[i]).dir == d }
pub open spec fn all_dir_range(s: Seq<Step>, from: int, to: int, d: Dir) -> bool { forall|i: int| from <= i < to ==> (#[trigger] s[i]).dir == d }
pub open spec fn undo_then_redo(s: Seq<Step>, from: int, k: int) -> bool { from <= k <= s.len() && all_dir_range(s, from, k, Dir::Undo) && all_dir(s, k, Dir::Redo) }
pub open spec fn all_in(s: Seq<Step>, from: int, ids: Seq<u64>) -> bool { forall|i: int| from <= i < s.len() ==> ids.contains((#[trigger] s[i]).tid) }

impl WalRecuperator {
    pub closed spec fn steps(&self) -> Seq<Step> { self.trace@ }

    // ghost bookkeeping of "which transaction is being processed" (set by the loops below via proof hints)
    #[verifier::external_body]
    pub fn undo_delete(&mut self, op: &Delete) -> (r: RuntimeResult<()>)
        ensures final(self).trace@ == old(self).trace@.push(Step { dir: Dir::Undo, kind: 7, tid: old(self).cur@ }), final(self).cur == old(self).cur { unimplemented!() }
    #[verifier::external_body]
    pub fn undo_update(&mut self, op: &Update) -> (r: RuntimeResult<()>)
        ensures final(self).trace@ == old(self).trace@.push(Step { dir: Dir::Undo, kind: 6, tid: old(self).cur@ }), final(self).cur == old(self).cur { unimplemented!() }
    #[verifier::external_body]
    pub fn undo_insert(&mut self, op: &Insert) -> (r: RuntimeResult<()>)
        ensures final(self).trace@ == old(self).trace@.push(Step { dir: Dir::Undo, kind: 8, tid: old(self).cur@ }), final(self).cur == old(self).cur { unimplemented!() }
    #[verifier::external_body]
    pub fn undo_create(&mut self, op: &Create) -> (r: RuntimeResult<()>)
        ensures final(self).trace@ == old(self).trace@.push(Step { dir: Dir::Undo, kind: 9, tid: old(self).cur@ }), final(self).cur == old(self).cur { unimplemented!() }
    #[verifier::external_body]
    pub fn undo_alter(&mut self, op: &Alter) -> (r: RuntimeResult<()>)
        ensures final(self).trace@ == old(self).trace@.push(Step { dir: Dir::Undo, kind: 11, tid: old(self).cur@ }), final(self).cur == old(self).cur { unimplemented!() }
    #[verifier::external_body]
    pub fn undo_drop(&mut self, op: &DropOp) -> (r: RuntimeResult<()>)
        ensures final(self).trace@ == old(self).trace@.push(Step { dir: Dir::Undo, kind: 10, tid: old(self).cur@ }), final(self).cur == old(self).cur { unimplemented!() }
    #[verifier::external_body]
    pub fn redo_delete(&mut self, op: &Delete) -> (r: RuntimeResult<()>)
        ensures final(self).trace@ == old(self).trace@.push(Step { dir: Dir::Redo, kind: 7, tid: old(self).cur@ }), final(self).cur == old(self).cur { unimplemented!() }
    #[verifier::external_body]
    pub fn redo_update(&mut self, op: &Update) -> (r: RuntimeResult<()>)
        ensures final(self).trace@ == old(self).trace@.push(Step { dir: Dir::Redo, kind: 6, tid: old(self).cur@ }), final(self).cur == old(self).cur { unimplemented!() }
    #[verifier::external_body]
    pub fn redo_insert(&mut self, op: &Insert) -> (r: RuntimeResult<()>)
        ensures final(self).trace@ == old(self).trace@.push(Step { dir: Dir::Redo, kind: 8, tid: old(self).cur@ }), final(self).cur == old(self).cur { unimplemented!() }
    #[verifier::external_body]
    pub fn redo_create(&mut self, op: &Create) -> (r: RuntimeResult<()>)
        ensures final(self).trace@ == old(self).trace@.push(Step { dir: Dir::Redo, kind: 9, tid: old(self).cur@ }), final(self).cur == old(self).cur { unimplemented!() }
    #[verifier::external_body]
    pub fn redo_alter(&mut self, op: &Alter) -> (r: RuntimeResult<()>)
        ensures final(self).trace@ == old(self).trace@.push(Step { dir: Dir::Redo, kind: 11, tid: old(self).cur@ }), final(self).cur == old(self).cur { unimplemented!() }
    #[verifier::external_body]
    pub fn redo_drop(&mut self, op: &DropOp) -> (r: RuntimeResult<()>)
        ensures final(self).trace@ == old(self).trace@.push(Step { dir: Dir::Redo, kind: 10, tid: old(self).cur@ }), final(self).cur == old(self).cur { unimplemented!() }

//@fn crates/axmos-db/src/io/recovery.rs | impl WalRecuperator | run_undo
//@ sub /for redo_transaction in analysis\.(\w+)\.iter\(\)/ => for redo_transaction in it1: set_items(&analysis.\1)
//@ sub /for lsn in analysis\.try_iter_lsn\(redo_transaction\)\.ok_or\(IoError::new\(.*?\)\)\?/ => for lsn in it2: chain_of(analysis, redo_transaction)?
//@ ensures
//@   [C02:undo.only_undo_handlers] all_dir(final(self).steps(), old(self).steps().len() as int, Dir::Undo),
//@   [C02:undo.keeps_history] old(self).steps().is_prefix_of(final(self).steps()),
//@   [C02:undo.only_undo_set] all_in(final(self).steps(), old(self).steps().len() as int, analysis.needs_undo.items()),
//@ ghost-before /for lsn in/
//@   self.cur = Ghost(*redo_transaction);
//@ loop 1
//@   invariant
//@     all_dir(self.trace@, old(self).trace@.len() as int, Dir::Undo),
//@     old(self).trace@.is_prefix_of(self.trace@),
//@     all_in(self.trace@, old(self).trace@.len() as int, analysis.needs_undo.items()),
//@ loop 2
//@   invariant
//@     all_dir(self.trace@, old(self).trace@.len() as int, Dir::Undo),
//@     old(self).trace@.is_prefix_of(self.trace@),
//@     all_in(self.trace@, old(self).trace@.len() as int, analysis.needs_undo.items()),
//@     analysis.needs_undo.items().contains(self.cur@),
//@end

//@fn crates/axmos-db/src/io/recovery.rs | impl WalRecuperator | run_redo
//@ sub /for redo_transaction in analysis\.(\w+)\.iter\(\)/ => for redo_transaction in it1: set_items(&analysis.\1)
//@ sub /for lsn in analysis\.try_iter_lsn\(redo_transaction\)\.ok_or\(IoError::new\(.*?\)\)\?/ => for lsn in it2: chain_of(analysis, redo_transaction)?
//@ ensures
//@   [C01:redo.only_redo_handlers] all_dir(final(self).steps(), old(self).steps().len() as int, Dir::Redo),
//@   [C01:redo.keeps_history] old(self).steps().is_prefix_of(final(self).steps()),
//@   [C01:redo.only_redo_set] all_in(final(self).steps(), old(self).steps().len() as int, analysis.needs_redo.items()),
//@ ghost-before /for lsn in/
//@   self.cur = Ghost(*redo_transaction);
//@ loop 1
//@   invariant
//@     all_dir(self.trace@, old(self).trace@.len() as int, Dir::Redo),
//@     old(self).trace@.is_prefix_of(self.trace@),
//@     all_in(self.trace@, old(self).trace@.len() as int, analysis.needs_redo.items()),
//@ loop 2
//@   invariant
//@     all_dir(self.trace@, old(self).trace@.len() as int, Dir::Redo),
//@     old(self).trace@.is_prefix_of(self.trace@),
//@     all_in(self.trace@, old(self).trace@.len() as int, analysis.needs_redo.items()),
//@     analysis.needs_redo.items().contains(self.cur@),
//@end

//@fn crates/axmos-db/src/io/recovery.rs | impl WalRecuperator | run_recovery
//@ ensures
//@   [C02,C01:recovery.undo_then_redo] r is Ok ==> (exists|k: int| #[trigger] undo_then_redo(final(self).steps(), old(self).steps().len() as int, k)),
//@ ghost-after /self\.run_undo\(&analysis\)\?;/
//@   let ghost axv_k = self.steps().len() as int;
//@   let ghost axv_mid = self.steps();
//@ proof-before /Ok\(\(\)\)/
//@   assert forall|i: int| old(self).steps().len() <= i < axv_k implies (#[trigger] self.steps()[i]).dir == Dir::Undo by {
//@       assert(self.steps().subrange(0, axv_k)[i] == self.steps()[i]);
//@       assert(axv_mid[i].dir == Dir::Undo);
//@   }
//@   assert(undo_then_redo(self.steps(), old(self).steps().len() as int, axv_k));
//@end
}

} // verus!
