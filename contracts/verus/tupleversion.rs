//@unit name=tupleversion props=C03,C04,C18,C16
//@strip-pub
// Unit `tupleversion`: Tuple::add_version_with, the function every UPDATE goes through.
//   C04/C03/C18: the new newest version must be created BY THE WRITING TRANSACTION (header creator id =
//   new_xmin): visibility (unit snapshot) decides by creator id alone, so a version stamped with
//   anybody else's id is a dirty read for concurrent snapshots and survives the writer's rollback.
//@trusted [env] header codec: hdr_xmin / hdr_version are functions of the first 24 bytes (TupleHeader::SIZE); TupleHeader::write_to(buf, 0) stores its fields there and returns 24 (Kani unit tuplelayout: header.roundtrip)
//@trusted [env] the body writers (write_null_bitmap, write_data_items, write_non_null_items, write_delta, copy of older deltas) change no byte before the offset they are given; their effect on the rest is abstract
//@trusted [env] parse_last_version / TupleRef accessors return the header fields of the bytes they were given
//@trusted [sub] HashMap<usize, DataType> is the opaque Assignments; `&x.effective_data()[a..]` is tail(x.effective_data(), a); `buffer[a..b].copy_from_slice(src)` is copy_into(buffer, a, b, src) (same index expressions, bounds as labelled obligations); `&v` for Vec arguments is passed as written
use vstd::prelude::*;

verus! {

global size_of usize == 8;

type TransactionId = u64;
pub struct TupleError { pub code: u8 }
pub type TupleResult<T> = Result<T, TupleError>;

pub uninterp spec fn hdr_xmin(b: Seq<u8>) -> u64;
pub uninterp spec fn hdr_version(b: Seq<u8>) -> u8;
pub uninterp spec fn hdr_xmax(b: Seq<u8>) -> Option<u64>;
pub open spec fn same_header(a: Seq<u8>, b: Seq<u8>) -> bool { hdr_xmin(a) == hdr_xmin(b) && hdr_version(a) == hdr_version(b) && hdr_xmax(a) == hdr_xmax(b) }
// the header is the first 24 bytes
pub broadcast axiom fn header_is_prefix(a: Seq<u8>, b: Seq<u8>)
    requires a.len() >= 24, b.len() >= 24, a.subrange(0, 24) == b.subrange(0, 24),
    ensures #[trigger] same_header(a, b);
pub open spec fn keeps_prefix(old: Seq<u8>, new: Seq<u8>, upto: int) -> bool {
    new.len() == old.len() && (forall|i: int| 0 <= i < upto && i < old.len() ==> new[i] == old[i])
}

#[verifier::external_body]
pub struct Assignments { _p: () }
impl Assignments {
    pub uninterp spec fn empty(&self) -> bool;
    #[verifier::external_body]
    pub fn is_empty(&self) -> (r: bool) ensures r == self.empty() { unimplemented!() }
}
#[verifier::external_body]
pub struct Schema { _p: () }
impl Schema { #[verifier::external_body] pub fn num_values(&self) -> usize { unimplemented!() } }
#[verifier::external_body]
pub struct DataType { _p: () }
#[verifier::external_body]
pub fn null_bitmap_size(n: usize) -> usize { unimplemented!() }
// which of compute_values' three results a vector is (facts established only by compute_values)
pub uninterp spec fn is_new_values(v: Seq<DataType>) -> bool;
pub uninterp spec fn is_changed_old_values(v: Seq<(u8, DataType)>) -> bool;
pub uninterp spec fn is_all_old_values(v: Seq<DataType>) -> bool;

#[verifier::external_body]
pub struct TupleLayout { _p: () }
impl TupleLayout {
    pub uninterp spec fn xmin(&self) -> u64;
    pub uninterp spec fn version(&self) -> u8;
    #[verifier::external_body]
    pub fn clone(&self) -> (r: TupleLayout) ensures r == *self { unimplemented!() }
    #[verifier::external_body]
    pub fn delta_start(&self) -> usize { unimplemented!() }
}
#[verifier::external_body]
pub struct TupleReader { _p: () }
impl TupleReader {
    #[verifier::external_body]
    pub fn from_schema(s: &Schema) -> TupleReader { unimplemented!() }
    #[verifier::external_body]
    pub fn parse_last_version(&self, data: &[u8]) -> (r: TupleResult<TupleLayout>)
        ensures r matches Ok(l) ==> l.xmin() == hdr_xmin(data@) && l.version() == hdr_version(data@) && data@.len() >= 24,
    { unimplemented!() }
}
#[verifier::external_body]
pub struct TupleRef { _p: () }
impl TupleRef {
    pub uninterp spec fn lay(&self) -> TupleLayout;
    #[verifier::external_body]
    pub fn new(data: &[u8], layout: TupleLayout) -> (r: TupleRef) ensures r.lay() == layout { unimplemented!() }
    #[verifier::external_body]
    pub fn current_version(&self) -> (r: u8) ensures r == self.lay().version() { unimplemented!() }
    #[verifier::external_body]
    pub fn version_xmin(&self) -> (r: TransactionId) ensures r == self.lay().xmin() { unimplemented!() }
}

pub struct TupleHeader { pub version: u8, pub xmin: u64, pub xmax: Option<u64> }
impl TupleHeader {
    pub fn new(version: u8, xmin: TransactionId, xmax: Option<TransactionId>) -> (r: Self)
        ensures r.version == version && r.xmin == xmin && r.xmax == xmax
    { TupleHeader { version, xmin, xmax } }
    #[verifier::external_body]
    pub fn write_to(&self, buffer: &mut [u8], cursor: usize) -> (r: usize)
        requires [C18:update.header_fits] cursor + 24 <= old(buffer)@.len(),
        ensures final(buffer)@.len() == old(buffer)@.len(), r == cursor + 24,
            cursor == 0 ==> hdr_xmin(final(buffer)@) == self.xmin && hdr_version(final(buffer)@) == self.version && hdr_xmax(final(buffer)@) == self.xmax,
    { unimplemented!() }
}

#[verifier::external_body]
pub struct Payload { _p: () }
impl Payload {
    pub uninterp spec fn bytes(&self) -> Seq<u8>;
    #[verifier::external_body]
    pub fn alloc_aligned(size: usize) -> (r: TupleResult<Payload>) ensures r matches Ok(p) ==> p.bytes().len() == size && size <= 0x7fff_ffff_ffff_ffff { unimplemented!() }
    #[verifier::external_body]
    pub fn effective_data(&self) -> (r: &[u8]) ensures r@ == self.bytes(), r@.len() <= 0x7fff_ffff_ffff_ffff { unimplemented!() }
    #[verifier::external_body]
    pub fn effective_data_mut(&mut self) -> (r: &mut [u8]) ensures r@ == old(self).bytes(), final(self).bytes() == final(r)@ { unimplemented!() }
    #[verifier::external_body]
    pub fn len(&self) -> (r: usize) ensures r == self.bytes().len(), r <= 0x7fff_ffff_ffff_ffff { unimplemented!() }
}
#[verifier::external_body]
pub fn tail(s: &[u8], a: usize) -> (r: &[u8])
    requires [C18,C16:update.old_deltas_in_bounds] a <= s@.len(),
    ensures r@ == s@.subrange(a as int, s@.len() as int),
{ unimplemented!() }
#[verifier::external_body]
pub fn copy_into(buffer: &mut [u8], a: usize, b: usize, src: &[u8])
    ensures keeps_prefix(old(buffer)@, final(buffer)@, a as int),
{ unimplemented!() }

pub struct Tuple { data: Payload }

impl Tuple {
    pub closed spec fn newest_creator(&self) -> u64 { hdr_xmin(self.data.bytes()) }
    pub closed spec fn newest_version(&self) -> u8 { hdr_version(self.data.bytes()) }
    pub closed spec fn delete_mark(&self) -> Option<u64> { hdr_xmax(self.data.bytes()) }
    pub closed spec fn image(&self) -> Seq<u8> { self.data.bytes() }

    #[verifier::external_body]
    pub fn xmin(&self) -> (r: TransactionId) ensures r == hdr_xmin(self.data.bytes()) { unimplemented!() }
    #[verifier::external_body]
    pub fn validate_modifications(&self, modified: &Assignments, schema: &Schema) -> TupleResult<()> { unimplemented!() }
    #[verifier::external_body]
    pub fn extract_keys(&self, current: &TupleRef, schema: &Schema) -> TupleResult<Vec<DataType>> { unimplemented!() }
    #[verifier::external_body]
    pub fn compute_values(&self, current: &TupleRef, modified: &Assignments, schema: &Schema) -> (r: TupleResult<(Vec<DataType>, Vec<(u8, DataType)>, Vec<DataType>)>)
        ensures r matches Ok(t) ==> is_new_values(t.0@) && is_changed_old_values(t.1@) && is_all_old_values(t.2@) { unimplemented!() }
    // upper bound actually needed by the writes below: header + everything else
    #[verifier::external_body]
    pub fn calculate_new_tuple_size(keys: &Vec<DataType>, new_values: &Vec<DataType>, changed_values: &Vec<(u8, DataType)>, existing_deltas_size: usize, bitmap_size: usize) -> (r: usize)
        ensures r >= 24 + existing_deltas_size,
    { unimplemented!() }
    #[verifier::external_body]
    pub fn write_null_bitmap(buffer: &mut [u8], offset: usize, values: &Vec<DataType>, bitmap_size: usize) -> (r: usize)
        requires [C18:update.newest_null_flags_are_the_new_ones] is_new_values(values@),
        ensures keeps_prefix(old(buffer)@, final(buffer)@, offset as int), r >= offset,
    { unimplemented!() }
    #[verifier::external_body]
    pub fn write_data_items(buffer: &mut [u8], cursor: usize, items: &Vec<DataType>) -> (r: TupleResult<usize>)
        ensures keeps_prefix(old(buffer)@, final(buffer)@, cursor as int), r matches Ok(c) ==> c >= cursor,
    { unimplemented!() }
    #[verifier::external_body]
    pub fn write_non_null_items(buffer: &mut [u8], cursor: usize, items: &Vec<DataType>) -> (r: TupleResult<usize>)
        requires [C18:update.newest_values_are_the_new_ones] is_new_values(items@),
        ensures keeps_prefix(old(buffer)@, final(buffer)@, cursor as int), r matches Ok(c) ==> c >= cursor,
    { unimplemented!() }
    // the delta of the version being superseded: its number and ITS creator
    #[verifier::external_body]
    pub fn write_delta(buffer: &mut [u8], offset: usize, version: u8, xmin: TransactionId, changed_values: &Vec<(u8, DataType)>, all_old_values: &Vec<DataType>, bitmap_size: usize) -> (r: TupleResult<usize>)
        requires
            [C18:update.delta_restores_the_old_values] is_changed_old_values(changed_values@),
            [C18:update.delta_null_flags_are_the_old_ones] is_all_old_values(all_old_values@),
        ensures keeps_prefix(old(buffer)@, final(buffer)@, offset as int),
            r matches Ok(c) ==> c >= offset && c <= old(buffer)@.len(),
    { unimplemented!() }

//@fn crates/axmos-db/src/storage/tuple.rs | impl Tuple | add_version_with
//@ sub /modified: &HashMap<usize, DataType>/ => modified: &Assignments
//@ sub /&self\.data\.effective_data\(\)\[(\w+)\.\.\]/ => tail(self.data.effective_data(), \1)
//@ sub /buffer\[([^\]]*?)\.\.([^\]]*?)\]\.copy_from_slice\((\w+)\)/ => copy_into(buffer, \1, \2, \3)
//@ use-lemmas header_is_prefix
//@ ensures
//@   [C03,C04,C18:update.newest_version_created_by_writer] r is Ok && !modified.empty() ==> final(self).newest_creator() == new_xmin,
//@   [C03,C04,C18:update.newest_creator_is_writer_or_previous_creator] r is Ok && !modified.empty() ==> (final(self).newest_creator() == new_xmin || final(self).newest_creator() == old(self).newest_creator()),
//@   [C18,C16:update.version_label_incremented_modulo_256] r is Ok && !modified.empty() ==> final(self).newest_version() == (if old(self).newest_version() == 255 { 0u8 } else { (old(self).newest_version() + 1) as u8 }),
//@   [C18:update.clears_no_delete_mark_of_others] r is Ok && !modified.empty() ==> final(self).delete_mark() is None,
//@   [C18:update.noop_on_empty_change_set] modified.empty() ==> r is Ok && final(self).image() == old(self).image(),
//@   [C03:update.failure_changes_nothing] r is Err ==> final(self).image() == old(self).image(),
//@ ghost-after /cursor = header\.write_to\(buffer, cursor\);/
//@   let ghost b1 = buffer@;
//@ proof-before /self\.data = new_data;/
//@   assert(keeps_prefix(b1, buffer@, 24));
//@   assert(b1.subrange(0, 24) =~= buffer@.subrange(0, 24));
//@   assert(same_header(b1, buffer@));
//@end
}

} // verus!
