//@unit name=mergejoin props=C05
//@strip-pub
//@rlimit 80
// Unit `mergejoin`: MergeJoin::{advance_left, advance_right, next} -- the bookkeeping the outer join
// types rest on (C05: joins pair rows correctly, every join type):
//   * RIGHT / FULL: every right row read is remembered together with its "matched" flag (two
//     parallel vectors), the operator ends only after the WHOLE right input has been read and every
//     remembered row has been looked at, and the padded rows it emits are remembered right rows;
//   * every join type: the operator ends only after its left input is consumed;
//   * every emitted row has the width of the output schema, also the NULL-padded ones.
//@trusted [env] children are abstract streams of fixed-width rows; extract_key / keys_match / compare_keys (unit joinhelpers) / buffer_matching_right_rows (a while-let with a `ref` pattern: marks the rows it buffers as matched and advances the right input) are abstract with the stated frames; combine_rows / left_with_nulls / nulls_with_right as proved in unit joinhelpers
//@trusted [R12] termination of next() (an unbounded `loop` and a tail call) is not checked: partial correctness
use vstd::prelude::*;

verus! {

pub struct RtError { pub code: u8 }
pub type RuntimeResult<T> = Result<T, RtError>;
pub enum Ordering { Less, Equal, Greater }
pub enum JoinType { Inner, Left, Right, Full, Cross }
pub struct ExecutionStats { pub rows_produced: u64, pub rows_scanned: u64, pub pages_read: u64 }

#[verifier::external_body]
pub struct Row { _p: () }
impl Row {
    pub uninterp spec fn width(&self) -> nat;
    #[verifier::external_body]
    pub fn clone(&self) -> (r: Row) ensures r == *self { unimplemented!() }
}
#[verifier::external_body]
pub struct DataType { _p: () }
#[verifier::external_body]
pub struct BoundExpression { _p: () }
#[verifier::external_body]
pub struct Schema { _p: () }
impl Schema {
    pub uninterp spec fn ncols(&self) -> usize;
    #[verifier::external_body]
    pub fn num_columns(&self) -> (r: usize) ensures r == self.ncols() { unimplemented!() }
}
#[verifier::external_body]
pub fn combine_rows(left: &Row, right: &Row) -> (r: Row) ensures r.width() == left.width() + right.width() { unimplemented!() }
#[verifier::external_body]
pub fn left_with_nulls(left: &Row, right_cols: usize) -> (r: Row) ensures r.width() == left.width() + right_cols { unimplemented!() }
#[verifier::external_body]
pub fn nulls_with_right(right: &Row, left_cols: usize) -> (r: Row) ensures r.width() == left_cols + right.width() { unimplemented!() }
#[verifier::external_body]
pub fn extract_key(row: &Row, key_exprs: &Vec<BoundExpression>, schema: &Schema) -> RuntimeResult<Vec<DataType>> { unimplemented!() }
#[verifier::external_body]
pub fn keys_match(left: &Vec<DataType>, right: &Vec<DataType>) -> bool { unimplemented!() }

#[verifier::external_body]
pub struct Stream { _p: () }
impl Stream {
    pub uninterp spec fn rows(&self) -> Seq<Row>;
    pub uninterp spec fn pos(&self) -> nat;
    #[verifier::external_body]
    pub fn next(&mut self) -> (r: RuntimeResult<Option<Row>>)
        requires old(self).pos() <= old(self).rows().len(),
        ensures
            final(self).rows() == old(self).rows(),
            r matches Ok(Some(row)) ==> old(self).pos() < old(self).rows().len() && row == old(self).rows()[old(self).pos() as int] && final(self).pos() == old(self).pos() + 1,
            r matches Ok(None) ==> old(self).pos() == old(self).rows().len() && final(self).pos() == old(self).pos(),
            r is Err ==> final(self).pos() == old(self).pos(),
    { unimplemented!() }
}

pub struct MergeJoin {
    join_type: JoinType, left_keys: Vec<BoundExpression>, right_keys: Vec<BoundExpression>,
    output_schema: Schema, left_schema: Schema, right_schema: Schema,
    left: Stream, right: Stream,
    current_left: Option<Row>, current_right: Option<Row>,
    right_buffer: Vec<Row>, right_buffer_idx: usize, buffering_key: Option<Vec<DataType>>,
    left_exhausted: bool, right_exhausted: bool, left_matched: bool,
    right_matched: Vec<bool>, right_rows: Vec<Row>, emitting_unmatched_right: bool, unmatched_right_idx: usize,
    stats: ExecutionStats,
}

impl MergeJoin {
    pub closed spec fn outer_right(&self) -> bool { self.join_type is Right || self.join_type is Full }
    pub closed spec fn lw(&self) -> nat { self.left_schema.ncols() as nat }
    pub closed spec fn rw(&self) -> nat { self.right_schema.ncols() as nat }
    pub closed spec fn inv(&self) -> bool {
        &&& self.lw() + self.rw() == self.output_schema.ncols()
        &&& (forall|i: int| 0 <= i < self.left.rows().len() ==> (#[trigger] self.left.rows()[i]).width() == self.lw())
        &&& (forall|i: int| 0 <= i < self.right.rows().len() ==> (#[trigger] self.right.rows()[i]).width() == self.rw())
        &&& self.left.pos() <= self.left.rows().len() && self.right.pos() <= self.right.rows().len()
        // the cursor rows are rows of the inputs
        &&& (self.current_left matches Some(r) ==> r.width() == self.lw())
        &&& (self.current_right matches Some(r) ==> r.width() == self.rw())
        &&& (!self.left_exhausted ==> self.current_left is Some)
        &&& (!self.right_exhausted ==> self.current_right is Some)
        &&& (self.left_exhausted ==> self.left.pos() == self.left.rows().len())
        &&& (self.right_exhausted ==> self.right.pos() == self.right.rows().len())
        &&& (forall|i: int| 0 <= i < self.right_buffer@.len() ==> (#[trigger] self.right_buffer@[i]).width() == self.rw())
        &&& self.right_buffer_idx <= self.right_buffer@.len()
        // RIGHT / FULL bookkeeping: one remembered row and one flag per right row read
        &&& (self.outer_right() ==> self.right_rows@.len() == self.right_matched@.len() && self.right_matched@.len() == self.right.pos())
        &&& (!self.outer_right() ==> self.right_rows@.len() == 0 && self.right_matched@.len() == 0)
        &&& (forall|i: int| 0 <= i < self.right_rows@.len() ==> (#[trigger] self.right_rows@[i]).width() == self.rw())
        &&& self.unmatched_right_idx <= self.right_matched@.len()
        &&& (self.emitting_unmatched_right ==> self.outer_right() && self.left_exhausted && self.right_exhausted)
        &&& self.stats.rows_scanned + (self.left.rows().len() - self.left.pos()) + (self.right.rows().len() - self.right.pos()) < 0x7fff_ffff_ffff_ffff
    }
    pub closed spec fn room(&self) -> bool { self.stats.rows_produced < 0xffff_ffff_ffff_ffff }
    pub closed spec fn out_width(&self) -> nat { self.output_schema.ncols() as nat }
    pub closed spec fn left_done(&self) -> bool { self.left.pos() == self.left.rows().len() }
    pub closed spec fn right_done(&self) -> bool { self.right.pos() == self.right.rows().len() }
    pub closed spec fn all_remembered_rows_visited(&self) -> bool { self.unmatched_right_idx == self.right_matched@.len() }
    pub closed spec fn same_plan(&self, o: &MergeJoin) -> bool {
        self.output_schema == o.output_schema && self.left_schema == o.left_schema && self.right_schema == o.right_schema && self.join_type == o.join_type
        && self.left.rows() == o.left.rows() && self.right.rows() == o.right.rows()
    }

    #[verifier::external_body]
    pub fn compare_keys(&self, left_keys: &Vec<DataType>, right_keys: &Vec<DataType>) -> Ordering { unimplemented!() }

    // real code: while let Some(ref right_row) = self.current_right { if keys_match(..) { buffer it; mark it matched; advance_right } else break }
    #[verifier::external_body]
    pub fn buffer_matching_right_rows(&mut self, target_keys: &Vec<DataType>) -> (r: RuntimeResult<()>)
        requires old(self).inv(),
        ensures final(self).inv(), final(self).same_plan(old(self)), final(self).stats.rows_produced == old(self).stats.rows_produced,
            final(self).emitting_unmatched_right == old(self).emitting_unmatched_right,
            final(self).current_left == old(self).current_left, final(self).left_exhausted == old(self).left_exhausted, final(self).left == old(self).left,
            final(self).left_matched == old(self).left_matched,
    { unimplemented!() }

//@fn crates/axmos-db/src/runtime/ops/join.rs | impl<Left: Executor, Right: Executor> MergeJoin<Left, Right> | left_cols
//@ ensures
//@   [C05:mergejoin.left_width_from_left_schema] r == self.left_schema.ncols(),
//@end

//@fn crates/axmos-db/src/runtime/ops/join.rs | impl<Left: Executor, Right: Executor> MergeJoin<Left, Right> | right_cols
//@ ensures
//@   [C05:mergejoin.right_width_from_right_schema] r == self.right_schema.ncols(),
//@end

//@fn crates/axmos-db/src/runtime/ops/join.rs | impl<Left: Executor, Right: Executor> MergeJoin<Left, Right> | advance_left
//@ requires
//@   old(self).inv_but_cursors(),
//@ ensures
//@   [C05:mergejoin.advance_left_keeps_cursor_consistent] final(self).inv_but_cursors() && (r is Ok ==> (final(self).left_exhausted || final(self).current_left is Some)),
//@   [C05:mergejoin.advance_left_frame] final(self).same_plan(old(self)) && final(self).right == old(self).right && final(self).right_rows == old(self).right_rows && final(self).right_matched == old(self).right_matched && final(self).current_right == old(self).current_right && final(self).right_exhausted == old(self).right_exhausted && final(self).stats.rows_produced == old(self).stats.rows_produced && final(self).right_buffer == old(self).right_buffer && final(self).right_buffer_idx == old(self).right_buffer_idx && final(self).unmatched_right_idx == old(self).unmatched_right_idx && final(self).emitting_unmatched_right == old(self).emitting_unmatched_right && final(self).left_matched == old(self).left_matched && final(self).buffering_key == old(self).buffering_key,
//@   [C05:mergejoin.left_exhausted_only_at_end_of_left_input] (r is Ok && final(self).left_exhausted) ==> final(self).left_done(),
//@end

//@fn crates/axmos-db/src/runtime/ops/join.rs | impl<Left: Executor, Right: Executor> MergeJoin<Left, Right> | advance_right
//@ requires
//@   old(self).inv_but_cursors(),
//@ ensures
//@   [C05:mergejoin.every_right_row_read_is_remembered_with_a_flag] final(self).inv_but_cursors() && (r is Ok ==> (final(self).right_exhausted || final(self).current_right is Some)),
//@   [C05:mergejoin.advance_right_frame] final(self).same_plan(old(self)) && final(self).left == old(self).left && final(self).current_left == old(self).current_left && final(self).left_exhausted == old(self).left_exhausted && final(self).stats.rows_produced == old(self).stats.rows_produced && final(self).right_buffer == old(self).right_buffer && final(self).right_buffer_idx == old(self).right_buffer_idx && final(self).unmatched_right_idx == old(self).unmatched_right_idx && final(self).emitting_unmatched_right == old(self).emitting_unmatched_right && final(self).left_matched == old(self).left_matched && final(self).buffering_key == old(self).buffering_key,
//@   [C05:mergejoin.right_exhausted_only_at_end_of_right_input] (r is Ok && final(self).right_exhausted) ==> final(self).right_done(),
//@end

//@fn crates/axmos-db/src/runtime/ops/join.rs | impl<Left: Executor, Right: Executor> Executor for MergeJoin<Left, Right> | next
//@ nodecreases
//@ requires
//@   old(self).inv() && old(self).room(),
//@ ensures
//@   [C05:mergejoin.keeps_inv] r is Ok ==> final(self).inv() && final(self).same_plan(old(self)),
//@   [C05:mergejoin.every_emitted_row_has_the_output_width] r matches Ok(Some(row)) ==> row.width() == old(self).out_width(),
//@   [C05:mergejoin.ends_only_after_the_left_input] r matches Ok(None) ==> final(self).left_done(),
//@   [C05:mergejoin.outer_right_ends_only_after_the_whole_right_input] r matches Ok(None) ==> (old(self).outer_right() ==> final(self).right_done() && final(self).all_remembered_rows_visited()),
//@ loop 1
//@   invariant
//@     self.inv(), self.room(), self.emitting_unmatched_right, self.same_plan(old(self)),
//@ loop 2
//@   invariant
//@     self.inv(), self.room(), !self.emitting_unmatched_right, self.same_plan(old(self)),
//@ loop? 3
//@   invariant
//@     self.inv(), self.room(), !self.emitting_unmatched_right, self.same_plan(old(self)), self.left_exhausted, self.outer_right(),
//@end

    // inv without the "cursor is Some unless exhausted" clauses (they are re-established by advance_*)
    pub closed spec fn inv_but_cursors(&self) -> bool {
        &&& self.lw() + self.rw() == self.output_schema.ncols()
        &&& (forall|i: int| 0 <= i < self.left.rows().len() ==> (#[trigger] self.left.rows()[i]).width() == self.lw())
        &&& (forall|i: int| 0 <= i < self.right.rows().len() ==> (#[trigger] self.right.rows()[i]).width() == self.rw())
        &&& self.left.pos() <= self.left.rows().len() && self.right.pos() <= self.right.rows().len()
        &&& (self.current_left matches Some(r) ==> r.width() == self.lw())
        &&& (self.current_right matches Some(r) ==> r.width() == self.rw())
        &&& (self.left_exhausted ==> self.left.pos() == self.left.rows().len())
        &&& (self.right_exhausted ==> self.right.pos() == self.right.rows().len())
        &&& (forall|i: int| 0 <= i < self.right_buffer@.len() ==> (#[trigger] self.right_buffer@[i]).width() == self.rw())
        &&& self.right_buffer_idx <= self.right_buffer@.len()
        &&& (self.outer_right() ==> self.right_rows@.len() == self.right_matched@.len() && self.right_matched@.len() == self.right.pos())
        &&& (!self.outer_right() ==> self.right_rows@.len() == 0 && self.right_matched@.len() == 0)
        &&& (forall|i: int| 0 <= i < self.right_rows@.len() ==> (#[trigger] self.right_rows@[i]).width() == self.rw())
        &&& self.unmatched_right_idx <= self.right_matched@.len()
        &&& (self.emitting_unmatched_right ==> self.outer_right() && self.left_exhausted && self.right_exhausted)
        &&& self.stats.rows_scanned + (self.left.rows().len() - self.left.pos()) + (self.right.rows().len() - self.right.pos()) < 0x7fff_ffff_ffff_ffff
    }
}

} // verus!
