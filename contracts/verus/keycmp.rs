//@unit name=keycmp props=C10,C19
//@strip-pub
// Unit `keycmp`: CellComparator::compare_keys -- the order every B+tree search, insert and split
// relies on (C10: keys are ordered within and across pages; C19: key comparison on serialized
// payloads agrees with value order).  Composite keys are compared component by component, each
// component read at ITS OWN position in both buffers.
//@trusted [env] DataTypeKind::deserialize(buf, cursor) decodes one value at `cursor` and returns the cursor behind it; DataTypeRef::partial_cmp is the value order of unit types (None for NULL)
//@trusted [std] usize::div_ceil(x, d) == (x + d - 1) / d; usize is 64 bits
//@trusted [sub] `dtype.deserialize(B, C).map_err(|e| io::Error::new(..))?` is replaced by deser(dtype, B, C)? (closure + String); `for key_col in self.schema.iter_keys()` by a loop over key_cols(self.schema) (custom iterator); the "Cannot compare null keys" error constructor by mk_err()
use vstd::prelude::*;

verus! {

global size_of usize == 8;

pub assume_specification[ usize::div_ceil ](x: usize, d: usize) -> (r: usize)
    requires d > 0,
    ensures r as int == (x as int + d as int - 1) / (d as int);

pub enum Ordering { Less, Equal, Greater }
pub struct IoErr { pub code: u8 }
pub mod io {
    pub(crate) type Result<T> = core::result::Result<T, super::IoErr>;
}
pub fn mk_err() -> (r: IoErr) { IoErr { code: 0 } }

#[derive(Clone, Copy)]
pub struct DataTypeKind { pub k: u8 }

// abstract decoding of one key component
pub uninterp spec fn key_val(buf: Seq<u8>, cursor: int, k: DataTypeKind) -> Option<int>;   // None = NULL
pub uninterp spec fn key_next(buf: Seq<u8>, cursor: int, k: DataTypeKind) -> int;

pub struct ValRef { pub v: Ghost<Option<int>> }
impl ValRef {
    #[verifier::external_body]
    pub fn partial_cmp(&self, other: &ValRef) -> (r: Option<Ordering>)
        ensures r == (match (self.v@, other.v@) {
            (Some(a), Some(b)) => Some(if a < b { Ordering::Less } else if a == b { Ordering::Equal } else { Ordering::Greater }),
            _ => None::<Ordering>,
        }),
    { unimplemented!() }
}

#[verifier::external_body]
pub fn deser(k: DataTypeKind, buf: &[u8], cursor: usize) -> (r: io::Result<(ValRef, usize)>)
    ensures r matches Ok(p) ==> (p.0.v@ == key_val(buf@, cursor as int, k) && p.1 as int == key_next(buf@, cursor as int, k) && p.1 >= cursor),
{ unimplemented!() }

pub struct Column { pub kind: DataTypeKind }
impl Column {
    pub fn datatype(&self) -> (r: DataTypeKind) ensures r == self.kind { self.kind }
}
pub struct Schema { pub keys: Vec<Column>, pub nvalues: usize }
impl Schema {
    pub fn num_values(&self) -> (r: usize) ensures r == self.nvalues { self.nvalues }
}
pub fn key_cols(s: &Schema) -> (r: &Vec<Column>) ensures *r == s.keys { &s.keys }

pub struct TupleHeader { pub x: u8 }
impl TupleHeader { pub const SIZE: usize = 24; }

pub struct CellComparator<'a> { schema: &'a Schema }

// position of key component i in the target / in the cell
pub open spec fn tpos(keys: Seq<Column>, target: Seq<u8>, t0: int, i: int) -> int
    decreases i,
{
    if i <= 0 { t0 } else { key_next(target, tpos(keys, target, t0, i - 1), keys[i - 1].kind) }
}
// lexicographic comparison of components [i, n)
pub open spec fn lex(keys: Seq<Column>, target: Seq<u8>, cell: Seq<u8>, t0: int, c0: int, i: int) -> Option<Ordering>
    decreases keys.len() - i,
{
    if i >= keys.len() { Some(Ordering::Equal) } else {
        let a = key_val(target, tpos(keys, target, t0, i), keys[i].kind);
        let b = key_val(cell, tpos(keys, cell, c0, i), keys[i].kind);
        match (a, b) {
            (Some(x), Some(y)) => if x < y { Some(Ordering::Less) } else if x > y { Some(Ordering::Greater) } else { lex(keys, target, cell, t0, c0, i + 1) },
            _ => None,
        }
    }
}

impl<'a> CellComparator<'a> {
//@fn crates/axmos-db/src/tree/cell_ops.rs | impl<'a> CellComparator<'a> | compare_keys
//@ sub /dtype\s*\.deserialize\((\w+), (\w+)\)\s*\.map_err\(\|e\| io::Error::new\(io::ErrorKind::InvalidData, e\.to_string\(\)\)\)\?/ => deser(dtype, \1, \2)?
//@ sub /for key_col in self\.schema\.iter_keys\(\)/ => for key_col in it: key_cols(self.schema)
//@ sub /io::Error::new\(\s*io::ErrorKind::InvalidData,\s*"Cannot compare null keys",?\s*\)/ => mk_err()
//@ unmut target_cursor
//@ requires self.schema.nvalues < 0x1000_0000,
//@ ensures
//@   [C10,C19:keycmp.lexicographic_at_own_positions] r matches Ok(o) ==> lex(self.schema.keys@, target@, cell_data@, target_cursor0 as int, (24 + (self.schema.nvalues as int + 7) / 8), 0) == Some(o),
//@   [C10:keycmp.null_key_is_error] lex(self.schema.keys@, target@, cell_data@, target_cursor0 as int, (24 + (self.schema.nvalues as int + 7) / 8), 0) is None ==> r is Err,
//@ ghost-after /let mut cell_cursor = tuple_header_size \+ bitmap_size;/
//@   let ghost c_start = cell_cursor;
//@ loop 1
//@   invariant
//@     c_start as int == 24 + (self.schema.nvalues as int + 7) / 8,
//@     target_cursor as int == tpos(self.schema.keys@, target@, target_cursor0 as int, it.index@ as int),
//@     cell_cursor as int == tpos(self.schema.keys@, cell_data@, c_start as int, it.index@ as int),
//@     lex(self.schema.keys@, target@, cell_data@, target_cursor0 as int, c_start as int, 0) == lex(self.schema.keys@, target@, cell_data@, target_cursor0 as int, c_start as int, it.index@ as int),
//@end
}

} // verus!
