//@unit name=redohandlers props=C01,C02,C08
//@strip-pub
// Unit `redohandlers`: the DML handlers of recovery (C01: committed work is REDONE; C02: unfinished
// work is UNDONE).  Which records are applied was decided by the analysis pass (unit analysis) and
// dispatched by run_redo / run_undo (unit recovery); a handler must then apply the image it is
// given -- unconditionally.  In particular it must not look at the image through the recovery
// transaction's snapshot, whose horizon is the stale `last committed` of the last checkpoint.
//   C08 "the database opens after a crash": undo must be repeatable. It runs before redo, against a
//   data file that (NO-STEAL) holds nothing of the transaction it undoes; the table of the undone
//   operation may not exist in that state at all (created since the last checkpoint). The undo of
//   an operation on a table that is not there is NOTHING -- not an error that fails the recovery for
//   ever (fix ebb7d7c). On a table that is there the handler applies the inverse as before.
//@trusted [env] DmlExecutor::{insert, update_row, delete} (unit dmlwal) are abstract effects on a ghost trace; Row::from_bytes_checked decodes the newest version of a logged tuple image; catalog lookup is abstract
//@trusted [sub] `.expect("..")` on the record's object / row id is `.unwrap()` (ids are always set for DML records: WAL record constructors)
use vstd::prelude::*;

verus! {

type ObjectId = u64;
pub enum RtError { TableNotFound(u64), Other(u8) }
pub type CatalogError = RtError;
pub type RuntimeResult<T> = Result<T, RtError>;

#[verifier::external_body]
pub struct Schema { _p: () }
impl Schema { #[verifier::external_body] pub fn column_indexes(&self) -> Vec<usize> { unimplemented!() } }
#[verifier::external_body]
pub struct Snapshot { _p: () }
#[verifier::external_body]
pub struct BtreeBuilder { _p: () }
#[verifier::external_body]
pub struct Relation { _p: () }
impl Relation { #[verifier::external_body] pub fn schema(&self) -> &Schema { unimplemented!() } }
#[verifier::external_body]
pub struct Catalog { _p: () }
impl Catalog {
    pub uninterp spec fn has(&self, id: ObjectId) -> bool;      // the table exists in the state that is being recovered
    #[verifier::external_body]
    pub fn get_relation(&self, id: ObjectId, b: &BtreeBuilder, s: &Snapshot) -> (r: RuntimeResult<Relation>)
        ensures r is Ok ==> self.has(id), r matches Err(RtError::TableNotFound(_)) ==> !self.has(id), !self.has(id) ==> r matches Err(RtError::TableNotFound(_)) { unimplemented!() }
}
#[verifier::external_body]
pub struct ThreadContext { _p: () }
impl ThreadContext {
    #[verifier::external_body] pub fn tree_builder(&self) -> BtreeBuilder { unimplemented!() }
    #[verifier::external_body] pub fn snapshot(&self) -> &Snapshot { unimplemented!() }
    pub uninterp spec fn cat(&self) -> &Catalog;
    #[verifier::external_body] pub fn catalog(&self) -> (r: &Catalog) ensures r == self.cat() { unimplemented!() }
}
pub struct UInt64(pub u64);
impl UInt64 { pub fn from(v: u64) -> (r: UInt64) ensures r.0 == v { UInt64(v) } }

pub uninterp spec fn decoded(image: Seq<u8>) -> Row;       // newest version of a logged tuple image
#[verifier::external_body]
pub struct Row { _p: () }
impl Row {
    #[verifier::external_body]
    pub fn from_bytes_checked(value: &[u8], schema: &Schema) -> (r: RuntimeResult<Row>) ensures r matches Ok(row) ==> row == decoded(value@) { unimplemented!() }
    // visibility-filtered decoding: None when the recovery snapshot cannot see the image's creator
    #[verifier::external_body]
    pub fn from_bytes_checked_with_snapshot(value: &[u8], schema: &Schema, snapshot: &Snapshot) -> (r: RuntimeResult<Option<Row>>) ensures r matches Ok(Some(row)) ==> row == decoded(value@) { unimplemented!() }
}

pub enum Eff { Insert(u64, Row), Update(u64, u64, Row, Row), Delete(u64, u64) }
pub struct DmlExecutor { c: ThreadContext, trace: Ghost<Seq<Eff>> }
impl DmlExecutor {
    pub closed spec fn effects(&self) -> Seq<Eff> { self.trace@ }
    pub closed spec fn context(&self) -> &ThreadContext { &self.c }
    #[verifier::external_body]
    pub fn ctx(&self) -> (r: &ThreadContext) ensures r == self.context() { unimplemented!() }
    #[verifier::external_body]
    pub fn insert(&mut self, table_id: ObjectId, columns: &Vec<usize>, values: &Row) -> (r: RuntimeResult<u64>)
        ensures r is Ok ==> final(self).trace@ == old(self).trace@.push(Eff::Insert(table_id, *values)), r is Err ==> final(self).trace@ == old(self).trace@, final(self).c == old(self).c { unimplemented!() }
    #[verifier::external_body]
    pub fn update_row(&mut self, table_id: ObjectId, row_id: &UInt64, old_row: &Row, new_row: &Row) -> (r: RuntimeResult<u64>)
        ensures r is Ok ==> final(self).trace@ == old(self).trace@.push(Eff::Update(table_id, row_id.0, *old_row, *new_row)), r is Err ==> final(self).trace@ == old(self).trace@, final(self).c == old(self).c { unimplemented!() }
    #[verifier::external_body]
    pub fn delete(&mut self, table_id: ObjectId, row_id: &UInt64) -> (r: RuntimeResult<u64>)
        ensures r is Ok ==> final(self).trace@ == old(self).trace@.push(Eff::Delete(table_id, row_id.0)), r is Err ==> final(self).trace@ == old(self).trace@, final(self).c == old(self).c { unimplemented!() }
}

#[verifier::external_body]
pub struct Insert { _p: () }
#[verifier::external_body]
pub struct Update { _p: () }
#[verifier::external_body]
pub struct Delete { _p: () }
impl Insert {
    pub uninterp spec fn oid(&self) -> Option<u64>;
    pub uninterp spec fn rid(&self) -> Option<u64>;
    pub uninterp spec fn redo_img(&self) -> Seq<u8>;
    pub uninterp spec fn undo_img(&self) -> Seq<u8>;
    #[verifier::external_body] pub fn object_id(&self) -> (r: Option<ObjectId>) ensures r == self.oid() { unimplemented!() }
    #[verifier::external_body] pub fn row_id(&self) -> (r: Option<u64>) ensures r == self.rid() { unimplemented!() }
    #[verifier::external_body] pub fn redo(&self) -> (r: &[u8]) ensures r@ == self.redo_img() { unimplemented!() }
    #[verifier::external_body] pub fn undo(&self) -> (r: &[u8]) ensures r@ == self.undo_img() { unimplemented!() }
}
impl Update {
    pub uninterp spec fn oid(&self) -> Option<u64>;
    pub uninterp spec fn rid(&self) -> Option<u64>;
    pub uninterp spec fn redo_img(&self) -> Seq<u8>;
    pub uninterp spec fn undo_img(&self) -> Seq<u8>;
    #[verifier::external_body] pub fn object_id(&self) -> (r: Option<ObjectId>) ensures r == self.oid() { unimplemented!() }
    #[verifier::external_body] pub fn row_id(&self) -> (r: Option<u64>) ensures r == self.rid() { unimplemented!() }
    #[verifier::external_body] pub fn redo(&self) -> (r: &[u8]) ensures r@ == self.redo_img() { unimplemented!() }
    #[verifier::external_body] pub fn undo(&self) -> (r: &[u8]) ensures r@ == self.undo_img() { unimplemented!() }
}
impl Delete {
    pub uninterp spec fn oid(&self) -> Option<u64>;
    pub uninterp spec fn rid(&self) -> Option<u64>;
    pub uninterp spec fn redo_img(&self) -> Seq<u8>;
    pub uninterp spec fn undo_img(&self) -> Seq<u8>;
    #[verifier::external_body] pub fn object_id(&self) -> (r: Option<ObjectId>) ensures r == self.oid() { unimplemented!() }
    #[verifier::external_body] pub fn row_id(&self) -> (r: Option<u64>) ensures r == self.rid() { unimplemented!() }
    #[verifier::external_body] pub fn redo(&self) -> (r: &[u8]) ensures r@ == self.redo_img() { unimplemented!() }
    #[verifier::external_body] pub fn undo(&self) -> (r: &[u8]) ensures r@ == self.undo_img() { unimplemented!() }
}


pub struct WalRecuperator { dml_executor: DmlExecutor }

impl WalRecuperator {
    pub closed spec fn effects(&self) -> Seq<Eff> { self.dml_executor.effects() }
    pub closed spec fn table_exists(&self, id: ObjectId) -> bool { self.dml_executor.context().cat().has(id) }

//@fn crates/axmos-db/src/io/recovery.rs | impl WalRecuperator | undo_target_exists
//@ sub /Err\(other\) => Err\(other\.into\(\)\),/ => Err(other) => Err(other),
//@ ensures
//@   [C08,C02:undo.the_target_test_says_whether_the_table_is_there] r matches Ok(b) ==> b == self.table_exists(table_id),
//@   [C08:undo.a_missing_table_is_not_an_error] !self.table_exists(table_id) ==> r is Ok,
//@end


//@fn crates/axmos-db/src/io/recovery.rs | impl WalRecuperator | redo_insert
//@ sub /\.expect\("[^"]*"\)/ => .unwrap()
//@ requires
//@   insert_op.oid() is Some,
//@ ensures
//@   [C01:redo.insert_applies_the_logged_row] r is Ok ==> final(self).effects() == old(self).effects().push(Eff::Insert(insert_op.oid()->0, decoded(insert_op.redo_img()))),
//@end

//@fn crates/axmos-db/src/io/recovery.rs | impl WalRecuperator | redo_update
//@ sub /\.expect\("[^"]*"\)/ => .unwrap()
//@ sub /\.map\(\|r\| UInt64::from\(r\)\)/ => .map(|r: u64| -> (o: UInt64) ensures o.0 == r { UInt64::from(r) })
//@ requires
//@   update_op.oid() is Some && update_op.rid() is Some,
//@ ensures
//@   [C01:redo.update_applies_old_to_new] r is Ok ==> final(self).effects() == old(self).effects().push(Eff::Update(update_op.oid()->0, update_op.rid()->0, decoded(update_op.undo_img()), decoded(update_op.redo_img()))),
//@end

//@fn crates/axmos-db/src/io/recovery.rs | impl WalRecuperator | redo_delete
//@ sub /\.expect\("[^"]*"\)/ => .unwrap()
//@ sub /\.map\(\|r\| UInt64::from\(r\)\)/ => .map(|r: u64| -> (o: UInt64) ensures o.0 == r { UInt64::from(r) })
//@ requires
//@   delete_op.oid() is Some && delete_op.rid() is Some,
//@ ensures
//@   [C01:redo.delete_applies] r is Ok ==> final(self).effects() == old(self).effects().push(Eff::Delete(delete_op.oid()->0, delete_op.rid()->0)),
//@end

//@fn crates/axmos-db/src/io/recovery.rs | impl WalRecuperator | undo_update
//@ sub /\.expect\("[^"]*"\)/ => .unwrap()
//@ sub /\.map\(\|r\| UInt64::from\(r\)\)/ => .map(|r: u64| -> (o: UInt64) ensures o.0 == r { UInt64::from(r) })
//@ requires
//@   update_op.oid() is Some && update_op.rid() is Some,
//@ ensures
//@   [C08,C02:undo.an_update_of_a_table_that_is_not_there_is_nothing] !old(self).table_exists(update_op.oid()->0) ==> r is Ok && final(self).effects() == old(self).effects(),
//@   [C02:undo.update_applies_new_to_old] r is Ok && old(self).table_exists(update_op.oid()->0) ==> final(self).effects() == old(self).effects().push(Eff::Update(update_op.oid()->0, update_op.rid()->0, decoded(update_op.redo_img()), decoded(update_op.undo_img()))),
//@end

//@fn crates/axmos-db/src/io/recovery.rs | impl WalRecuperator | undo_delete
//@ sub /\.expect\("[^"]*"\)/ => .unwrap()
//@ requires
//@   delete_op.oid() is Some,
//@ ensures
//@   [C08,C02:undo.a_delete_from_a_table_that_is_not_there_is_nothing] !old(self).table_exists(delete_op.oid()->0) ==> r is Ok && final(self).effects() == old(self).effects(),
//@   [C02:undo.delete_reinserts_the_old_row] r is Ok && old(self).table_exists(delete_op.oid()->0) ==> final(self).effects() == old(self).effects().push(Eff::Insert(delete_op.oid()->0, decoded(delete_op.undo_img()))),
//@end

//@fn crates/axmos-db/src/io/recovery.rs | impl WalRecuperator | undo_insert
//@ sub /\.expect\("[^"]*"\)/ => .unwrap()
//@ sub /\.map\(\|r\| UInt64::from\(r\)\)/ => .map(|r: u64| -> (o: UInt64) ensures o.0 == r { UInt64::from(r) })
//@ requires
//@   insert_op.oid() is Some && insert_op.rid() is Some,
//@ ensures
//@   [C08,C02:undo.an_insert_into_a_table_that_is_not_there_is_nothing] !old(self).table_exists(insert_op.oid()->0) ==> r is Ok && final(self).effects() == old(self).effects(),
//@   [C02:undo.insert_deletes_the_row] r is Ok && old(self).table_exists(insert_op.oid()->0) ==> final(self).effects() == old(self).effects().push(Eff::Delete(insert_op.oid()->0, insert_op.rid()->0)),
//@end
}

} // verus!
