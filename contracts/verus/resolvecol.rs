//@unit name=resolvecol props=C05
//@strip-pub
// Unit `resolvecol`: how the binder resolves an UNQUALIFIED column name inside one query scope (resolve_in_scope).
//   C05 "results as SQL defines": a name that is a column of exactly one table of the FROM clause
//   means that column -- its position is the table's offset in the joined row plus the column's
//   index in the table -- whether or not the select list also has an output column of that name
//   (an ORDER BY expression over a selected column sorted by the row id before fix 11e9f35); a name
//   found in two tables is ambiguous; an output alias is used only when no table has the name.
//@trusted [env] QueryScope::{iter (the entries in FROM order), get_output_alias}, the schema's name -> index map and Schema::column (an index the map returns is a column of the schema), calculate_column_offset as abstract functions; names are compared through an abstract identity `sid`; a FROM clause has fewer than 2^31 tables and the joined row fewer than 2^64 columns (stated preconditions: the counter is an `i32`, positions are `usize`)
//@trusted [sub] `for entry in scope.iter()` -> the same loop by index over `scope.entries_vec()`; `entry.schema.column_index.get(column)` -> `entry.col_index(column)`; the error constructors (with `to_string()` arguments, three of them inside `ok_or_else` closures) -> `not_found()`, `ambiguous()`
use vstd::prelude::*;

verus! {

pub struct ScopeError { pub code: u8 }
pub type ScopeResult<T> = Result<T, ScopeError>;
#[verifier::external_body]
pub fn not_found() -> ScopeError { unimplemented!() }
#[verifier::external_body]
pub fn ambiguous() -> ScopeError { unimplemented!() }

#[derive(Clone, Copy, PartialEq, Eq)]
pub enum DataTypeKind { Int, BigInt, Double, Text, Other }
pub type ObjectId = u64;

pub uninterp spec fn sid(s: &str) -> int;

#[verifier::external_body]
pub struct Column { _p: () }
impl Column {
    pub uninterp spec fn ty(&self) -> DataTypeKind;
    #[verifier::external_body]
    pub fn datatype(&self) -> (r: DataTypeKind) ensures r == self.ty() { unimplemented!() }
}
#[verifier::external_body]
pub struct Schema { _p: () }
impl Schema {
    pub uninterp spec fn cols(&self) -> Seq<Column>;
    #[verifier::external_body]
    pub fn column(&self, i: usize) -> (r: Option<&Column>) ensures i < self.cols().len() ==> r == Some(&self.cols()[i as int]), i >= self.cols().len() ==> r is None { unimplemented!() }
}
pub struct ScopeEntry { pub scope_index: usize, pub schema: Schema, pub table_id: Option<ObjectId> }
impl ScopeEntry {
    // the schema's name -> index map
    pub uninterp spec fn col_of(&self, name: int) -> Option<usize>;
    #[verifier::external_body]
    pub fn col_index(&self, column: &str) -> (r: Option<&usize>)
        ensures (r matches Some(i) ==> self.col_of(sid(column)) == Some(*i) && *i < self.schema.cols().len()), r is None ==> self.col_of(sid(column)) is None { unimplemented!() }
}
#[verifier::external_body]
pub struct QueryScope { _p: () }
impl QueryScope {
    pub uninterp spec fn entries(&self) -> Seq<ScopeEntry>;
    pub uninterp spec fn alias(&self, name: int) -> Option<DataTypeKind>;
    #[verifier::external_body]
    pub fn entries_vec(&self) -> (r: &Vec<ScopeEntry>) ensures r@ == self.entries() { unimplemented!() }
    #[verifier::external_body]
    pub fn get_entry(&self, name: &str) -> (r: Option<&ScopeEntry>) ensures r matches Some(e) ==> (exists|k: int| 0 <= k < self.entries().len() && #[trigger] self.entries()[k] == *e) { unimplemented!() }
    #[verifier::external_body]
    pub fn get_output_alias(&self, name: &str) -> (r: Option<DataTypeKind>) ensures r == self.alias(sid(name)) { unimplemented!() }
}
pub uninterp spec fn offset(scope: &QueryScope, scope_index: usize) -> usize;
#[verifier::external_body]
pub fn calculate_column_offset(scope: &QueryScope, scope_index: usize) -> (r: usize) ensures r == offset(scope, scope_index) { unimplemented!() }

pub struct ResolvedColumn { pub scope_index: usize, pub column_idx: usize, pub data_type: DataTypeKind, pub table_id: Option<ObjectId> }

// how many of the first n tables of the FROM clause have a column of that name
pub open spec fn holders(es: Seq<ScopeEntry>, name: int, n: int) -> int
    decreases n
{
    if n <= 0 { 0 } else { holders(es, name, n - 1) + (if es[n - 1].col_of(name) is Some { 1int } else { 0int }) }
}
pub open spec fn is_column_of(rc: &ResolvedColumn, e: &ScopeEntry, scope: &QueryScope, name: int) -> bool {
    e.col_of(name) matches Some(i) && rc.scope_index == e.scope_index && rc.table_id == e.table_id && rc.column_idx == offset(scope, e.scope_index) + i && i < e.schema.cols().len() && rc.data_type == e.schema.cols()[i as int].ty()
}

//@fn crates/axmos-db/src/sql/binder/mod.rs | - | resolve_in_scope
//@ sub /\.ok_or_else\(\|\| \{?.*?\}?\)\?;/ => .ok_or(not_found())?;
//@ sub /for entry in scope\.iter\(\) \{/ => let ents = scope.entries_vec(); for axv_e in 0..ents.len() { let entry = &ents[axv_e];
//@ sub /entry\.schema\.column_index\.get\(column\)/ => entry.col_index(column)
//@ sub? /ScopeError::NotFound\(DatabaseItem::Column\(\s*"unqualified"\.to_string\(\),\s*column\.to_string\(\),\s*\)\)/ => not_found()
//@ sub? /ScopeError::AmbiguousColumn\(column\.to_string\(\)\)/ => ambiguous()
//@ requires
//@   scope.entries().len() < 0x7fff_ffff,
//@   forall|k: int| 0 <= k < scope.entries().len() ==> offset(scope, (#[trigger] scope.entries()[k]).scope_index) + scope.entries()[k].schema.cols().len() <= usize::MAX,
//@ ensures
//@   [C05:resolve.a_column_of_the_from_clause_wins_over_an_output_alias] table is None && holders(scope.entries(), sid(column), scope.entries().len() as int) == 1 ==> (r matches Ok(rc) && exists|k: int| 0 <= k < scope.entries().len() && is_column_of(&rc, &#[trigger] scope.entries()[k], scope, sid(column))),
//@   [C05:resolve.a_name_in_two_tables_is_ambiguous] table is None && holders(scope.entries(), sid(column), scope.entries().len() as int) >= 2 ==> r is Err,
//@   [C05:resolve.an_output_alias_is_only_the_fallback] table is None && holders(scope.entries(), sid(column), scope.entries().len() as int) == 0 ==> (r is Ok <==> scope.alias(sid(column)) is Some),
//@ loop 1
//@   invariant
//@     ents@ == scope.entries(),
//@     found_count == holders(scope.entries(), sid(column), axv_e as int),
//@     found_count <= axv_e,
//@     scope.entries().len() < 0x7fff_ffff,
//@     found_count > 0 ==> (found matches Some(rc) && exists|k: int| 0 <= k < axv_e && is_column_of(&rc, &#[trigger] scope.entries()[k], scope, sid(column))),
//@     forall|k: int| 0 <= k < scope.entries().len() ==> offset(scope, (#[trigger] scope.entries()[k]).scope_index) + scope.entries()[k].schema.cols().len() <= usize::MAX,
//@end

} // verus!
