//@unit name=checkpoint props=C02,C08
//@strip-pub
// Unit `checkpoint`: Database::flush -- when the public "flush" is a CHECKPOINT.
//   A checkpoint (Pager::flush, unit pagerio) writes every dirty page to the data file and then drops
//   the whole log. That is only right when no transaction is open:
//   C02 "a transaction that did not commit leaves nothing": with a transaction open, its pages would
//   reach the file and the records that could undo them would be gone -- after a crash the recovery
//   finds an empty log and the uncommitted changes stay (fix 9ab2541: an uncommitted INSERT was
//   visible and an uncommitted DELETE effective after flush + crash). While any transaction is
//   ACTIVE, flush only forces the log and changes nothing else.
//   C08 "what committed is durable": either way the log is forced (a checkpoint forces it first);
//   with no transaction open the call is the checkpoint.
//@trusted [env] TransactionCoordinator::transaction_set (the ids whose state is the one asked for: empty for `Active` iff no transaction is active), HashSet::is_empty, Pager::{flush (unit pagerio: checkpoint.*), flush_wal} as events on the pager, at the contracts below
//@trusted [sub] `self.pager.write()` (exclusive lock on the shared pager) is the field itself, the method checked as `&mut self` (R8, sequential semantics: a transaction that begins between the test and the checkpoint is outside this contract); the `?` conversion io::Error -> DatabaseError is folded into the env signatures
use vstd::prelude::*;

verus! {

pub struct DatabaseError { pub code: u8 }
pub type DatabaseResult<T> = Result<T, DatabaseError>;
pub type TransactionId = u64;

#[derive(Clone, Copy, PartialEq, Eq)]
pub enum TransactionState { Active, Committed, Aborted }

#[verifier::external_body]
pub struct TxSet { _p: () }
impl TxSet {
    pub uninterp spec fn empty(&self) -> bool;
    #[verifier::external_body]
    pub fn is_empty(&self) -> (r: bool) ensures r == self.empty() { unimplemented!() }
}

#[verifier::external_body]
pub struct TransactionCoordinator { _p: () }
impl TransactionCoordinator {
    pub uninterp spec fn has_active(&self) -> bool;      // some transaction is open
    #[verifier::external_body]
    pub fn transaction_set(&self, state: TransactionState) -> (r: TxSet)
        ensures state == TransactionState::Active ==> (r.empty() <==> !self.has_active()) { unimplemented!() }
}

pub enum Ev { ForceLog, Checkpoint }
#[verifier::external_body]
pub struct Pager { _p: () }
impl Pager {
    pub uninterp spec fn events(&self) -> Seq<Ev>;
    // Pager::flush: force the log, write the dirty pages and the header, drop the log (unit pagerio)
    #[verifier::external_body]
    pub fn flush(&mut self) -> (r: DatabaseResult<()>)
        ensures final(self).events() == old(self).events().push(Ev::Checkpoint) { unimplemented!() }
    #[verifier::external_body]
    pub fn flush_wal(&mut self) -> (r: DatabaseResult<()>)
        ensures final(self).events() == old(self).events().push(Ev::ForceLog) { unimplemented!() }
}

pub struct Database { pub coordinator: TransactionCoordinator, pub pager: Pager }
impl Database {
//@fn crates/axmos-db/src/lib.rs | impl Database | flush
//@ mutself
//@ sub /self\.pager\.write\(\)/ => self.pager
//@ ensures
//@   [C02:flush.no_checkpoint_while_a_transaction_is_open] old(self).coordinator.has_active() ==> final(self).pager.events() == old(self).pager.events().push(Ev::ForceLog),
//@   [C08:flush.with_no_transaction_open_it_is_the_checkpoint] !old(self).coordinator.has_active() ==> final(self).pager.events() == old(self).pager.events().push(Ev::Checkpoint),
//@end
}

} // verus!
