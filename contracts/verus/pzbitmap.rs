//@unit name=pzbitmap props=C02,C09
//@strip-pub
// Unit `pzbitmap`: reload of the aborted-transaction bitmap (C02/C09: after reopen every recorded
// rolled-back id is reported again -- get_aborted_transactions is what the coordinator loads).
//@trusted the bit-level meaning of is_transaction_aborted is checked on the real code by Kani unit pagezero (is_aborted.reads_bit); here its result is only named (aborted_spec mirrors the same expression)
use vstd::prelude::*;

verus! {

type PageId = u64;
type TransactionId = u64;
type ObjectId = u64;

//@item crates/axmos-db/src/storage/page.rs | - | const ABORTED_BITMAP_SIZE
//@item crates/axmos-db/src/storage/page.rs | - | const MAX_TRACKED_ABORTED_TXS
//@item crates/axmos-db/src/storage/page.rs | - | struct PageZeroHeader

impl PageZeroHeader {
    // what "id t is recorded as aborted" means: bit t%8 of byte t/8, only ids below the bitmap width
    pub closed spec fn aborted_spec(&self, txid: u64) -> bool {
        txid < MAX_TRACKED_ABORTED_TXS as u64 && (self.aborted_txs_bitmap[(txid / 8) as int] & (1u8 << ((txid % 8) as u8))) != 0
    }

//@fn crates/axmos-db/src/storage/page.rs | impl PageZeroHeader | is_transaction_aborted
//@ ensures
//@   [C02,C09:bitmap.is_aborted_is_the_bit] r == self.aborted_spec(txid),
//@end

//@fn crates/axmos-db/src/storage/page.rs | impl PageZeroHeader | get_aborted_transactions
//@ ensures
//@   [C02,C09:bitmap.reload_complete] forall|t: u64| self.aborted_spec(t) ==> r@.contains(t),
//@   [C02,C09:bitmap.reload_sound] forall|i: int| 0 <= i < r@.len() ==> self.aborted_spec(#[trigger] r@[i]),
//@ loop 1
//@   invariant
//@     forall|t: u64| t < txid && self.aborted_spec(t) ==> aborted@.contains(t),
//@     forall|i: int| 0 <= i < aborted@.len() ==> self.aborted_spec(#[trigger] aborted@[i]),
//@ proof-before /aborted\.push\(txid\);/
//@   assert forall|t: u64| t < txid && self.aborted_spec(t) implies aborted@.push(txid).contains(t) by {
//@       let i = choose|i: int| 0 <= i < aborted@.len() && aborted@[i] == t;
//@       assert(aborted@.push(txid)[i] == t);
//@   }
//@   assert(aborted@.push(txid)[aborted@.len() as int] == txid);
//@end
}

} // verus!
