//@unit name=aggregates props=C05
//@strip-pub
// Unit `aggregates`: the accumulator of one aggregate function (C05: aggregates compute what they
// say).  COUNT counts the non-NULL values it is given (COUNT(*) is fed a non-NULL marker per row by
// HashAggregate::accumulate_row), SUM/AVG add them up, MIN/MAX keep the extreme by the DataType
// order, NULL inputs change nothing, an aggregate over no (non-NULL) value is NULL -- COUNT is 0.
//@trusted [env] DataType::add (Kani unit types/eval: exact or error), the DataType order `<` / `>` (C19), to_f64, f64 division and is_nan are abstract functions; clone() is identity
//@trusted [sub] `current.add(&value).map_err(|e| RuntimeError::Other(format!(..)))?` is add_vals(&current, value)?; `value < &current` / `value > &current` are lt(value, &current) / gt(value, &current); `(x).into()` conversions into Int64 / Float64 are named constructors; `s.to_f64().ok_or(..)?` is to_f64_or_err(&s)?; `"..".to_string()` is msg("..")
//@trusted [pre] counters stay below 2^63 (one increment per input row)
use vstd::prelude::*;

verus! {

pub struct Msg { pub m: u8 }
#[verifier::external_body]
pub fn msg(s: &str) -> Msg { unimplemented!() }
pub enum RuntimeError { Other(Msg), TypeError(u8) }
pub type RuntimeResult<T> = Result<T, RuntimeError>;

pub struct Int64(pub i64);
pub struct Float64(pub f64);
pub enum DataType { Null, BigInt(Int64), Double(Float64), Other(u64) }
pub uninterp spec fn add_spec(a: DataType, b: DataType) -> DataType;
pub uninterp spec fn lt_spec(a: DataType, b: DataType) -> bool;
pub uninterp spec fn gt_spec(a: DataType, b: DataType) -> bool;
pub uninterp spec fn f64_of(a: DataType) -> Option<f64>;
pub uninterp spec fn avg_spec(sum: f64, n: u64) -> f64;
pub uninterp spec fn nan(x: f64) -> bool;
impl DataType {
    #[verifier::external_body]
    pub fn clone(&self) -> (r: DataType) ensures r == *self { unimplemented!() }
}
#[verifier::external_body]
pub fn add_vals(a: &DataType, b: &DataType) -> (r: RuntimeResult<DataType>) ensures r matches Ok(v) ==> v == add_spec(*a, *b) { unimplemented!() }
#[verifier::external_body]
pub fn lt(a: &DataType, b: &DataType) -> (r: bool) ensures r == lt_spec(*a, *b) { unimplemented!() }
#[verifier::external_body]
pub fn gt(a: &DataType, b: &DataType) -> (r: bool) ensures r == gt_spec(*a, *b) { unimplemented!() }
#[verifier::external_body]
pub fn to_f64_or_err(a: &DataType) -> (r: RuntimeResult<f64>) ensures r matches Ok(x) ==> f64_of(*a) == Some(x), r is Err <==> f64_of(*a) is None { unimplemented!() }
#[verifier::external_body]
pub fn is_nan(x: f64) -> (r: bool) ensures r == nan(x) { unimplemented!() }
#[verifier::external_body]
pub fn avg_of(sum: f64, n: u64) -> (r: f64) ensures r == avg_spec(sum, n) { unimplemented!() }

//@item crates/axmos-db/src/runtime/ops/aggregate.rs | - | enum Accumulator

pub open spec fn step(a: Accumulator, v: DataType) -> Accumulator {
    if v is Null { a } else { match a {
        Accumulator::Count { count } => Accumulator::Count { count: (count + 1) as u64 },
        Accumulator::Sum { sum } => Accumulator::Sum { sum: Some(match sum { None => v, Some(c) => add_spec(c, v) }) },
        Accumulator::Avg { sum, count } => Accumulator::Avg { sum: Some(match sum { None => v, Some(c) => add_spec(c, v) }), count: (count + 1) as u64 },
        Accumulator::Min { min } => Accumulator::Min { min: Some(match min { None => v, Some(c) => if lt_spec(v, c) { v } else { c } }) },
        Accumulator::Max { max } => Accumulator::Max { max: Some(match max { None => v, Some(c) => if gt_spec(v, c) { v } else { c } }) },
    } }
}
pub open spec fn counter_of(a: Accumulator) -> u64 { match a { Accumulator::Count { count } => count, Accumulator::Avg { sum, count } => count, _ => 0 } }

impl Accumulator {
    pub open spec fn cnt(&self) -> u64 { counter_of(*self) }
//@fn crates/axmos-db/src/runtime/ops/aggregate.rs | impl Accumulator | accumulate
//@ sub /current\s*\.add\(&value\)\s*\.map_err\(\|e\| RuntimeError::Other\(format!\("Sum error: \{\}", e\)\)\)\?/ => add_vals(&current, value)?
//@ sub? /value < &current/ => lt(value, &current)
//@ sub? /value > &current/ => gt(value, &current)
//@ requires
//@   old(self).cnt() < 0x7fff_ffff_ffff_ffff,
//@ ensures
//@   [C05:agg.accumulate_is_the_sql_step] r is Ok ==> *final(self) == step(*old(self), *value),
//@   [C05:agg.null_changes_nothing] (*value) is Null ==> (r is Ok && *final(self) == *old(self)),
//@end

//@fn crates/axmos-db/src/runtime/ops/aggregate.rs | impl Accumulator | finalize
//@ sub /\(count as i64\)\.into\(\)/ => Int64(count as i64)
//@ sub /s\.to_f64\(\)\.ok_or\(RuntimeError::TypeError\(\s*TypeSystemError::UnexpectedDataType\(s\.kind\(\)\),?\s*\)\)\?/ => to_f64_or_err(&s)?
//@ sub /sum_f64\.is_nan\(\)/ => is_nan(sum_f64)
//@ sub /"([^"]*)"\.to_string\(\)/ => msg("\1")
//@ sub /\(sum_f64 \/ count as f64\)\.into\(\)/ => Float64(avg_of(sum_f64, count))
//@ requires
//@   self.cnt() < 0x7fff_ffff_ffff_ffff,
//@ ensures
//@   [C05:agg.count_result] self matches Accumulator::Count { count } ==> r == Ok::<DataType, RuntimeError>(DataType::BigInt(Int64(count as i64))),
//@   [C05:agg.empty_input_is_null] (self matches Accumulator::Sum { sum } && sum is None) || (self matches Accumulator::Min { min } && min is None) || (self matches Accumulator::Max { max } && max is None) || (self matches Accumulator::Avg { sum, count } && (count == 0 || sum is None)) ==> r == Ok::<DataType, RuntimeError>(DataType::Null),
//@   [C05:agg.sum_min_max_result] (self matches Accumulator::Sum { sum } ==> (sum matches Some(v) ==> r == Ok::<DataType, RuntimeError>(v))) && (self matches Accumulator::Min { min } ==> (min matches Some(v) ==> r == Ok::<DataType, RuntimeError>(v))) && (self matches Accumulator::Max { max } ==> (max matches Some(v) ==> r == Ok::<DataType, RuntimeError>(v))),
//@   [C05:agg.avg_is_sum_over_count] self matches Accumulator::Avg { sum, count } ==> (sum matches Some(s) ==> (count > 0 ==> (r matches Ok(v) ==> (f64_of(s) matches Some(x) ==> v == DataType::Double(Float64(avg_spec(x, count))))))),
//@end
}

} // verus!
