//@unit name=nljoin props=C05
//@strip-pub
//@rlimit 60
// Unit `nljoin`: NestedLoopJoin::next -- every row it emits has the width of the join's output schema
// (left width + right width), also the NULL-padded rows of LEFT / RIGHT / FULL joins and also when
// one input is empty; a combined row is emitted only if the join condition holds for it; the
// operator ends only after its left input is consumed.
//@trusted [env] the two children are abstract streams whose rows have fixed widths lw / rw with lw + rw = width of the output schema (what the planner builds); combine_rows / left_with_nulls / nulls_with_right have the contracts PROVED in unit joinhelpers; evaluate_condition is the abstract predicate cond(row); buffer_right reads the whole right input once
//@trusted [R12] termination of next() (an unbounded `loop` and a tail call `return self.next()`) is not checked: partial correctness
//@trusted [sub] `.saturating_sub(x)` is sat_sub(.., x)
use vstd::prelude::*;

verus! {

pub struct RtError { pub code: u8 }
pub type RuntimeResult<T> = Result<T, RtError>;

#[verifier::external_body]
pub struct Row { _p: () }
impl Row {
    pub uninterp spec fn width(&self) -> nat;
    #[verifier::external_body]
    pub fn len(&self) -> (r: usize) ensures r == self.width() { unimplemented!() }
}
pub uninterp spec fn cond(r: Row) -> bool;
pub uninterp spec fn joined(l: Row, r: Row) -> Row;
#[verifier::external_body]
pub fn combine_rows(left: &Row, right: &Row) -> (r: Row) ensures r == joined(*left, *right), r.width() == left.width() + right.width() { unimplemented!() }
#[verifier::external_body]
pub fn left_with_nulls(left: &Row, right_cols: usize) -> (r: Row) ensures r.width() == left.width() + right_cols { unimplemented!() }
#[verifier::external_body]
pub fn nulls_with_right(right: &Row, left_cols: usize) -> (r: Row) ensures r.width() == left_cols + right.width() { unimplemented!() }
pub fn sat_sub(a: usize, b: usize) -> (r: usize) ensures r == if a >= b { a - b } else { 0 } { if a >= b { a - b } else { 0 } }

#[verifier::external_body]
pub struct BoundExpression { _p: () }
#[verifier::external_body]
pub struct Schema { _p: () }
impl Schema {
    pub uninterp spec fn ncols(&self) -> usize;
    #[verifier::external_body]
    pub fn num_columns(&self) -> (r: usize) ensures r == self.ncols() { unimplemented!() }
}
#[verifier::external_body]
pub fn evaluate_condition(combined: &Row, condition: &Option<BoundExpression>, schema: &Schema) -> (r: RuntimeResult<bool>)
    ensures r matches Ok(b) ==> b == cond(*combined) { unimplemented!() }

pub enum JoinType { Inner, Left, Right, Full, Cross }
pub struct ExecutionStats { pub rows_produced: u64, pub rows_scanned: u64, pub pages_read: u64 }

#[verifier::external_body]
pub struct Stream { _p: () }
impl Stream {
    pub uninterp spec fn rows(&self) -> Seq<Row>;
    pub uninterp spec fn pos(&self) -> nat;
    #[verifier::external_body]
    pub fn next(&mut self) -> (r: RuntimeResult<Option<Row>>)
        requires old(self).pos() <= old(self).rows().len(),
        ensures
            final(self).rows() == old(self).rows(),
            r matches Ok(Some(row)) ==> old(self).pos() < old(self).rows().len() && row == old(self).rows()[old(self).pos() as int] && final(self).pos() == old(self).pos() + 1,
            r matches Ok(None) ==> old(self).pos() == old(self).rows().len() && final(self).pos() == old(self).pos(),
            r is Err ==> final(self).pos() == old(self).pos(),
    { unimplemented!() }
    #[verifier::external_body]
    pub fn close(&mut self) -> (r: RuntimeResult<()>) ensures final(self).rows() == old(self).rows(), final(self).pos() == old(self).pos() { unimplemented!() }
}

pub struct NestedLoopJoin {
    join_type: JoinType, condition: Option<BoundExpression>, output_schema: Schema, left_cols: usize,
    left: Stream, right: Stream,
    current_left_row: Option<Row>, right_buffer: Vec<Row>, right_idx: usize, right_buffered: bool,
    left_matched: bool, right_matched: Vec<bool>, emitting_unmatched_right: bool, unmatched_right_idx: usize,
    stats: ExecutionStats,
    lw: Ghost<nat>, rw: Ghost<nat>,
}

impl NestedLoopJoin {
    pub closed spec fn outer_right(&self) -> bool { self.join_type is Right || self.join_type is Full }
    pub closed spec fn inv(&self) -> bool {
        &&& self.lw@ + self.rw@ == self.output_schema.ncols()
        &&& (forall|i: int| 0 <= i < self.left.rows().len() ==> (#[trigger] self.left.rows()[i]).width() == self.lw@)
        &&& (forall|i: int| 0 <= i < self.right.rows().len() ==> (#[trigger] self.right.rows()[i]).width() == self.rw@)
        &&& self.left.pos() <= self.left.rows().len() && self.right.pos() <= self.right.rows().len()
        &&& (self.left_cols == 0 || self.left_cols == self.lw@)
        &&& (self.current_left_row matches Some(row) ==> row.width() == self.lw@ && self.left_cols == self.lw@)
        &&& (self.right_buffered ==> (forall|i: int| 0 <= i < self.right_buffer@.len() ==> (#[trigger] self.right_buffer@[i]).width() == self.rw@))
        &&& (self.right_buffered && self.outer_right() ==> self.right_matched@.len() == self.right_buffer@.len())
        &&& (!self.right_buffered ==> self.right_buffer@.len() == 0 && !self.emitting_unmatched_right && self.current_left_row is None)
        &&& self.right_idx <= self.right_buffer@.len() && self.unmatched_right_idx <= self.right_buffer@.len()
        &&& (self.emitting_unmatched_right ==> self.outer_right() && self.left.pos() == self.left.rows().len())
        &&& self.stats.rows_scanned + (self.left.rows().len() - self.left.pos()) < 0x7fff_ffff_ffff_ffff
    }
    pub closed spec fn room(&self) -> bool { self.stats.rows_produced < 0xffff_ffff_ffff_ffff }
    pub closed spec fn out_width(&self) -> nat { self.output_schema.ncols() as nat }
    pub closed spec fn left_done(&self) -> bool { self.left.pos() == self.left.rows().len() }

    // reads the whole right input once (real code: a while-let over right.next(), then vec![false; n])
    #[verifier::external_body]
    pub fn buffer_right(&mut self) -> (r: RuntimeResult<()>)
        requires old(self).inv(),
        ensures final(self).inv(), r is Ok ==> final(self).right_buffered,
            final(self).output_schema == old(self).output_schema, final(self).left == old(self).left, final(self).join_type == old(self).join_type,
            final(self).lw == old(self).lw, final(self).rw == old(self).rw, final(self).stats == old(self).stats,
            final(self).emitting_unmatched_right == old(self).emitting_unmatched_right,
    { unimplemented!() }

//@fn crates/axmos-db/src/runtime/ops/join.rs | impl<Left: Executor, Right: Executor> NestedLoopJoin<Left, Right> | right_cols
//@ requires
//@   self.left_cols <= self.output_schema.ncols(),
//@ ensures
//@   [C05:nlj.right_width_is_output_minus_left] r == self.output_schema.ncols() - self.left_cols,
//@end

//@fn crates/axmos-db/src/runtime/ops/join.rs | impl<Left: Executor, Right: Executor> Executor for NestedLoopJoin<Left, Right> | next
//@ nodecreases
//@ sub /self\s*\.output_schema\s*\.num_columns\(\)\s*\.saturating_sub\(([^;]*?)\);/ => sat_sub(self.output_schema.num_columns(), \1);
//@ requires
//@   old(self).inv() && old(self).room(),
//@ ensures
//@   [C05:nlj.keeps_inv] final(self).inv() && final(self).out_width() == old(self).out_width(),
//@   [C05:nlj.every_emitted_row_has_the_output_width] r matches Ok(Some(row)) ==> row.width() == old(self).out_width(),
//@   [C05:nlj.ends_only_after_the_left_input] r matches Ok(None) ==> final(self).left_done(),
//@ loop 1
//@   invariant
//@     self.inv(), self.room(), self.right_buffered, self.emitting_unmatched_right, self.output_schema == old(self).output_schema,
//@ loop 2
//@   invariant
//@     self.inv(), self.room(), self.right_buffered, !self.emitting_unmatched_right, self.output_schema == old(self).output_schema,
//@ loop 3
//@   invariant
//@     self.inv(), self.room(), self.right_buffered, !self.emitting_unmatched_right, self.output_schema == old(self).output_schema,
//@     self.current_left_row is Some, left_row.width() == self.lw@,
//@end
}

} // verus!
