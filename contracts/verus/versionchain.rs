//@unit name=versionchain props=C04,C18,C03,C16,C13
//@strip-pub
//@rlimit 60
// Unit `versionchain`: which stored version a snapshot decodes (TupleReader::parse_for_snapshot) and
// what trimming history keeps (Tuple::vaccum_with), against ONE abstract view of the stored bytes:
//   versions(d) = newest version (header: creator, optional deleter) followed by one older version
//   per delta, newest first; a delta records the creator of the version it restores.
//   C04/C18: a reader gets the newest version whose creator it may see, nothing if the row was
//   deleted for it, and never a version whose creator it may not see.
//   C18: vacuum with horizon h keeps every delta some snapshot at or above h may still need.
//@trusted [pre] the stored bytes are a well formed tuple image (wf_chain): what TupleBuilder::build / Tuple::add_version_with wrote; the writers are outside this unit
//@trusted [pre] own_versions_on_top: if the reading transaction created an older version of the row, the newest version is one it may see (no transaction wrote over another one's uncommitted version; the engine has no write locks, so this is an assumption about histories, not a checked fact)
//@trusted [env] byte codecs: TupleHeader/DeltaHeader::read_from (bytemuck, alignment), DataTypeKind::deserialize (value length), check_null (Kani unit tuplelayout: nullbit.inverse) are uninterpreted functions of the bytes; parse_last_version returns the header fields and the first delta position
//@trusted [sub] `&data[a..b]` / `&self.data.effective_data()[a..b]` is slice(.., a, b) with the same index expressions and a labelled bounds obligation; `.ok_or(TupleError::ValueError(i))?` on the column lookup is `col_or_err(.., i)?`
use vstd::prelude::*;

verus! {

global size_of usize == 8;

type TransactionId = u64;
pub struct TupleError { pub code: u8 }
pub type TupleResult<T> = Result<T, TupleError>;

// ---------- the byte-level format of the delta area (uninterpreted leaves)
pub uninterp spec fn hdr_xmin(d: Seq<u8>) -> u64;
pub uninterp spec fn hdr_xmax(d: Seq<u8>) -> Option<u64>;
pub uninterp spec fn first_delta(d: Seq<u8>) -> int;          // aligned end of the newest version's data
pub uninterp spec fn dh_xmin(d: Seq<u8>, at: int) -> u64;     // creator recorded in the delta header read at `at`
pub uninterp spec fn dh_version(d: Seq<u8>, at: int) -> u8;
pub uninterp spec fn dh_end(at: int) -> int;                  // aligned(at) + size_of(DeltaHeader)
pub uninterp spec fn null_at(bitmap: Seq<u8>, idx: int) -> bool;
pub uninterp spec fn val_end(kind: u8, d: Seq<u8>, at: int) -> int;   // where the value of that type starting at `at` ends

#[verifier::external_body]
pub struct Schema { _p: () }
impl Schema {
    pub uninterp spec fn nvalues(&self) -> int;
    pub uninterp spec fn bm(&self) -> int;                         // null_bitmap_size(nvalues)
    pub uninterp spec fn kind_of(&self, idx: int) -> Option<u8>;
    #[verifier::external_body]
    pub fn num_values(&self) -> (r: usize) ensures r == self.nvalues() { unimplemented!() }
    #[verifier::external_body]
    pub fn value(&self, index: usize) -> (r: Option<&Column>)
        ensures r is Some <==> self.kind_of(index as int) is Some, r matches Some(c) ==> Some(c.k()) == self.kind_of(index as int) && index < self.nvalues() { unimplemented!() }
}
#[verifier::external_body]
pub struct Column { _p: () }
impl Column {
    pub uninterp spec fn k(&self) -> u8;
    #[verifier::external_body]
    pub fn datatype(&self) -> (r: Kind) ensures r.0 == self.k() { unimplemented!() }
}
#[derive(Clone, Copy)]
pub struct Kind(pub u8);
pub struct ValRef { pub x: u8 }
impl Kind {
    #[verifier::external_body]
    pub fn deserialize(&self, data: &[u8], cursor: usize) -> (r: TupleResult<(ValRef, usize)>)
        ensures r matches Ok((_v, c)) ==> c == val_end(self.0, data@, cursor as int) { unimplemented!() }
}
#[verifier::external_body]
pub fn null_bitmap_size(n: usize) -> (r: usize) ensures r == sch_bm(n as int) { unimplemented!() }
pub uninterp spec fn sch_bm(n: int) -> int;

pub open spec fn changes_end(s: &Schema, d: Seq<u8>, bm_start: int, c: int, k: nat) -> Option<int>
    decreases k
{
    if k == 0 { Some(c) }
    else if c < 0 || c >= d.len() { None }
    else {
        let idx = d[c] as int;
        if null_at(d.subrange(bm_start, bm_start + s.bm()), idx) { changes_end(s, d, bm_start, c + 1, (k - 1) as nat) }
        else { match s.kind_of(idx) {
            None => None,
            Some(kd) => { let e = val_end(kd, d, c + 1);
                          if c + 1 <= e && e <= d.len() { changes_end(s, d, bm_start, e, (k - 1) as nat) } else { None } } } }
    }
}
pub open spec fn delta_end(s: &Schema, d: Seq<u8>, at: int) -> Option<int> {
    let h = dh_end(at);
    if at < 0 || h < at || h + 1 + s.bm() > d.len() || s.bm() < 0 { None }
    else { changes_end(s, d, h + 1, h + 1 + s.bm(), d[h] as nat) }
}
pub open spec fn wf_chain(s: &Schema, d: Seq<u8>, at: int) -> bool
    decreases d.len() - at
{
    if at < 0 { false } else if at >= d.len() { true }
    else { match delta_end(s, d, at) { None => false, Some(e) => e > at && e <= d.len() && wf_chain(s, d, e) } }
}
// older versions, newest first: (creator, position of its delta, end of its delta)
pub struct Old { pub creator: u64, pub at: int, pub end: int }
pub open spec fn older(s: &Schema, d: Seq<u8>, at: int) -> Seq<Old>
    decreases d.len() - at
{
    if at < 0 || at >= d.len() { Seq::<Old>::empty() }
    else { match delta_end(s, d, at) {
        None => Seq::<Old>::empty(),
        Some(e) => if e > at && e <= d.len() { seq![Old { creator: dh_xmin(d, at), at: at, end: e }] + older(s, d, e) } else { Seq::<Old>::empty() } } }
}

// ---------- snapshots
#[verifier::external_body]
pub struct Snapshot { _p: () }
impl Snapshot {
    pub uninterp spec fn me(&self) -> u64;
    pub uninterp spec fn cb(&self, t: u64) -> bool;          // committed before this snapshot (unit snapshot: visible.*)
    pub open spec fn sees(&self, creator: u64) -> bool { self.cb(creator) || creator == self.me() }
    #[verifier::external_body]
    pub fn xid(&self) -> (r: u64) ensures r == self.me() { unimplemented!() }
    #[verifier::external_body]
    pub fn is_committed_before_snapshot(&self, t: TransactionId) -> (r: bool) ensures r == self.cb(t) { unimplemented!() }
}

// The version the property entitles a snapshot to: index 0 = newest (header), i+1 = older[i].
pub open spec fn creator_of(d: Seq<u8>, o: Seq<Old>, i: int) -> u64 { if i == 0 { hdr_xmin(d) } else { o[i - 1].creator } }
pub open spec fn deleted_for(snap: &Snapshot, d: Seq<u8>) -> bool { hdr_xmax(d) matches Some(x) && (snap.cb(x) || x == snap.me()) }
pub open spec fn entitled(snap: &Snapshot, d: Seq<u8>, o: Seq<Old>, i: int) -> bool {
    0 <= i <= o.len() && snap.sees(creator_of(d, o, i)) && (forall|j: int| 0 <= j < i ==> !snap.sees(creator_of(d, o, j)))
}

pub open spec fn kept_end(first: int, o: Seq<Old>, k: int) -> int { if k == 0 { first } else { o[k - 1].end } }
// what vacuum keeps: the first k deltas, all created at or above the horizon, and the next one (if any) is below it
pub open spec fn keeps(s: &Schema, d: Seq<u8>, after: Seq<u8>, horizon: u64, k: int) -> bool {
    let o = older(s, d, first_delta(d));
    &&& 0 <= k <= o.len()
    &&& (first_delta(d) >= d.len() ==> after == d)
    &&& (first_delta(d) < d.len() ==> after == d.subrange(0, kept_end(first_delta(d), o, k)))
    &&& (forall|j: int| 0 <= j < k ==> (#[trigger] o[j]).creator >= horizon)
    &&& (k < o.len() ==> o[k].creator < horizon)
}

// Unverified assumption about histories: the reader's own versions are on top (nobody wrote over an
// uncommitted version of another transaction).
pub open spec fn own_versions_on_top(snap: &Snapshot, d: Seq<u8>, o: Seq<Old>) -> bool {
    forall|j: int| 0 <= j < o.len() && (#[trigger] o[j]).creator == snap.me() ==> snap.sees(hdr_xmin(d)) && !deleted_for(snap, d)
}

//@item crates/axmos-db/src/storage/tuple.rs | - | struct TupleLayout
impl TupleLayout {
    pub uninterp spec fn dstart(&self) -> int;
    #[verifier::external_body]
    pub fn delta_start(&self) -> (r: usize) ensures r == self.dstart() { unimplemented!() }
    // unit snapshot: version.exact (TupleLayout::is_valid_for_snapshot is proved there against this statement)
    #[verifier::external_body]
    pub fn is_valid_for_snapshot(&self, snapshot: &Snapshot) -> (r: bool)
        ensures r == (snapshot.sees(self.version_xmin) && !(self.version_xmax matches Some(x) && (snapshot.cb(x) || x == snapshot.me()))) { unimplemented!() }
}

pub struct DeltaHeader { pub xmin: u64, pub version: u8 }
impl DeltaHeader {
    #[verifier::external_body]
    pub fn read_from(buffer: &[u8], offset: usize) -> (r: (DeltaHeader, usize))
        requires [C18,C16:chain.delta_header_in_bounds] dh_end(offset as int) <= buffer@.len(),
        ensures r.0.xmin == dh_xmin(buffer@, offset as int), r.0.version == dh_version(buffer@, offset as int), r.1 == dh_end(offset as int),
    { unimplemented!() }
    pub fn version(&self) -> (r: u8) ensures r == self.version { self.version }
    pub fn xmin(&self) -> (r: u64) ensures r == self.xmin { self.xmin }
}
#[verifier::external_body]
pub fn slice(s: &[u8], a: usize, b: usize) -> (r: &[u8])
    requires [C18,C16:chain.bitmap_slice_in_bounds] a <= b && b <= s@.len(),
    ensures r@ == s@.subrange(a as int, b as int),
{ unimplemented!() }
#[verifier::external_body]
pub fn col_or_err(c: Option<&Column>, idx: usize) -> (r: TupleResult<&Column>)
    ensures c matches Some(x) ==> r == Ok::<&Column, TupleError>(x), c is None ==> r is Err,
{ unimplemented!() }

pub struct TupleReader<'a> { schema: &'a Schema }

impl<'a> TupleReader<'a> {
    #[verifier::external_body]
    pub fn check_null(bitmap: &[u8], val_idx: usize) -> (r: bool) ensures r == null_at(bitmap@, val_idx as int) { unimplemented!() }

    #[verifier::external_body]
    pub fn from_schema(schema: &'a Schema) -> (r: TupleReader<'a>) ensures r.schema == schema { unimplemented!() }

    #[verifier::external_body]
    pub fn parse_last_version(&self, data: &[u8]) -> (r: TupleResult<TupleLayout>)
        ensures r matches Ok(l) ==> l.version_xmin == hdr_xmin(data@) && l.version_xmax == hdr_xmax(data@) && l.dstart() == first_delta(data@) && l.value_offsets@.len() == self.schema.nvalues(),
    { unimplemented!() }

//@fn crates/axmos-db/src/storage/tuple.rs | impl<'a> TupleReader<'a> | parse_for_snapshot
//@ sub /&data\[([^\]]*?)\.\.([^\]]*?)\]/ => slice(data, \1, \2)
//@ sub /self\s*\.schema\s*\.value\(field_idx\)\s*\.ok_or\(TupleError::ValueError\(field_idx\)\)\?/ => col_or_err(self.schema.value(field_idx), field_idx)?
//@ requires
//@   data@.len() < 0x7fff_ffff_ffff_ffff,
//@   self.schema.bm() == sch_bm(self.schema.nvalues()) && self.schema.bm() >= 0,
//@   first_delta(data@) >= 0 && wf_chain(self.schema, data@, first_delta(data@)),
//@   own_versions_on_top(snapshot, data@, older(self.schema, data@, first_delta(data@))),
//@ ensures
//@   [C04,C18:select.deleted_row_is_absent] r is Ok && deleted_for(snapshot, data@) ==> r == Ok::<Option<TupleLayout>, TupleError>(None),
//@   [C04,C18:select.returned_creator_is_visible] r matches Ok(Some(l)) ==> snapshot.sees(l.version_xmin),
//@   [C04,C18:select.returns_newest_entitled_version] r matches Ok(Some(l)) ==> (exists|i: int| #[trigger] entitled(snapshot, data@, older(self.schema, data@, first_delta(data@)), i) && l.version_xmin == creator_of(data@, older(self.schema, data@, first_delta(data@)), i)),
//@   [C04,C18:select.nothing_only_if_nothing_entitled] r == Ok::<Option<TupleLayout>, TupleError>(None) && !deleted_for(snapshot, data@) ==> (forall|i: int| !(#[trigger] entitled(snapshot, data@, older(self.schema, data@, first_delta(data@)), i))),
//@ ghost-after /let mut layout = self\.parse_last_version\(data\)\?;/
//@   let ghost all = older(self.schema, data@, first_delta(data@));
//@ proof-before /return Ok\(Some\(layout\)\);/#1
//@   assert(entitled(snapshot, data@, all, 0));
//@ ghost-before /while cursor < data\.len\(\)/
//@   let ghost mut done: Seq<Old> = Seq::<Old>::empty();
//@ loop 1
//@   invariant
//@     data@.len() < 0x7fff_ffff_ffff_ffff,
//@     self.schema.bm() == sch_bm(self.schema.nvalues()) && self.schema.bm() >= 0,
//@     bitmap_size == self.schema.bm(),
//@     wf_chain(self.schema, data@, cursor as int),
//@     all == older(self.schema, data@, first_delta(data@)),
//@     all =~= done + older(self.schema, data@, cursor as int),
//@     forall|j: int| 0 <= j < done.len() ==> !snapshot.cb(#[trigger] done[j].creator),
//@     layout.version_xmin == (if done.len() == 0 { hdr_xmin(data@) } else { done.last().creator }),
//@     layout.value_offsets@.len() == self.schema.nvalues(),
//@     !deleted_for(snapshot, data@),
//@     !snapshot.sees(hdr_xmin(data@)),
//@     own_versions_on_top(snapshot, data@, all),
//@   decreases data@.len() - cursor
//@ ghost-before /let \(delta_header, header_end\)/
//@   let ghost c0 = cursor as int;
//@   let ghost h = dh_end(c0);
//@ loop 2
//@   invariant
//@     data@.len() < 0x7fff_ffff_ffff_ffff,
//@     self.schema.bm() >= 0, bitmap_size == self.schema.bm(),
//@     h + 1 + self.schema.bm() <= cursor <= data@.len(),
//@     delta_bitmap@ == data@.subrange(h + 1, h + 1 + self.schema.bm()),
//@     delta_end(self.schema, data@, c0) is Some,
//@     changes_end(self.schema, data@, h + 1, cursor as int, (num_changes - axv_i) as nat) == delta_end(self.schema, data@, c0),
//@     layout.value_offsets@.len() == self.schema.nvalues(),
//@     layout.version_xmin == dh_xmin(data@, c0),
//@ proof-before /if snapshot\.is_committed_before_snapshot\(layout\.version_xmin\)/
//@   done = done.push(Old { creator: dh_xmin(data@, c0), at: c0, end: cursor as int });
//@   assert(older(self.schema, data@, c0) =~= seq![Old { creator: dh_xmin(data@, c0), at: c0, end: cursor as int }] + older(self.schema, data@, cursor as int));
//@ proof-before /return Ok\(Some\(layout\)\);/#2
//@   assert(forall|j: int| 0 <= j < done.len() ==> all[j] == done[j]);
//@   assert forall|j: int| 0 <= j < done.len() as int implies !snapshot.sees(creator_of(data@, all, j)) by {
//@       if j > 0 { assert(all[j - 1] == done[j - 1]); }
//@   }
//@   assert(entitled(snapshot, data@, all, done.len() as int));
//@end
}

#[verifier::external_body]
pub struct Payload { _p: () }
impl Payload {
    pub uninterp spec fn bytes(&self) -> Seq<u8>;
    #[verifier::external_body]
    pub fn effective_data(&self) -> (r: &[u8]) ensures r@ == self.bytes() { unimplemented!() }
    #[verifier::external_body]
    pub fn len(&self) -> (r: usize) ensures r == self.bytes().len() { unimplemented!() }
    // shrinking keeps the first new_size bytes (Payload::realloc: effective_size = new_size)
    #[verifier::external_body]
    pub fn realloc(&mut self, new_size: usize) -> (r: TupleResult<()>)
        requires [C18:vacuum.only_shrinks] new_size <= old(self).bytes().len(),
        ensures r is Ok ==> final(self).bytes() == old(self).bytes().subrange(0, new_size as int), r is Err ==> final(self).bytes() == old(self).bytes(),
    { unimplemented!() }
}

pub struct Tuple { data: Payload }
impl Tuple {
    pub closed spec fn image(&self) -> Seq<u8> { self.data.bytes() }

//@fn crates/axmos-db/src/storage/tuple.rs | impl Tuple | vaccum_with
//@ sub /&self\.data\.effective_data\(\)\s*\[([^\]]*?)\.\.([^\]]*?)\]/ => slice(self.data.effective_data(), \1, \2)
//@ sub /schema\s*\.value\(field_idx\)\s*\.ok_or\(TupleError::ValueError\(field_idx\)\)\?/ => col_or_err(schema.value(field_idx), field_idx)?
//@ requires
//@   old(self).image().len() < 0x7fff_ffff_ffff_ffff,
//@   schema.bm() == sch_bm(schema.nvalues()) && schema.bm() >= 0,
//@   first_delta(old(self).image()) >= 0 && wf_chain(schema, old(self).image(), first_delta(old(self).image())),
//@ ensures
//@   [C18,C13:vacuum.keeps_exactly_the_deltas_at_or_above_horizon] r is Ok ==> (exists|k: int| #[trigger] keeps(schema, old(self).image(), final(self).image(), oldest_active_xid, k)),
//@   [C18,C13:vacuum.returns_bytes_freed] r matches Ok(n) ==> n == old(self).image().len() - final(self).image().len(),
//@   [C18,C03,C13:vacuum.failure_changes_nothing] r is Err ==> final(self).image() == old(self).image(),
//@ ghost-after /let layout = reader\.parse_last_version\(self\.data\.effective_data\(\)\)\?;/
//@   let ghost d = self.data.bytes();
//@   let ghost first = first_delta(d);
//@   let ghost all = older(schema, d, first);
//@ proof-before /return Ok\(0\);/
//@   assert(keeps(schema, d, self.data.bytes(), oldest_active_xid, 0));
//@   assert(keeps(schema, old(self).image(), self.image(), oldest_active_xid, 0));
//@ ghost-before /while cursor < self\.data\.len\(\)/
//@   let ghost mut kept: Seq<Old> = Seq::<Old>::empty();
//@ loop 1
//@   invariant
//@     self.data.bytes() == d, d.len() < 0x7fff_ffff_ffff_ffff,
//@     schema.bm() == sch_bm(schema.nvalues()) && schema.bm() >= 0, bitmap_size == schema.bm(),
//@     first >= 0 && first < d.len() && all == older(schema, d, first),
//@     wf_chain(schema, d, cursor as int),
//@     last_needed_end == cursor, cursor <= d.len(),
//@     all =~= kept + older(schema, d, cursor as int),
//@     cursor as int == kept_end(first, all, kept.len() as int),
//@     forall|j: int| 0 <= j < kept.len() ==> (#[trigger] kept[j]).creator >= oldest_active_xid,
//@   ensures
//@     last_needed_end == cursor && cursor <= d.len(),
//@     all =~= kept + older(schema, d, cursor as int),
//@     cursor as int == kept_end(first, all, kept.len() as int),
//@     forall|j: int| 0 <= j < kept.len() ==> (#[trigger] kept[j]).creator >= oldest_active_xid,
//@     cursor < d.len() ==> dh_xmin(d, cursor as int) < oldest_active_xid,
//@     wf_chain(schema, d, cursor as int),
//@   decreases d.len() - cursor
//@ ghost-before /let \(delta_header, header_end\) =/
//@   let ghost c0 = cursor as int;
//@   let ghost h = dh_end(c0);
//@ loop 2
//@   invariant
//@     self.data.bytes() == d, d.len() < 0x7fff_ffff_ffff_ffff,
//@     schema.bm() >= 0, bitmap_size == schema.bm(),
//@     h + 1 + schema.bm() <= skip_cursor <= d.len(),
//@     delta_bitmap@ == d.subrange(h + 1, h + 1 + schema.bm()),
//@     delta_end(schema, d, c0) is Some,
//@     changes_end(schema, d, h + 1, skip_cursor as int, (num_changes - axv_i) as nat) == delta_end(schema, d, c0),
//@ proof-before /last_needed_end = skip_cursor;/
//@   kept = kept.push(Old { creator: dh_xmin(d, c0), at: c0, end: skip_cursor as int });
//@   assert(older(schema, d, c0) =~= seq![Old { creator: dh_xmin(d, c0), at: c0, end: skip_cursor as int }] + older(schema, d, skip_cursor as int));
//@ proof-before /Ok\(freed\)/
//@   assert(forall|j: int| 0 <= j < kept.len() ==> all[j] == kept[j]);
//@   if (cursor as int) < d.len() { assert(older(schema, d, cursor as int)[0].creator == dh_xmin(d, cursor as int)); assert(all[kept.len() as int] == older(schema, d, cursor as int)[0]); }
//@   assert(d.subrange(0, d.len() as int) =~= d);
//@   assert(kept.len() <= all.len());
//@   assert(keeps(schema, d, self.data.bytes(), oldest_active_xid, kept.len() as int));
//@   assert(keeps(schema, old(self).image(), self.image(), oldest_active_xid, kept.len() as int));
//@end
}

} // verus!
