//@unit name=joinhelpers props=C05
//@strip-pub
// Unit `joinhelpers`: the row-level building blocks of the three join operators (C05: joins pair
// rows correctly): key matching (a NULL key never matches), the merge join's key comparison (a NULL
// key steps over the row holding it, on its own side), and the three ways an output row is put
// together (left ++ right, left ++ NULLs, NULLs ++ right) with the widths they are given.
//@trusted [env] DataType equality / partial order (C19, Kani unit types) are abstract; Row is a vector of values (Index<usize>, len, new)
//@trusted [sub] `for (l, r) in A.iter().zip(B.iter())` is an index loop over 0..min(len) with `let l = &A[i]; let r = &B[i];` (a `while` with the increment first where the body uses `continue`); `row[i]` on Row is row.at(i); `values.into_boxed_slice()` is the identity on the vector
use vstd::prelude::*;

verus! {

pub enum Ordering { Less, Equal, Greater }
pub enum DataType { Null, V(u64) }
pub uninterp spec fn eq_spec(a: DataType, b: DataType) -> bool;
pub uninterp spec fn cmp_spec(a: DataType, b: DataType) -> Option<Ordering>;
#[verifier::external_body]
pub fn ne(a: &DataType, b: &DataType) -> (r: bool) ensures r == !eq_spec(*a, *b) { unimplemented!() }
impl DataType {
    #[verifier::external_body] pub fn partial_cmp(&self, o: &DataType) -> (r: Option<Ordering>) ensures r == cmp_spec(*self, *o) { unimplemented!() }
    #[verifier::external_body] pub fn clone(&self) -> (r: DataType) ensures r == *self { unimplemented!() }
}
pub fn min_len(a: usize, b: usize) -> (r: usize) ensures r == if a <= b { a } else { b } { if a <= b { a } else { b } }

pub struct Row { pub v: Vec<DataType> }
impl Row {
    pub fn new(values: Vec<DataType>) -> (r: Row) ensures r.v@ == values@ { Row { v: values } }
    pub fn len(&self) -> (r: usize) ensures r == self.v@.len() { self.v.len() }
    pub fn at(&self, i: usize) -> (r: &DataType) requires i < self.v@.len() ensures *r == self.v@[i as int] { &self.v[i] }
}

// SQL key equality: same length, no NULL anywhere, pairwise equal
pub open spec fn keys_equal(a: Seq<DataType>, b: Seq<DataType>) -> bool {
    a.len() == b.len() && (forall|i: int| 0 <= i < a.len() ==> !(#[trigger] a[i] is Null) && !(b[i] is Null) && eq_spec(a[i], b[i]))
}
// merge order of two keys: first position that decides
pub open spec fn merge_cmp(a: Seq<DataType>, b: Seq<DataType>, i: int) -> Ordering
    decreases a.len() - i
{
    if i < 0 || i >= a.len() || i >= b.len() { Ordering::Equal }
    else if a[i] is Null { Ordering::Less }
    else if b[i] is Null { Ordering::Greater }
    else { match cmp_spec(a[i], b[i]) {
        Some(Ordering::Equal) => merge_cmp(a, b, i + 1),
        Some(o) => o,
        None => Ordering::Greater,
    } }
}

//@fn crates/axmos-db/src/runtime/ops/join.rs | - | keys_match
//@ sub /for \(l, r\) in left\.iter\(\)\.zip\(right\.iter\(\)\) \{/ => for axv_i in 0..min_len(left.len(), right.len()) { let l = &left[axv_i]; let r = &right[axv_i];
//@ sub /if l != r \{/ => if ne(l, r) {
//@ ensures
//@   [C05:join.keys_match_is_sql_equality] r == keys_equal(left@, right@),
//@ loop 1
//@   invariant
//@     left@.len() == right@.len(),
//@     forall|j: int| 0 <= j < axv_i ==> !(#[trigger] left@[j] is Null) && !(right@[j] is Null) && eq_spec(left@[j], right@[j]),
//@end

//@fn crates/axmos-db/src/runtime/ops/join.rs | - | combine_rows
//@ sub /left\[i\]/ => left.at(i)
//@ sub /right\[i\]/ => right.at(i)
//@ sub /values\.into_boxed_slice\(\)/ => values
//@ requires
//@   left.v@.len() + right.v@.len() <= usize::MAX,
//@ ensures
//@   [C05:join.combined_is_left_then_right] r.v@ == left.v@ + right.v@,
//@ loop 1
//@   invariant values@ == left.v@.subrange(0, i as int), left.v@.len() + right.v@.len() <= usize::MAX,
//@ loop 2
//@   invariant values@ == left.v@ + right.v@.subrange(0, i as int), left.v@.len() + right.v@.len() <= usize::MAX,
//@end

//@fn crates/axmos-db/src/runtime/ops/join.rs | - | left_with_nulls
//@ sub /left\[i\]/ => left.at(i)
//@ sub /values\.into_boxed_slice\(\)/ => values
//@ requires
//@   left.v@.len() + right_cols <= usize::MAX,
//@ ensures
//@   [C05:join.left_padded_with_right_width_nulls] r.v@.len() == left.v@.len() + right_cols && r.v@.subrange(0, left.v@.len() as int) == left.v@ && (forall|j: int| left.v@.len() <= j < r.v@.len() ==> #[trigger] r.v@[j] is Null),
//@ loop 1
//@   invariant values@ == left.v@.subrange(0, i as int),
//@ loop 2
//@   invariant values@.len() == left.v@.len() + axv_i, values@.subrange(0, left.v@.len() as int) == left.v@, forall|j: int| left.v@.len() <= j < values@.len() ==> #[trigger] values@[j] is Null,
//@end

//@fn crates/axmos-db/src/runtime/ops/join.rs | - | nulls_with_right
//@ sub /right\[i\]/ => right.at(i)
//@ sub /values\.into_boxed_slice\(\)/ => values
//@ requires
//@   right.v@.len() + left_cols <= usize::MAX,
//@ ensures
//@   [C05:join.right_padded_with_left_width_nulls] r.v@.len() == left_cols + right.v@.len() && r.v@.subrange(left_cols as int, r.v@.len() as int) == right.v@ && (forall|j: int| 0 <= j < left_cols ==> #[trigger] r.v@[j] is Null),
//@ loop 1
//@   invariant values@.len() == axv_i, forall|j: int| 0 <= j < values@.len() ==> #[trigger] values@[j] is Null,
//@ loop 2
//@   invariant values@.len() == left_cols + i, values@.subrange(left_cols as int, values@.len() as int) == right.v@.subrange(0, i as int), forall|j: int| 0 <= j < left_cols ==> #[trigger] values@[j] is Null,
//@end

pub struct MergeJoin { pub x: u8 }
impl MergeJoin {
//@fn crates/axmos-db/src/runtime/ops/join.rs | impl<Left: Executor, Right: Executor> MergeJoin<Left, Right> | compare_keys
//@ sub /for \(l, r\) in left_keys\.iter\(\)\.zip\(right_keys\.iter\(\)\) \{/ => let axv_n = min_len(left_keys.len(), right_keys.len()); let mut axv_k: usize = 0; while axv_k < axv_n { let l = &left_keys[axv_k]; let r = &right_keys[axv_k]; axv_k += 1;
//@ ensures
//@   [C05:mergejoin.null_key_steps_over_its_own_row] r == merge_cmp(left_keys@, right_keys@, 0),
//@ loop 1
//@   invariant
//@     axv_k <= axv_n, axv_n == if left_keys@.len() <= right_keys@.len() { left_keys@.len() } else { right_keys@.len() },
//@     merge_cmp(left_keys@, right_keys@, 0) == merge_cmp(left_keys@, right_keys@, axv_k as int),
//@   decreases axv_n - axv_k
//@end
}

} // verus!
