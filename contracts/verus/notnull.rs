//@unit name=notnull props=C07
//@strip-pub
// Unit `notnull`: ConstraintValidator::validate_not_null_constraints (C07: no committed row holds a
// NULL in a NOT NULL column; a statement that would not break the constraint is never rejected).
// The row-level write paths call it before anything is logged or written (unit dmlwal).
//@trusted [env] Schema::iter_columns().enumerate() is a loop over the schema's column vector (cols()); DataType::is_null is the NULL test; the error value's text is opaque
//@trusted [sub] `for (idx, col) in self.schema.iter_columns().enumerate()` is `for idx in 0..cols.len()` over cols = self.schema.cols() with `let col = &cols[idx]`
use vstd::prelude::*;

verus! {

pub struct Name { pub n: u8 }
pub struct Column { pub is_non_null: bool, pub nm: Name }
impl Column {
    #[verifier::external_body]
    pub fn name(&self) -> &Name { unimplemented!() }
}
impl Name { #[verifier::external_body] pub fn to_string(&self) -> Name { unimplemented!() } #[verifier::external_body] pub fn clone(&self) -> Name { unimplemented!() } }
pub enum DatabaseItem { Column(Name, Name) }
pub enum ValidationError { NonNullConstraintViolated(DatabaseItem), Other }
pub type ValidationResult<T> = Result<T, ValidationError>;

pub struct DataType { pub null: bool, pub v: u64 }
impl DataType { pub fn is_null(&self) -> (r: bool) ensures r == self.null { self.null } }

#[verifier::external_body]
pub struct Schema { _p: () }
impl Schema {
    pub uninterp spec fn columns(&self) -> Seq<Column>;
    pub uninterp spec fn num_keys(&self) -> nat;
    // the collections behind Schema::iter_columns / iter_keys / iter_values (the values are the
    // columns after the keys)
    #[verifier::external_body]
    pub fn columns_vec(&self) -> (r: &Vec<Column>) ensures r@ == self.columns() { unimplemented!() }
    #[verifier::external_body]
    pub fn values_vec(&self) -> (r: &Vec<Column>) ensures self.num_keys() <= self.columns().len(), r@ == self.columns().subrange(self.num_keys() as int, self.columns().len() as int) { unimplemented!() }
    #[verifier::external_body]
    pub fn keys_vec(&self) -> (r: &Vec<Column>) ensures self.num_keys() <= self.columns().len(), r@ == self.columns().subrange(0, self.num_keys() as int) { unimplemented!() }
}

pub open spec fn violates(cols: Seq<Column>, values: Seq<DataType>) -> bool {
    exists|i: int| 0 <= i < cols.len() && i < values.len() && (#[trigger] cols[i]).is_non_null && values[i].null
}

pub struct ConstraintValidator<'a> { table_name: Name, schema: &'a Schema }
impl<'a> ConstraintValidator<'a> {
//@fn crates/axmos-db/src/runtime/validator.rs | impl<'a> ConstraintValidator<'a> | validate_not_null_constraints
//@ sub /for \(idx, col\) in self\.schema\.iter_(columns|values|keys)\(\)\.enumerate\(\) \{/ => let cols = self.schema.\1_vec(); for idx in 0..cols.len() { let col = &cols[idx];
//@ ensures
//@   [C07:notnull.rejects_every_violation] violates(self.schema.columns(), values@) ==> r is Err,
//@   [C07:notnull.accepts_everything_else] !violates(self.schema.columns(), values@) ==> r is Ok,
//@ loop 1
//@   invariant
//@     cols@ == self.schema.columns(),
//@     forall|j: int| 0 <= j < idx && j < values@.len() ==> !((#[trigger] cols@[j]).is_non_null && values@[j].null),
//@end
}

} // verus!
