//@unit name=insertvalidate props=C08,C01,C07
//@strip-pub
// Unit `insertvalidate`: DmlExecutor::validate_insert_constraints -- what every INSERT is checked
// against, including the INSERTs recovery replays (redo of an INSERT, undo of a DELETE go through
// DmlExecutor::insert with the row id they were logged with).
//   C08 / C01: recovery must be able to re-apply a logged row that is already there: the UNIQUE probe
//   is told to ignore the row's own id -- a row does not conflict with itself. Without that, a
//   database with a UNIQUE index could not be opened after a crash (committed INSERT + rolled-back
//   DELETE of the same row is enough).
//   C07: NOT NULL, foreign keys and UNIQUE are all checked, on exactly the values given, and the
//   only row ignored by the UNIQUE probe is the row itself.
//@trusted [env] ConstraintValidator::{new, validate_not_null_constraints (unit notnull), validate_foreign_key_constraints, validate_unique_constraints} at typestate contracts: each records that it ran on the given values; std HashSet<u64> as specified by vstd
//@trusted [sub] `relation.name().to_string()` -> `relation.name_string()`; `self.ctx.clone()` -> `self.ctx.dup()` (a handle copy)
use vstd::prelude::*;
use std::collections::HashSet;

verus! {

// std specifications vstd does not carry (sound: they say what the std functions do)
pub assume_specification<T, F: FnOnce(T) -> bool>[ Option::<T>::is_none_or ](o: Option<T>, f: F) -> (r: bool)
    requires o matches Some(v) ==> f.requires((v,)),
    ensures o is None ==> r, o matches Some(v) ==> f.ensures((v,), r);
pub assume_specification<T, F: FnOnce(T) -> bool>[ Option::<T>::is_some_and ](o: Option<T>, f: F) -> (r: bool)
    requires o matches Some(v) ==> f.requires((v,)),
    ensures o is None ==> !r, o matches Some(v) ==> f.ensures((v,), r);

pub struct RuntimeError { pub code: u8 }
pub type RuntimeResult<T> = Result<T, RuntimeError>;
pub type RowId = u64;
pub type ObjectId = u64;

pub struct UInt64(pub u64);
impl UInt64 { pub fn value(&self) -> (r: u64) ensures r == self.0 { self.0 } }
#[verifier::external_body]
pub struct Opaque { _p: () }
pub enum DataType { BigUInt(UInt64), Null, Other(Opaque) }

#[verifier::external_body]
pub struct Schema { _p: () }
#[verifier::external_body]
pub struct TableConstraints { _p: () }
impl TableConstraints { #[verifier::external_body] pub fn is_empty(&self) -> bool { unimplemented!() } #[verifier::external_body] pub fn len(&self) -> usize { unimplemented!() } }
impl Schema { #[verifier::external_body] pub fn constraints(&self) -> Option<&TableConstraints> { unimplemented!() } }
#[verifier::external_body]
pub struct TableName { _p: () }
#[verifier::external_body]
pub struct Relation { _p: () }
impl Relation {
    #[verifier::external_body]
    pub fn schema(&self) -> &Schema { unimplemented!() }
    #[verifier::external_body]
    pub fn object_id(&self) -> ObjectId { unimplemented!() }
    #[verifier::external_body]
    pub fn name_string(&self) -> TableName { unimplemented!() }
}
#[verifier::external_body]
pub struct ThreadContext { _p: () }
impl ThreadContext { #[verifier::external_body] pub fn dup(&self) -> ThreadContext { unimplemented!() } }

// facts about a value vector, established only by the validation that ran on it
pub uninterp spec fn not_null_ok(v: Seq<DataType>) -> bool;
pub uninterp spec fn fk_ok(v: Seq<DataType>) -> bool;
pub uninterp spec fn unique_ok(v: Seq<DataType>, ignoring: Set<u64>) -> bool;

pub open spec fn own_id(v: Seq<DataType>) -> Set<u64> {
    if v.len() > 0 && v[0] is BigUInt { set![v[0]->BigUInt_0.0] } else { Set::empty() }
}

#[verifier::external_body]
pub struct ConstraintValidator { _p: () }
impl ConstraintValidator {
    #[verifier::external_body]
    pub fn new(schema: &Schema, table_name: TableName, ctx: ThreadContext) -> ConstraintValidator { unimplemented!() }
    #[verifier::external_body]
    pub fn validate_not_null_constraints(&self, values: &[DataType]) -> (r: RuntimeResult<()>) ensures r is Ok ==> not_null_ok(values@) { unimplemented!() }
    #[verifier::external_body]
    pub fn validate_foreign_key_constraints(&self, id: ObjectId, values: &[DataType]) -> (r: RuntimeResult<()>) ensures r is Ok ==> fk_ok(values@) { unimplemented!() }
    #[verifier::external_body]
    pub fn validate_unique_constraints(&self, values: &[DataType], skip_nulls: bool, excluded_set: HashSet<RowId>) -> (r: RuntimeResult<()>)
        requires
            [C08,C01:insert_validation.a_row_does_not_conflict_with_itself] own_id(values@).subset_of(excluded_set@),
            [C07:insert_validation.no_other_row_is_ignored_by_the_unique_probe] excluded_set@.subset_of(own_id(values@)),
            [C07:insert_validation.nulls_do_not_violate_unique] skip_nulls,
        ensures r is Ok ==> unique_ok(values@, excluded_set@) { unimplemented!() }
}

pub struct DmlExecutor { pub ctx: ThreadContext }
impl DmlExecutor {
//@fn crates/axmos-db/src/runtime/dml.rs | impl DmlExecutor | validate_insert_constraints
//@ use-lemmas vstd::std_specs::hash::group_hash_axioms
//@ sub /relation\.name\(\)\.to_string\(\)/ => relation.name_string()
//@ sub /self\.ctx\.clone\(\)/ => self.ctx.dup()
//@ ensures
//@   [C07:insert_validation.every_constraint_kind_is_checked_on_the_given_values] r is Ok ==> not_null_ok(new_values@) && fk_ok(new_values@) && unique_ok(new_values@, own_id(new_values@)),
//@end
}

} // verus!
