//@unit name=snapshot props=C04,C03,C18
// Unit `snapshot`: the MVCC visibility predicate (DESIGN Appendix A.1).
// Bodies of the //@fn and //@item blocks are extracted verbatim from /repo at run time.
//@trusted std::collections::HashSet<u64> as specified by vstd (contains == view().contains)
//@trusted TransactionCoordinator::snapshot/begin produce snapshots satisfying Snapshot::inv() and the history relation hist_inv (assumed: RwLock<HashMap> + iterator chains are outside both tools)
use vstd::prelude::*;
use std::collections::HashSet;

verus! {

broadcast use vstd::std_specs::hash::group_hash_axioms;

type TransactionId = u64;

//@item crates/axmos-db/src/multithreading/coordinator.rs | - | struct Snapshot

//@item crates/axmos-db/src/storage/tuple.rs | - | struct TupleLayout

// ---------------------------------------------------------------------------------------
// Specification, taken from the property statement (C04): a reader that began as `xid`
// sees exactly what committed before it began, overlaid with its own writes.
// ---------------------------------------------------------------------------------------

// Ghost history of the system up to (and after) the moment a snapshot was taken.
pub enum Outcome { Open, Aborted, Committed { at: nat } }

pub struct History {
    pub began: spec_fn(u64) -> nat,          // logical time at which id t was issued (began)
    pub outcome_at: spec_fn(u64, nat) -> Outcome, // state of t as of logical time `now`
}

impl History {
    pub open spec fn b(self, t: u64) -> nat { (self.began)(t) }
    pub open spec fn o(self, t: u64, now: nat) -> Outcome { (self.outcome_at)(t, now) }
}

// "t committed before x began"
pub open spec fn committed_before_begin(h: History, x: u64, t: u64) -> bool {
    h.o(t, h.b(x)) is Committed
}

// what the property says a reader x may see of a version created by t
pub open spec fn sees(h: History, x: u64, t: u64) -> bool {
    t == x || committed_before_begin(h, x, t)
}

impl Snapshot {
    // representation invariant of snapshots handed out by begin(): ids are issued in
    // increasing order, so the newest committed id is older than the reader itself.
    pub closed spec fn inv(&self) -> bool {
        // begin() issues ids in increasing order and records the newest committed id as the
        // upper bound; ids start at 0 and the bound starts at 0, hence `<=` (equality only for id 0)
        &&& (self.xmax matches Some(m) && m <= self.xid)
        &&& self.active_txs@.finite()
        &&& self.aborted_txs@.finite()
    }

    pub closed spec fn is_active(&self, t: u64) -> bool { self.active_txs@.contains(t) }
    pub closed spec fn is_aborted(&self, t: u64) -> bool { self.aborted_txs@.contains(t) }
    pub closed spec fn spec_xid(&self) -> u64 { self.xid }
    pub closed spec fn spec_xmax(&self) -> Option<u64> { self.xmax }

    // The relation between a snapshot and the history it was taken from (assumed contract
    // of TransactionCoordinator::snapshot, see //@trusted above):
    pub open spec fn hist_inv(&self, h: History) -> bool {
        let x = self.spec_xid();
        let now = h.b(x);
        &&& self.inv()
        // ids are issued in begin order
        &&& (forall|a: u64, b: u64| a < b ==> #[trigger] h.b(a) < #[trigger] h.b(b))
        // a transaction that has not begun yet is Open (has no outcome)
        &&& (forall|t: u64| h.b(t) > now ==> h.o(t, now) is Open)
        // active set = began-but-open others; the reader itself is open
        &&& (forall|t: u64| t < x ==> (self.is_active(t) <==> h.o(t, now) is Open))
        &&& h.o(x, now) is Open
        // aborted set covers every aborted id
        &&& (forall|t: u64| h.o(t, now) is Aborted ==> self.is_aborted(t))
        &&& (forall|t: u64| self.is_aborted(t) ==> !(h.o(t, now) is Committed))
        // xmax is the newest committed id (None: nothing committed yet)
        &&& (forall|t: u64| h.o(t, now) is Committed ==> (self.spec_xmax() matches Some(m) && t <= m))
    }

    // the predicate the property prescribes, phrased on the snapshot's own data
    pub open spec fn committed_before(&self, t: u64) -> bool {
        &&& !self.is_active(t)
        &&& !self.is_aborted(t)
        &&& (self.spec_xmax() matches Some(m) && t <= m)
    }

//@fn crates/axmos-db/src/multithreading/coordinator.rs | impl Snapshot | new
//@ ensures
//@   [C04:new.fields] r.spec_xid() == xid && r.spec_xmax() == xmax && (forall|t: u64| r.is_active(t) == active@.contains(t)) && (forall|t: u64| r.is_aborted(t) == aborted@.contains(t)),
//@end

//@fn crates/axmos-db/src/multithreading/coordinator.rs | impl Snapshot | xid
//@ ensures r == self.spec_xid(),
//@end

//@fn crates/axmos-db/src/multithreading/coordinator.rs | impl Snapshot | is_transaction_aborted
//@ ensures
//@   [C03,C04:aborted.reports_set] r == self.is_aborted(xid),
//@end

//@fn crates/axmos-db/src/multithreading/coordinator.rs | impl Snapshot | is_committed_before_snapshot
//@ requires self.inv(),
//@ ensures
//@   [C04:visible.no_active] r ==> !self.is_active(txid),
//@   [C04,C03:visible.no_aborted] r ==> !self.is_aborted(txid),
//@   [C04:visible.no_future] (r && txid != self.spec_xid()) ==> txid < self.spec_xid(),
//@   [C04:visible.committed_past] (self.spec_xmax() matches Some(m) && txid <= m && !self.is_active(txid) && !self.is_aborted(txid)) ==> r,
//@   [C04:visible.exact] r == self.committed_before(txid),
//@end

//@fn crates/axmos-db/src/multithreading/coordinator.rs | impl Snapshot | is_tuple_visible
//@ requires self.inv(),
//@ ensures
//@   [C04:tuple_visible.own_delete_hides] (tuple_xmin == self.spec_xid() && tuple_xmax == Some(self.spec_xid())) ==> !r,
//@   [C04,C03:tuple_visible.aborted_creator_hidden] (tuple_xmin != self.spec_xid() && self.is_aborted(tuple_xmin)) ==> !r,
//@   [C04:tuple_visible.active_creator_hidden] (tuple_xmin != self.spec_xid() && self.is_active(tuple_xmin)) ==> !r,
//@end
}


// ---------------------------------------------------------------------------------------
// Environment of TransactionCoordinator::snapshot: the transaction table (RwLock<HashMap>,
// read through an iterator chain) and the pager header are abstract; their contracts are
// assumptions (//@trusted).  The body of `snapshot` itself is the repository's text.
// ---------------------------------------------------------------------------------------
//@item crates/axmos-db/src/multithreading/coordinator.rs | - | enum TransactionState
//@trusted TransactionCoordinator::transaction_set(state) returns a finite set (abstract: ids whose table entry has that state); get_last_committed() <= every id begin() has not issued yet (header counters, see unit pagezero)

pub struct TransactionError { pub code: u8 }
pub type TransactionResult<T> = Result<T, TransactionError>;

#[verifier::external_body]
pub struct TransactionCoordinator { _p: () }

impl TransactionCoordinator {
    pub uninterp spec fn ids_in_state(&self, st: TransactionState) -> Set<u64>;
    pub uninterp spec fn last_committed(&self) -> u64;

    #[verifier::external_body]
    pub fn transaction_set(&self, state: TransactionState) -> (r: HashSet<TransactionId>)
        ensures r@ == self.ids_in_state(state), r@.finite(),
    { unimplemented!() }

    #[verifier::external_body]
    pub fn get_last_committed(&self) -> (r: TransactionId)
        ensures r == self.last_committed(),
    { unimplemented!() }

//@fn crates/axmos-db/src/multithreading/coordinator.rs | impl TransactionCoordinator | snapshot
//@ sub /active\.iter\(\)\.min\(\)\.copied\(\)\.unwrap_or\(txid\)/ => min_or(&active, txid)
//@ requires self.last_committed() <= txid,
//@ ensures
//@   [C04:snapshot.has_upper_bound] r matches Ok(s) && s.spec_xmax() == Some(self.last_committed()),
//@   [C04:snapshot.inv] r matches Ok(s) && s.inv() && s.spec_xid() == txid,
//@   [C04,C03:snapshot.sets] r matches Ok(s) && (forall|t: u64| s.is_active(t) == self.ids_in_state(TransactionState::Active).contains(t)) && (forall|t: u64| s.is_aborted(t) == self.ids_in_state(TransactionState::Aborted).contains(t)),
//@end
}

// stands for `active.iter().min().copied().unwrap_or(txid)` (iterator adapters are outside Verus);
// xmin is not used by any visibility decision, so its value is left unspecified.
#[verifier::external_body]
pub fn min_or(set: &HashSet<TransactionId>, dflt: TransactionId) -> (r: TransactionId)
{ unimplemented!() }

impl TupleLayout {
    pub closed spec fn spec_xmin(&self) -> u64 { self.version_xmin }
    pub closed spec fn spec_xmax(&self) -> Option<u64> { self.version_xmax }

    // Property-level statement for one stored version: visible iff the creator is the
    // reader or committed before it, and the deleter (if any) is neither.
    pub open spec fn valid_for(&self, s: &Snapshot) -> bool {
        let created = self.spec_xmin() == s.spec_xid() || s.committed_before(self.spec_xmin());
        let deleted = match self.spec_xmax() {
            Some(d) => d == s.spec_xid() || s.committed_before(d),
            None => false,
        };
        created && !deleted
    }

//@fn crates/axmos-db/src/storage/tuple.rs | impl TupleLayout | is_valid_for_snapshot
//@ requires snapshot.inv(),
//@ ensures
//@   [C04,C18:version.exact] r == self.valid_for(snapshot),
//@   [C04:version.own_insert_visible] (self.spec_xmin() == snapshot.spec_xid() && self.spec_xmax() is None) ==> r,
//@   [C04:version.own_delete_hides] self.spec_xmax() == Some(snapshot.spec_xid()) ==> !r,
//@   [C04,C03:version.aborted_creator_hidden] (self.spec_xmin() != snapshot.spec_xid() && snapshot.is_aborted(self.spec_xmin())) ==> !r,
//@   [C04:version.active_creator_hidden] (self.spec_xmin() != snapshot.spec_xid() && snapshot.is_active(self.spec_xmin())) ==> !r,
//@   [C04,C03:version.aborted_deleter_ignored] (self.spec_xmax() matches Some(d) && d != snapshot.spec_xid() && snapshot.is_aborted(d) && (self.spec_xmin() == snapshot.spec_xid() || snapshot.committed_before(self.spec_xmin()))) ==> r,
//@   [C04:version.active_deleter_ignored] (self.spec_xmax() matches Some(d) && d != snapshot.spec_xid() && snapshot.is_active(d) && (self.spec_xmin() == snapshot.spec_xid() || snapshot.committed_before(self.spec_xmin()))) ==> r,
//@end
}

// ---------------------------------------------------------------------------------------
// The place where the property statement meets the code's predicate (for all histories):
// under the assumed snapshot/history relation, `committed_before` is exactly
// "committed before the reader began", hence `valid_for` is exactly the SI visibility rule.
// ---------------------------------------------------------------------------------------
//@lemma [C04:lemma_si]
pub proof fn lemma_si(h: History, s: Snapshot, t: u64)
    requires
        s.hist_inv(h),
        t != s.spec_xid(),
    ensures
        s.committed_before(t) <==> committed_before_begin(h, s.spec_xid(), t),
{
    let x = s.spec_xid();
    let now = h.b(x);
    if committed_before_begin(h, x, t) {
        // committed ==> t <= xmax < x, not aborted, and not Open hence not active
        assert(s.spec_xmax() matches Some(m) && t <= m);
        assert(t < x);
        assert(!s.is_active(t));
        assert(!s.is_aborted(t));
    }
    if s.committed_before(t) {
        assert(t < x);
        assert(!(h.o(t, now) is Open));
    }
}

//@lemma [C04:lemma_repeatable]
// repeating a read gives the same answer: the verdict is a function of (snapshot, version header)
pub proof fn lemma_repeatable(s: Snapshot, a: TupleLayout, b: TupleLayout)
    requires a.spec_xmin() == b.spec_xmin(), a.spec_xmax() == b.spec_xmax(),
    ensures a.valid_for(&s) == b.valid_for(&s),
{
}

} // verus!
