//@unit name=coordinator props=C04
//@strip-pub
// Unit `coordinator`: what TransactionCoordinator::commit does to the snapshot horizon
// (C04: a snapshot's upper bound is the newest committed id; it must never move backwards, or
// rows committed by a newer transaction become invisible to later readers).
//@trusted [env] validate_write_set / set_transaction_state (RwLock<HashMap>, iterator chains, atomics) are abstract: they do not touch the page-zero header
//@trusted [env] Arc<RwLock<Pager>>::write() gives exclusive access to the pager (sequential semantics, R8); get/set_last_committed_transaction read/write one header field
use vstd::prelude::*;

verus! {

type TransactionId = u64;
type ObjectId = u64;
type RowId = u64;

//@item crates/axmos-db/src/types/id.rs | - | struct LogicalId
//@item crates/axmos-db/src/multithreading/coordinator.rs | - | enum TransactionState
//@item crates/axmos-db/src/multithreading/coordinator.rs | - | enum ValidationResult

pub enum TransactionError {
    Aborted(TransactionId),
    WriteWriteConflict(TransactionId, LogicalId),
    NotFound(TransactionId),
    Other,
}
pub type TransactionResult<T> = Result<T, TransactionError>;

pub struct Pager { last_committed: u64 }
impl Pager {
    pub fn get_last_committed_transaction(&self) -> (r: TransactionId) ensures r == self.last_committed { self.last_committed }
    pub fn set_last_committed_transaction(&mut self, txid: TransactionId)
        ensures final(self).last_committed == txid,
    { self.last_committed = txid; }
}
pub struct SharedPager { inner: Pager }
impl SharedPager {
    #[verifier::external_body]
    pub fn write(&mut self) -> (r: &mut Pager)
        ensures *r == old(self).inner, final(self).inner == *final(r),
    { unimplemented!() }
}

pub struct TransactionCoordinator { pager: SharedPager }

impl TransactionCoordinator {
    pub closed spec fn last_committed(&self) -> u64 { self.pager.inner.last_committed }

    #[verifier::external_body]
    pub fn validate_write_set(&mut self, txid: TransactionId) -> (r: TransactionResult<ValidationResult>)
        ensures final(self).last_committed() == old(self).last_committed(),
    { unimplemented!() }

    #[verifier::external_body]
    pub fn set_transaction_state(&mut self, txid: TransactionId, state: TransactionState) -> (r: TransactionResult<()>)
        ensures final(self).last_committed() == old(self).last_committed(),
    { unimplemented!() }

//@fn crates/axmos-db/src/multithreading/coordinator.rs | impl TransactionCoordinator | commit
//@ mutself
//@ ensures
//@   [C04:commit.horizon_never_moves_back] final(self).last_committed() >= old(self).last_committed(),
//@   [C04:commit.horizon_covers_committed] r is Ok ==> final(self).last_committed() >= txid,
//@   [C04:commit.horizon_is_max] final(self).last_committed() == old(self).last_committed() || (r is Ok && final(self).last_committed() == txid),
//@end
}

// ---- environment of validate_write_set -------------------------------------------------
//@trusted [env] the transaction table (RwLock<HashMap<id, TransactionMetadata>>) and the per-tuple commit log (RwLock<HashMap<LogicalId, u64>>) are maps under sequential lock semantics (R8); AtomicU64::fetch_add returns the previous value and adds
//@trusted [sub] `entry.write_set().keys().copied().collect()` is replaced by write_keys(entry); the second loop `for logical_id in write_set { tuple_commits.insert(logical_id, TS) }` by stamp_all(tuple_commits, write_set, TS) with the same TS expression; the reference pattern `Some(&last_commit_ts)` by `Some(last_commit_ts)` over a by-value `get` (ref patterns are outside Verus)
pub struct TransactionMetadata { pub start: u64, pub ws: Ghost<Seq<LogicalId>> }
impl TransactionMetadata {
    pub fn start_ts(&self) -> (r: u64) ensures r == self.start { self.start }
}
#[verifier::external_body]
pub fn write_keys(e: &TransactionMetadata) -> (r: Vec<LogicalId>) ensures r@ == e.ws@ { unimplemented!() }

#[verifier::external_body]
pub struct TxTable { _p: () }
impl TxTable {
    pub uninterp spec fn view(&self) -> Map<u64, TransactionMetadata>;
    #[verifier::external_body]
    pub fn get(&self, k: &TransactionId) -> (r: Option<&TransactionMetadata>)
        ensures r is Some <==> self@.dom().contains(*k), r matches Some(e) ==> *e == self@[*k],
    { unimplemented!() }
}
pub struct SharedTxTable { inner: TxTable }
impl SharedTxTable {
    #[verifier::external_body]
    pub fn read(&self) -> (r: &TxTable) ensures *r == self.inner { unimplemented!() }
}

#[verifier::external_body]
pub struct CommitLog { _p: () }
impl CommitLog {
    pub uninterp spec fn view(&self) -> Map<LogicalId, u64>;
    #[verifier::external_body]
    pub fn get(&self, k: &LogicalId) -> (r: Option<u64>)
        ensures r is Some <==> self@.dom().contains(*k), r matches Some(v) ==> v == self@[*k],
    { unimplemented!() }
}
// stands for `for id in ids { log.insert(id, ts) }`
#[verifier::external_body]
pub fn stamp_all(log: &mut CommitLog, ids: Vec<LogicalId>, ts: u64)
    ensures
        forall|i: int| 0 <= i < ids@.len() ==> final(log)@.dom().contains(#[trigger] ids@[i]) && final(log)@[ids@[i]] == ts,
        forall|k: LogicalId| !ids@.contains(k) ==> (final(log)@.dom().contains(k) == old(log)@.dom().contains(k) && (old(log)@.dom().contains(k) ==> final(log)@[k] == old(log)@[k])),
{ unimplemented!() }
pub struct SharedCommitLog { inner: CommitLog }
impl SharedCommitLog {
    #[verifier::external_body]
    pub fn read(&self) -> (r: &CommitLog) ensures *r == self.inner { unimplemented!() }
    #[verifier::external_body]
    pub fn write(&mut self) -> (r: &mut CommitLog) ensures *r == old(self).inner, final(self).inner == *final(r) { unimplemented!() }
}
pub enum Ordering { SeqCst }
pub struct AtomicU64 { v: u64 }
impl AtomicU64 {
    #[verifier::external_body]
    pub fn fetch_add(&mut self, d: u64, o: Ordering) -> (r: u64)
        ensures r == old(self).v, final(self).v == old(self).v.wrapping_add(d),
    { unimplemented!() }
}

pub struct Validator { transactions: SharedTxTable, tuple_commits: SharedCommitLog, commit_counter: AtomicU64 }

pub open spec fn conflicts(log: Map<LogicalId, u64>, ws: Seq<LogicalId>, start: u64) -> bool {
    exists|i: int| 0 <= i < ws.len() && log.dom().contains(#[trigger] ws[i]) && log[ws[i]] >= start
}

impl Validator {
    pub closed spec fn commits(&self) -> Map<LogicalId, u64> { self.tuple_commits.inner@ }
    pub closed spec fn table(&self) -> Map<u64, TransactionMetadata> { self.transactions.inner@ }
    pub closed spec fn counter(&self) -> u64 { self.commit_counter.v }

    #[verifier::external_body]
    pub fn set_transaction_state(&mut self, txid: TransactionId, state: TransactionState) -> (r: TransactionResult<()>)
        ensures final(self).commits() == old(self).commits(), final(self).counter() == old(self).counter(),
            final(self).table().dom() == old(self).table().dom(),
            forall|k: u64| old(self).table().dom().contains(k) ==> final(self).table()[k].start == old(self).table()[k].start && final(self).table()[k].ws@ == old(self).table()[k].ws@,
    { unimplemented!() }

//@fn crates/axmos-db/src/multithreading/coordinator.rs | impl TransactionCoordinator | validate_write_set
//@ mutself
//@ sub /entry\.write_set\(\)\.keys\(\)\.copied\(\)\.collect\(\)/ => write_keys(entry)
//@ sub /for logical_id in write_set \{\s*tuple_commits\.insert\(logical_id, (\w+)\);\s*\}/ => stamp_all(tuple_commits, write_set, \1);
//@ sub /for logical_id in &write_set/ => for logical_id in it: &write_set
//@ sub /Some\(&last_commit_ts\)/ => Some(last_commit_ts)
//@ ensures
//@   [C04:validate.detects_conflict] (r is Ok && old(self).table().dom().contains(txid) && conflicts(old(self).commits(), old(self).table()[txid].ws@, old(self).table()[txid].start)) ==> r matches Ok(ValidationResult::Conflict(_)),
//@   [C04:validate.conflict_is_real] r matches Ok(ValidationResult::Conflict(id)) ==> (old(self).table().dom().contains(txid) && old(self).commits().dom().contains(id) && old(self).commits()[id] >= old(self).table()[txid].start && final(self).commits() == old(self).commits()),
//@   [C04:validate.stamps_commit_time] r matches Ok(ValidationResult::Allowed) ==> (old(self).table().dom().contains(txid) && (forall|i: int| 0 <= i < old(self).table()[txid].ws@.len() ==> final(self).commits().dom().contains(#[trigger] old(self).table()[txid].ws@[i]) && final(self).commits()[old(self).table()[txid].ws@[i]] == old(self).counter()) && final(self).counter() == old(self).counter().wrapping_add(1)),
//@   [C04:validate.frame] r matches Ok(ValidationResult::Allowed) ==> (forall|k: LogicalId| !old(self).table()[txid].ws@.contains(k) && old(self).commits().dom().contains(k) ==> final(self).commits().dom().contains(k) && final(self).commits()[k] == old(self).commits()[k]),
//@ loop 1
//@   invariant
//@     write_set@ == old(self).table()[txid].ws@,
//@     tuple_commits@ == old(self).commits(),
//@     self.commits() == old(self).commits() && self.counter() == old(self).counter(),
//@     old(self).table().dom().contains(txid),
//@     start_ts == old(self).table()[txid].start,
//@     forall|j: int| 0 <= j < it.index@ ==> !(tuple_commits@.dom().contains(#[trigger] write_set@[j]) && tuple_commits@[write_set@[j]] >= start_ts),
//@end
}

} // verus!
