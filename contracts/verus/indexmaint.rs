//@unit name=indexmaint props=C06,C07,C03
//@strip-pub
// Unit `indexmaint`: what DmlExecutor::maintain_secondary_indexes does to ONE secondary index for an
// INSERT, a DELETE and an UPDATE of a table row -- the three arms of its `match`, each checked as a
// function of the variables it reads (R11), against an abstract view of the index tree:
//   view: key -> (creator, deleter, row id) of the entry stored under that key (the key of an index
//   entry is the indexed column values; the row id is its payload; Btree::search_tuple / insert /
//   update find an entry by the key bytes of the tuple they are given).
//   C06 "every secondary index always agrees with its table": after the arm the index holds a live
//   entry (creator not rolled back, no delete mark) under the key of the row's NEW values -- the
//   row's own entry whenever the place was free, retired or left behind by a rolled-back
//   transaction -- and the entry under the key of its OLD values is retired by the writer, and no
//   other entry changes.
//   C07: the UNIQUE probe reads these entries; an entry that stays live for a value no row holds
//   makes it reject valid rows.  C03: the mark of a rolled-back deleter does not count.
//@trusted [env] Btree::{search_tuple, get_tuple_at_unchecked, insert, update, upsert, remove_tuple} at the contracts read off their bodies (insert fails on an existing key, update fails on a missing key, both find the entry by the key of the tuple they are given; units btsearch/btleftmost cover the search itself); TupleBuilder::build stamps the writer as creator and no deleter (Kani unit tuplelayout); Tuple::delete KEEPS an existing mark (Kani unit tuplelayout: tuple_delete), Tuple::clear_delete_mark removes it; Snapshot::is_transaction_aborted is membership in the aborted set
//@trusted [sub] `index_btree.with_cell_at(pos, |bytes| { parse_for_snapshot(bytes, &snapshot).ok()??; Tuple::from_slice_unchecked(bytes).ok()? ... })` (a closure with `?` on Option inside a generic callback) becomes the env call `index_btree.visible_tuple_at(pos, &tuple_reader, &snapshot)`: the stored tuple if the snapshot may see it, else None (the visibility rule itself: units visibility / versionchain); the writer's own transaction is not in its snapshot's aborted set; the second `let mut index_btree = self.ctx.build_tree_mut(index_root)` of the UPDATE arm (a second handle on the same tree) is dropped; Option::{is_some_and, is_none_or} at assumed std specifications (the closure's own contract)
//@trusted [pre] the dropped prefix of the function: tid = self.ctx.tid(), snapshot = self.ctx.snapshot() (the writer's own), index_btree is the tree of `index`; the loop over the indexes and the "is this index affected" test in front of the arms are outside (see the known finding: that test compares value indexes with column indexes)
use vstd::prelude::*;

verus! {

// std specifications vstd does not carry (sound: they say what the std functions do)
pub assume_specification<T, F: FnOnce(T) -> bool>[ Option::<T>::is_none_or ](o: Option<T>, f: F) -> (r: bool)
    requires o matches Some(v) ==> f.requires((v,)),
    ensures o is None ==> r, o matches Some(v) ==> f.ensures((v,), r);
pub assume_specification<T, F: FnOnce(T) -> bool>[ Option::<T>::is_some_and ](o: Option<T>, f: F) -> (r: bool)
    requires o matches Some(v) ==> f.requires((v,)),
    ensures o is None ==> !r, o matches Some(v) ==> f.ensures((v,), r);


pub struct RuntimeError { pub code: u8 }
pub type RuntimeResult<T> = Result<T, RuntimeError>;
pub type TransactionId = u64;
pub type RowId = u64;
pub type PageId = u64;

#[verifier::external_body]
pub struct DataType { _p: () }
#[verifier::external_body]
pub struct Schema { _p: () }
#[verifier::external_body]
pub struct IndexHandle { _p: () }
#[verifier::external_body]
pub struct Assignments { _p: () }
#[verifier::external_body]
pub struct IndexAssignments { _p: () }
#[derive(Clone, Copy)]
pub struct BtreePagePosition { pub page: u64, pub slot: u16 }
pub enum SearchResult { Found(BtreePagePosition), NotFound(BtreePagePosition) }

pub struct Entry { pub creator: u64, pub deleter: Option<u64>, pub rid: u64 }

// the key bytes of the index entry for a table row: the indexed columns (the row id is the payload)
pub uninterp spec fn entry_key(values: Seq<DataType>, index: &IndexHandle) -> int;
pub uninterp spec fn row_key(index_row: Seq<DataType>) -> int;
pub uninterp spec fn row_rid(index_row: Seq<DataType>) -> u64;

#[verifier::external_body]
pub struct Snapshot { _p: () }
impl Snapshot {
    pub uninterp spec fn aborted(&self) -> Set<u64>;
    pub uninterp spec fn me(&self) -> u64;
    pub uninterp spec fn sees(&self, e: Entry) -> bool;
    #[verifier::external_body]
    pub fn is_transaction_aborted(&self, xid: TransactionId) -> (r: bool) ensures r == self.aborted().contains(xid) { unimplemented!() }
    #[verifier::external_body]
    pub fn xid(&self) -> (r: TransactionId) ensures r == self.me() { unimplemented!() }
    pub uninterp spec fn committed_before(&self, x: u64) -> bool;
    #[verifier::external_body]
    pub fn is_committed_before_snapshot(&self, txid: TransactionId) -> (r: bool)
        ensures r == self.committed_before(txid), r ==> !self.aborted().contains(txid) { unimplemented!() }
}

#[verifier::external_body]
pub struct Tuple { _p: () }
impl Tuple {
    pub uninterp spec fn key(&self) -> int;
    pub uninterp spec fn creator(&self) -> u64;
    pub uninterp spec fn deleter(&self) -> Option<u64>;
    pub uninterp spec fn rid(&self) -> u64;
    pub open spec fn entry(&self) -> Entry { Entry { creator: self.creator(), deleter: self.deleter(), rid: self.rid() } }
    #[verifier::external_body]
    pub fn xmin(&self) -> (r: TransactionId) ensures r == self.creator() { unimplemented!() }
    #[verifier::external_body]
    pub fn xmax(&self) -> (r: Option<TransactionId>) ensures r == self.deleter() { unimplemented!() }
    #[verifier::external_body]
    pub fn is_deleted(&self) -> (r: bool) ensures r == (self.deleter() is Some) { unimplemented!() }
    #[verifier::external_body]
    pub fn clear_delete_mark(&mut self) -> (r: RuntimeResult<()>)
        ensures final(self).key() == old(self).key(), final(self).creator() == old(self).creator(), final(self).rid() == old(self).rid(),
            r is Ok ==> final(self).deleter() is None,
            r is Err ==> final(self).deleter() == old(self).deleter() { unimplemented!() }
    // Tuple::delete: an existing mark is KEPT
    #[verifier::external_body]
    pub fn delete(&mut self, xid: TransactionId) -> (r: RuntimeResult<()>)
        ensures final(self).key() == old(self).key(), final(self).creator() == old(self).creator(), final(self).rid() == old(self).rid(),
            final(self).deleter() == (if old(self).deleter() is Some { old(self).deleter() } else { Some(xid) }) { unimplemented!() }
    // Tuple::add_version_with on an index entry: rewrites columns in place -- the key bytes change
    pub uninterp spec fn rekeyed(k: int, a: &IndexAssignments) -> int;
    #[verifier::external_body]
    pub fn add_version_with(&mut self, a: &IndexAssignments, xid: TransactionId, schema: &Schema) -> (r: RuntimeResult<()>)
        ensures final(self).creator() == old(self).creator(), final(self).deleter() == old(self).deleter(), final(self).rid() == old(self).rid(),
            r is Ok ==> final(self).key() == Self::rekeyed(old(self).key(), a),
            r is Err ==> final(self).key() == old(self).key() { unimplemented!() }
}

#[verifier::external_body]
pub struct TupleBuilder { _p: () }
impl TupleBuilder {
    #[verifier::external_body]
    pub fn from_schema(schema: &Schema) -> TupleBuilder { unimplemented!() }
    #[verifier::external_body]
    pub fn build(&self, row: &Vec<DataType>, tid: TransactionId) -> (r: RuntimeResult<Tuple>)
        ensures r matches Ok(t) ==> t.key() == row_key(row@) && t.rid() == row_rid(row@) && t.creator() == tid && t.deleter() is None { unimplemented!() }
}
#[verifier::external_body]
pub struct TupleReader { _p: () }
impl TupleReader {
    #[verifier::external_body]
    pub fn from_schema(schema: &Schema) -> TupleReader { unimplemented!() }
}

#[verifier::external_body]
pub struct IndexTree { _p: () }
impl IndexTree {
    pub uninterp spec fn view(&self) -> Map<int, Entry>;
    pub uninterp spec fn at(&self, pos: BtreePagePosition) -> int;      // key of the entry stored at a position
    #[verifier::external_body]
    pub fn search_tuple(&mut self, entry: &Tuple, schema: &Schema) -> (r: RuntimeResult<SearchResult>)
        ensures final(self).view() == old(self).view(),
            r matches Ok(SearchResult::Found(p)) ==> final(self).view().contains_key(entry.key()) && final(self).at(p) == entry.key(),
            r matches Ok(SearchResult::NotFound(_)) ==> !final(self).view().contains_key(entry.key()) { unimplemented!() }
    #[verifier::external_body]
    pub fn get_tuple_at_unchecked(&mut self, pos: BtreePagePosition, schema: &Schema) -> (r: RuntimeResult<Tuple>)
        requires old(self).view().contains_key(old(self).at(pos)),
        ensures final(self).view() == old(self).view(), final(self).at(pos) == old(self).at(pos),
            r matches Ok(t) ==> t.key() == old(self).at(pos) && t.entry() == old(self).view()[old(self).at(pos)] { unimplemented!() }
    // with_cell_at(pos, |bytes| parse_for_snapshot(bytes, snapshot) ... from_slice_unchecked(bytes))
    #[verifier::external_body]
    pub fn visible_tuple_at(&mut self, pos: BtreePagePosition, reader: &TupleReader, snapshot: &Snapshot) -> (r: RuntimeResult<Option<Tuple>>)
        requires old(self).view().contains_key(old(self).at(pos)),
        ensures final(self).view() == old(self).view(), final(self).at(pos) == old(self).at(pos),
            r matches Ok(Some(t)) ==> t.key() == old(self).at(pos) && t.entry() == old(self).view()[old(self).at(pos)] && snapshot.sees(t.entry()),
            r matches Ok(None) ==> !snapshot.sees(old(self).view()[old(self).at(pos)]) { unimplemented!() }
    // Btree::insert: "Returns an error if the key already exists"
    #[verifier::external_body]
    pub fn insert(&mut self, page_id: PageId, data: Tuple, schema: &Schema) -> (r: RuntimeResult<()>)
        ensures r is Ok ==> !old(self).view().contains_key(data.key()) && final(self).view() == old(self).view().insert(data.key(), data.entry()),
            r is Err ==> final(self).view() == old(self).view() { unimplemented!() }
    // Btree::remove_tuple: physically removes the entry found under the tuple's key (error if missing)
    #[verifier::external_body]
    pub fn remove_tuple(&mut self, page_id: PageId, tuple: &Tuple, schema: &Schema) -> (r: RuntimeResult<()>)
        ensures r is Ok ==> old(self).view().contains_key(tuple.key()) && final(self).view() == old(self).view().remove(tuple.key()),
            r is Err ==> final(self).view() == old(self).view() { unimplemented!() }
    // Btree::upsert: insert, or replace the entry found under the key
    #[verifier::external_body]
    pub fn upsert(&mut self, page_id: PageId, data: Tuple, schema: &Schema) -> (r: RuntimeResult<()>)
        ensures r is Ok ==> final(self).view() == old(self).view().insert(data.key(), data.entry()),
            r is Err ==> final(self).view() == old(self).view() { unimplemented!() }
    // Btree::update: "Returns an error if the key is not found"
    #[verifier::external_body]
    pub fn update(&mut self, page_id: PageId, data: Tuple, schema: &Schema) -> (r: RuntimeResult<()>)
        ensures r is Ok ==> old(self).view().contains_key(data.key()) && final(self).view() == old(self).view().insert(data.key(), data.entry()),
            r is Err ==> final(self).view() == old(self).view() { unimplemented!() }
}

#[verifier::external_body]
pub struct ThreadContext { _p: () }
impl ThreadContext {
    pub uninterp spec fn writer(&self) -> u64;
    #[verifier::external_body]
    pub fn tid(&self) -> (r: TransactionId) ensures r == self.writer() { unimplemented!() }
}

pub struct DmlExecutor { pub ctx: ThreadContext }

// nothing but the entry under key k changed
pub open spec fn only(after: Map<int, Entry>, before: Map<int, Entry>, k: int) -> bool {
    forall|j: int| j != k ==> (after.contains_key(j) == before.contains_key(j) && (before.contains_key(j) ==> #[trigger] after[j] == before[j]))
}
pub open spec fn only2(after: Map<int, Entry>, before: Map<int, Entry>, k1: int, k2: int) -> bool {
    forall|j: int| j != k1 && j != k2 ==> (after.contains_key(j) == before.contains_key(j) && (before.contains_key(j) ==> #[trigger] after[j] == before[j]))
}
// an entry every later reader sees: its creator did not roll back and nobody marked it
pub open spec fn live(snap: &Snapshot, e: Entry) -> bool { !snap.aborted().contains(e.creator) && e.deleter is None }
// the place under a key is free for the row: no entry, a retired one, or one a rolled-back transaction left
pub open spec fn free_place(snap: &Snapshot, m: Map<int, Entry>, k: int) -> bool {
    !m.contains_key(k) || m[k].deleter is Some || snap.aborted().contains(m[k].creator)
}
// an entry the writer may retire: it sees it, and nobody but a rolled-back transaction marked it
pub open spec fn retirable(snap: &Snapshot, m: Map<int, Entry>, k: int) -> bool {
    m.contains_key(k) && snap.sees(m[k]) && (m[k].deleter matches Some(d) ==> snap.aborted().contains(d))
}

impl DmlExecutor {
    #[verifier::external_body]
    pub fn build_index_entry(values: &Vec<DataType>, index: &IndexHandle, index_schema: &Schema, row_id: RowId) -> (r: RuntimeResult<Vec<DataType>>)
        ensures r matches Ok(row) ==> row_key(row@) == entry_key(values@, index) && row_rid(row@) == row_id { unimplemented!() }
    #[verifier::external_body]
    pub fn build_index_assignments(&self, old_values: &Vec<DataType>, assignments: &Assignments, index: &IndexHandle, index_schema: &Schema) -> (r: RuntimeResult<IndexAssignments>) { unimplemented!() }

//@fn crates/axmos-db/src/runtime/dml.rs | impl DmlExecutor | maintain_secondary_indexes
//@ arm /\(None, Some\(values\), None\) => \{/ => fn index_insert_arm(&self, values: &Vec<DataType>, index: &IndexHandle, index_schema: &Schema, index_root: PageId, row_id: RowId, tid: TransactionId, snapshot: &Snapshot, index_btree: &mut IndexTree) -> RuntimeResult<()>
//@ arm-tail Ok(())
//@ requires
//@   tid == self.ctx.writer(),
//@   !snapshot.aborted().contains(tid),
//@ ensures
//@   [C06,C07,C03:index.insert_leaves_a_live_entry_under_the_row_key] r is Ok ==> final(index_btree).view().contains_key(entry_key(values@, index)) && live(snapshot, final(index_btree).view()[entry_key(values@, index)]),
//@   [C06:index.insert_touches_no_other_entry] only(final(index_btree).view(), old(index_btree).view(), entry_key(values@, index)),
//@   [C06,C07,C03:index.insert_takes_a_free_place_for_the_row] r is Ok && free_place(snapshot, old(index_btree).view(), entry_key(values@, index)) ==> final(index_btree).view()[entry_key(values@, index)].creator == tid && final(index_btree).view()[entry_key(values@, index)].rid == row_id,
//@   [C06:index.insert_keeps_a_live_entry] r is Ok && !free_place(snapshot, old(index_btree).view(), entry_key(values@, index)) ==> final(index_btree).view() == old(index_btree).view(),
//@end

//@fn crates/axmos-db/src/runtime/dml.rs | impl DmlExecutor | maintain_secondary_indexes
//@ arm /\(Some\(values\), None, None\) => \{/ => fn index_delete_arm(&self, values: &Vec<DataType>, index: &IndexHandle, index_schema: &Schema, index_root: PageId, row_id: RowId, tid: TransactionId, snapshot: &Snapshot, index_btree: &mut IndexTree) -> RuntimeResult<()>
//@ arm-tail Ok(())
//@ sub /index_btree\.with_cell_at\((\w+), \|bytes\| \{\s*tuple_reader\.parse_for_snapshot\(bytes, &snapshot\)\.ok\(\)\?\?;\s*let tuple = Tuple::from_slice_unchecked\(bytes\)\.ok\(\)\?;\s*Some\(tuple\)\s*\}\)/ => index_btree.visible_tuple_at(\1, &tuple_reader, &snapshot)
//@ requires
//@   tid == self.ctx.writer(),
//@ ensures
//@   [C06,C07,C03:index.delete_retires_the_entry_for_the_writer] r is Ok && retirable(snapshot, old(index_btree).view(), entry_key(values@, index)) ==> final(index_btree).view().contains_key(entry_key(values@, index)) && final(index_btree).view()[entry_key(values@, index)].deleter == Some(tid),
//@   [C06:index.delete_keeps_the_creator] old(index_btree).view().contains_key(entry_key(values@, index)) ==> final(index_btree).view().contains_key(entry_key(values@, index)) && final(index_btree).view()[entry_key(values@, index)].creator == old(index_btree).view()[entry_key(values@, index)].creator,
//@   [C06:index.delete_touches_no_other_entry] only(final(index_btree).view(), old(index_btree).view(), entry_key(values@, index)),
//@   [C06:index.delete_leaves_an_entry_it_may_not_see] !old(index_btree).view().contains_key(entry_key(values@, index)) || !snapshot.sees(old(index_btree).view()[entry_key(values@, index)]) ==> final(index_btree).view() == old(index_btree).view(),
//@end

//@fn crates/axmos-db/src/runtime/dml.rs | impl DmlExecutor | maintain_secondary_indexes
//@ arm /\(Some\(old_values\), Some\(new_values\), Some\(\w+\)\) => \{/ => fn index_update_arm(&self, old_values: &Vec<DataType>, new_values: &Vec<DataType>, assignments: &Assignments, index: &IndexHandle, index_schema: &Schema, index_root: PageId, row_id: RowId, tid: TransactionId, snapshot: &Snapshot, index_btree: &mut IndexTree) -> RuntimeResult<()>
//@ arm-tail Ok(())
//@ sub /index_btree\.with_cell_at\((\w+), \|bytes\| \{\s*tuple_reader\.parse_for_snapshot\(bytes, &snapshot\)\.ok\(\)\?\?;\s*let tuple = Tuple::from_slice_unchecked\(bytes\)\.ok\(\)\?;\s*Some\(tuple\)\s*\}\)/ => index_btree.visible_tuple_at(\1, &tuple_reader, &snapshot)
//@ sub? /let mut index_btree = self\.ctx\.build_tree_mut\(index_root\);/ =>
//@ requires
//@   tid == self.ctx.writer(),
//@   snapshot.me() == tid,
//@   !snapshot.aborted().contains(tid),
//@ ensures
//@   [C06,C07:index.update_retires_the_entry_of_the_old_values] r is Ok && retirable(snapshot, old(index_btree).view(), entry_key(old_values@, index)) && entry_key(old_values@, index) != entry_key(new_values@, index) ==> final(index_btree).view().contains_key(entry_key(old_values@, index)) && final(index_btree).view()[entry_key(old_values@, index)].deleter == Some(tid),
//@   [C06,C07:index.update_leaves_a_live_entry_under_the_new_values] r is Ok ==> final(index_btree).view().contains_key(entry_key(new_values@, index)) && live(snapshot, final(index_btree).view()[entry_key(new_values@, index)]),
//@   [C06:index.update_touches_no_other_entry] only2(final(index_btree).view(), old(index_btree).view(), entry_key(old_values@, index), entry_key(new_values@, index)),
//@end
}

} // verus!
