//@unit name=walopen props=C08,C17
//@strip-pub
// Unit `walopen`: WriteAheadLog::open -- what Database::open finds in the log file after a crash.
//   C08 "the database opens after a crash at ANY point" / C17 "reading the log back yields exactly the
//   records appended": the log file is created empty and gets its header block with the first force
//   (the first COMMIT). A file of length zero therefore is a legal state -- the log with no record --
//   and open must not try to read a header from it (read_exact fails on a short file: before fix
//   6532a1a a database that crashed before its first commit could never be opened again).
//   Obligations: a header is read only from a file that is not empty; an empty file yields the fresh
//   log (fresh header, no current block, nothing queued) after block zero has been written to it.
//@trusted [env] DBFile::{open, metadata().len() (as byte_len), seek, read_exact} over an abstract file length; FileSystem::block_size; BlockZero::{alloc (a fresh header), new (an uninitialised buffer), as_mut, metadata}; WriteAheadLog::perform_flush (unit wal: flush.*); usize::next_multiple_of as `round_up`
//@trusted [sub] `path: impl AsRef<Path>` is `path: &PathArg`; `file.metadata()?.len()` is `file.byte_len()?`; `WAL_BLOCK_SIZE.next_multiple_of(x)` is `round_up(WAL_BLOCK_SIZE, x)`; `Self { .. }` is `WriteAheadLog { .. }`
//@trusted [outside] a header block that is present but torn (the file is shorter than a block, or its contents are garbage)
use vstd::prelude::*;
use std::collections::VecDeque;

verus! {

pub struct IoError { pub code: u8 }
pub mod io {
    pub(crate) type Result<T> = core::result::Result<T, super::IoError>;
}
#[verifier::external_body]
pub struct PathArg { _p: () }
pub uninterp spec fn disk_len(p: &PathArg) -> nat;      // length of the file at that path when open is called

pub enum SeekFrom { Start(u64), End(i64), Current(i64) }

#[verifier::external_body]
pub struct DBFile { _p: () }
impl DBFile {
    pub uninterp spec fn len(&self) -> nat;
    #[verifier::external_body]
    pub fn open(path: &PathArg) -> (r: io::Result<DBFile>) ensures r matches Ok(f) ==> f.len() == disk_len(path) { unimplemented!() }
    #[verifier::external_body]
    pub fn byte_len(&self) -> (r: io::Result<u64>) ensures r matches Ok(n) ==> n == self.len() { unimplemented!() }
    #[verifier::external_body]
    pub fn seek(&mut self, pos: SeekFrom) -> (r: io::Result<u64>) ensures final(self).len() == old(self).len() { unimplemented!() }
    // fails with UnexpectedEof when the file is shorter than the buffer
    #[verifier::external_body]
    pub fn read_exact(&mut self, buf: &mut [u8]) -> (r: io::Result<()>)
        requires [C08,C17:open.a_header_is_read_only_from_a_file_that_is_not_empty] old(self).len() > 0,
        ensures final(self).len() == old(self).len() { unimplemented!() }
}
pub struct FileSystem { }
impl FileSystem {
    #[verifier::external_body]
    pub fn block_size(path: &PathArg) -> io::Result<usize> { unimplemented!() }
}
pub const WAL_BLOCK_SIZE: usize = 40960;
#[verifier::external_body]
pub fn round_up(a: usize, b: usize) -> usize { unimplemented!() }

pub struct WalHeader { pub block_size: u32 }
pub struct BlockZeroMeta { pub wal_header: WalHeader }
#[verifier::external_body]
pub struct BlockZero { _p: () }
impl BlockZero {
    pub uninterp spec fn fresh(&self) -> bool;      // the header of a log with no record
    #[verifier::external_body]
    pub fn alloc(id: u64, size: usize) -> (r: BlockZero) ensures r.fresh() { unimplemented!() }
    #[verifier::external_body]
    pub fn new(size: usize) -> BlockZero { unimplemented!() }
    #[verifier::external_body]
    pub fn as_mut(&mut self) -> &mut [u8] { unimplemented!() }
    #[verifier::external_body]
    pub fn metadata(&self) -> &BlockZeroMeta { unimplemented!() }
}
#[verifier::external_body]
pub struct WalBlock { _p: () }

pub struct WriteAheadLog {
    pub header: BlockZero,
    pub current_block: Option<WalBlock>,
    pub flush_queue: VecDeque<WalBlock>,
    pub file: DBFile,
    pub block_size: usize,
}
impl WriteAheadLog {
    // unit wal: flush.* -- with nothing appended a force writes block zero and changes nothing in memory
    #[verifier::external_body]
    pub fn perform_flush(&mut self) -> (r: io::Result<()>)
        ensures final(self).header == old(self).header, final(self).current_block == old(self).current_block, final(self).flush_queue == old(self).flush_queue, final(self).block_size == old(self).block_size,
            r is Ok ==> final(self).file.len() > 0,
    { unimplemented!() }

//@fn crates/axmos-db/src/io/wal.rs | impl FileOperations for WriteAheadLog | open
//@ sub /path: impl AsRef<Path>/ => path: &PathArg
//@ sub /DBFile::open\(&path\)/ => DBFile::open(path)
//@ sub /FileSystem::block_size\(&path\)/ => FileSystem::block_size(path)
//@ sub /WAL_BLOCK_SIZE\.next_multiple_of\(fs_block_size\)/ => round_up(WAL_BLOCK_SIZE, fs_block_size)
//@ sub? /file\.metadata\(\)\?\.len\(\)/ => file.byte_len()?
//@ sub? /let mut wal = Self \{/ => let mut wal = WriteAheadLog {
//@ sub /Ok\(Self \{/ => Ok(WriteAheadLog {
//@ ensures
//@   [C08,C17:open.an_empty_file_is_the_log_with_no_record] disk_len(path) == 0 ==> (r matches Ok(w) ==> w.header.fresh() && w.current_block is None && w.flush_queue@.len() == 0 && w.file.len() > 0),
//@end
}

} // verus!
