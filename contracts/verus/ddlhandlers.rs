//@unit name=ddlhandlers props=C08,C01
//@strip-pub
// Unit `ddlhandlers`: the handlers of recovery for logged CREATE / DROP (what they hand to the DDL
// executor; what the executor does with it is outside).
//   C08/C01 "the database opens after a crash and committed work is there":
//   * redo of a CREATE gives the object the id it was CREATED with. Every later record of the log
//     names the object by that id; the catalog's counter in the recovered state is that of the last
//     checkpoint, and ids handed out since by transactions that are not redone (a rolled-back CREATE)
//     shifted everything after them -- "Table not found" failed the recovery for ever (fix f0cf2a9).
//   * undo is repeatable: the inverse of a CREATE is a DROP ... IF EXISTS of that very object (the
//     object is normally NOT there: NO-STEAL), and the undo of a DROP is nothing (a loser's drop
//     never removed the object from the file; re-creating it before the redo of its own CREATE
//     collided with it) (fix ebb7d7c).
//@trusted [env] DdlExecutor::execute_instruction records what it is asked to do in a ghost trace: a CREATE takes the catalog counter's current value as the object's id (Catalog::get_next_object_id: read and increment), a DROP carries its target id and its IF EXISTS flag; CreateTableInstr / CreateIndexInstr::{from_bytes, inverse} (inverse names the given id, IF EXISTS false); the counter accessors of the pager header
//@trusted [sub] `self.dml_executor.ctx().pager().write()` (exclusive lock on the shared pager, whose header holds the counter the DDL executor reads) is `self.ddl_executor.counter_mut()` (R8); `.expect("..")` is `.unwrap()` (CREATE records always carry the object id: requires)
use vstd::prelude::*;

verus! {

pub struct RtError { pub code: u8 }
pub type RuntimeResult<T> = Result<T, RtError>;
type ObjectId = u64;

pub struct Counter { pub v: u64 }
impl Counter {
    pub fn get_last_stored_object(&self) -> (r: ObjectId) ensures r == self.v { self.v }
    pub fn set_last_stored_object(&mut self, oid: ObjectId) ensures final(self).v == oid { self.v = oid; }
}

pub struct DropTableInstr { pub table_id: ObjectId, pub cascade: bool, pub if_exists: bool }
pub struct DropIndexInstr { pub index_id: ObjectId, pub if_exists: bool }
#[verifier::external_body]
pub struct CreateTableInstr { _p: () }
impl CreateTableInstr {
    #[verifier::external_body]
    pub fn from_bytes(b: &[u8]) -> Result<CreateTableInstr, ()> { unimplemented!() }
    #[verifier::external_body]
    pub fn inverse(&self, object_id: ObjectId) -> (r: DropTableInstr) ensures r.table_id == object_id, !r.if_exists { unimplemented!() }
}
#[verifier::external_body]
pub struct CreateIndexInstr { _p: () }
impl CreateIndexInstr {
    #[verifier::external_body]
    pub fn from_bytes(b: &[u8]) -> Result<CreateIndexInstr, ()> { unimplemented!() }
    #[verifier::external_body]
    pub fn inverse(&self, object_id: ObjectId) -> (r: DropIndexInstr) ensures r.index_id == object_id, !r.if_exists { unimplemented!() }
}
#[verifier::external_body]
pub struct OtherInstr { _p: () }
pub enum DdlInstruction { CreateTable(CreateTableInstr), CreateIndex(CreateIndexInstr), DropTable(DropTableInstr), DropIndex(DropIndexInstr), Other(OtherInstr) }
impl DdlInstruction {
    #[verifier::external_body]
    pub fn from_bytes(b: &[u8]) -> Result<DdlInstruction, ()> { unimplemented!() }
}
#[verifier::external_body]
pub struct DdlResult { _p: () }

pub enum Eff { Create(ObjectId), Drop(ObjectId, bool), Other }
pub open spec fn eff_of(i: &DdlInstruction, counter: u64) -> Eff {
    match *i {
        DdlInstruction::CreateTable(_) => Eff::Create(counter),
        DdlInstruction::CreateIndex(_) => Eff::Create(counter),
        DdlInstruction::DropTable(d) => Eff::Drop(d.table_id, d.if_exists),
        DdlInstruction::DropIndex(d) => Eff::Drop(d.index_id, d.if_exists),
        DdlInstruction::Other(_) => Eff::Other,
    }
}
pub struct DdlExecutor { counter: Counter, trace: Ghost<Seq<Eff>> }
impl DdlExecutor {
    pub closed spec fn asked(&self) -> Seq<Eff> { self.trace@ }
    pub closed spec fn next_id(&self) -> u64 { self.counter.v }
    #[verifier::external_body]
    pub fn counter_mut(&mut self) -> (r: &mut Counter)
        ensures *r == old(self).counter, final(self).counter == *final(r), final(self).trace == old(self).trace { unimplemented!() }
    #[verifier::external_body]
    pub fn execute_instruction(&mut self, instr: &DdlInstruction) -> (r: RuntimeResult<DdlResult>)
        ensures r is Ok ==> final(self).trace@ == old(self).trace@.push(eff_of(instr, old(self).counter.v)), r is Err ==> final(self).trace@ == old(self).trace@ { unimplemented!() }
}

#[verifier::external_body]
pub struct Create { _p: () }
impl Create {
    pub uninterp spec fn rid(&self) -> Option<u64>;
    #[verifier::external_body] pub fn row_id(&self) -> (r: Option<u64>) ensures r == self.rid() { unimplemented!() }
    #[verifier::external_body] pub fn redo(&self) -> &[u8] { unimplemented!() }
}
#[verifier::external_body]
pub struct DropOp { _p: () }
impl DropOp {
    #[verifier::external_body] pub fn row_id(&self) -> Option<u64> { unimplemented!() }
    #[verifier::external_body] pub fn undo(&self) -> &[u8] { unimplemented!() }
    #[verifier::external_body] pub fn redo(&self) -> &[u8] { unimplemented!() }
}

pub open spec fn creates_only(s: Seq<Eff>, from: int, id: u64) -> bool { forall|k: int| from <= k < s.len() ==> ((#[trigger] s[k]) matches Eff::Create(x) ==> x == id) }
pub open spec fn drops_only_if_exists(s: Seq<Eff>, from: int, id: u64) -> bool { forall|k: int| from <= k < s.len() ==> ((#[trigger] s[k]) matches Eff::Drop(x, e) ==> x == id && e) && !(s[k] is Create) }

pub struct WalRecuperator { ddl_executor: DdlExecutor }
impl WalRecuperator {
    pub closed spec fn asked(&self) -> Seq<Eff> { self.ddl_executor.asked() }
    pub closed spec fn next_id(&self) -> u64 { self.ddl_executor.next_id() }

//@fn crates/axmos-db/src/io/recovery.rs | impl WalRecuperator | redo_create
//@ sub? /self\.dml_executor\.ctx\(\)\.pager\(\)\.write\(\)/ => self.ddl_executor.counter_mut()
//@ ensures
//@   [C08,C01:redo.create_gives_the_object_its_logged_id] create_op.rid() is Some && old(self).next_id() <= create_op.rid()->0 ==> creates_only(final(self).asked(), old(self).asked().len() as int, create_op.rid()->0),
//@   [C08,C01:redo.create_keeps_what_was_asked_before] final(self).asked().len() >= old(self).asked().len() && final(self).asked().subrange(0, old(self).asked().len() as int) == old(self).asked(),
//@end

//@fn crates/axmos-db/src/io/recovery.rs | impl WalRecuperator | undo_create
//@ sub /\.expect\("[^"]*"\)/ => .unwrap()
//@ requires
//@   create_op.rid() is Some,
//@ ensures
//@   [C08:undo.create_is_a_drop_if_exists_of_that_object] drops_only_if_exists(final(self).asked(), old(self).asked().len() as int, create_op.rid()->0),
//@   [C08:undo.create_keeps_what_was_asked_before] final(self).asked().len() >= old(self).asked().len() && final(self).asked().subrange(0, old(self).asked().len() as int) == old(self).asked(),
//@end

//@fn crates/axmos-db/src/io/recovery.rs | impl WalRecuperator | undo_drop
//@ ensures
//@   [C08:undo.a_drop_is_nothing] r is Ok && final(self).asked() == old(self).asked(),
//@end
}

} // verus!
