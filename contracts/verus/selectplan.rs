//@unit name=selectplan props=C05
//@strip-pub
// Unit `selectplan`: Planner::build_select and Planner::apply_limit_offset -- how the clauses of one
// SELECT are stacked into a logical plan, against an abstract shape of the plan each memo group
// stands for.
//   C05 "results as SQL defines": WHERE filters the FROM rows before they are grouped; HAVING filters
//   the groups; the projection sees those rows; DISTINCT sees the projected rows; LIMIT / OFFSET cut
//   the final, de-duplicated and ordered stream -- i.e. with the Sort left out the plan is exactly
//   Limit(Distinct(Project(Filter_having(Aggregate(Filter_where(FROM)))))) with every optional
//   layer present iff its clause is. ORDER BY adds exactly one Sort, below the Limit; where that
//   Sort reads the output of an aggregation its keys are the ones rebound to that output (unit
//   orderbyagg), otherwise the keys as bound.  The position of the Sort relative to Project and
//   Distinct is left open (the engine sorts before it projects).
//@trusted [env] Planner::{build_table_ref, build_empty, build_filter, build_aggregate, build_sort, build_project, build_distinct, build_limit} each add ONE operator over their input group (shape of the result = that operator over the shape of the input; a group never is its own input); get_group_properties, has_aggregates are pure; rebind_order_by_to_output at the contract proved in unit orderbyagg; GroupId is checked as a plain index (its derived equality)
//@trusted [sub] in apply_limit_offset the two arms `(Some(l), _) => ..` and `(None, Some(o)) if .. => ..` are swapped (their patterns are disjoint, so the order does not matter; Verus loses the facts about `self` on the fall-through path of a guarded arm that follows an arm calling a `&mut self` method -- measured on a 20-line example)
//@trusted [outside] what the optimizer does with the logical plan afterwards (transformation / implementation rules: C06), the executors of each operator (units volcano, aggregates, scans, joins)
use vstd::prelude::*;

verus! {

pub struct PlannerError { pub code: u8 }
pub type PlannerResult<T> = Result<T, PlannerError>;
pub type GroupId = usize;

#[verifier::external_body]
pub struct Schema { _p: () }
#[verifier::external_body]
pub struct BoundTableRef { _p: () }
#[verifier::external_body]
pub struct BoundSelectItem { _p: () }
#[verifier::external_body]
pub struct BoundOrderBy { _p: () }
#[verifier::external_body]
pub struct BoundExpression { _p: () }
impl BoundExpression {
    pub uninterp spec fn id(&self) -> int;
    #[verifier::external_body]
    pub fn clone(&self) -> (r: BoundExpression) ensures r.id() == self.id() { unimplemented!() }
}
pub struct LogicalProperties { pub schema: Schema }

pub struct BoundSelect {
    pub distinct: bool,
    pub columns: Vec<BoundSelectItem>,
    pub from: Option<BoundTableRef>,
    pub where_clause: Option<BoundExpression>,
    pub group_by: Vec<BoundExpression>,
    pub having: Option<BoundExpression>,
    pub order_by: Vec<BoundOrderBy>,
    pub limit: Option<usize>,
    pub offset: Option<usize>,
    pub schema: Schema,
}

// the plan a memo group stands for
pub enum Plan {
    Source(int),
    Filter(Box<Plan>, int),
    Aggregate(Box<Plan>),
    Sort(Box<Plan>, Seq<BoundOrderBy>),
    Project(Box<Plan>),
    Distinct(Box<Plan>),
    Limit(Box<Plan>, usize, Option<usize>),
}

pub uninterp spec fn source_of(t: Option<BoundTableRef>) -> int;
pub uninterp spec fn agg_in(columns: Seq<BoundSelectItem>) -> bool;                 // some select item contains an aggregate
pub uninterp spec fn rebound(out: Seq<BoundOrderBy>, keys: Seq<BoundOrderBy>, columns: Seq<BoundSelectItem>) -> bool;

pub open spec fn strip_sort(p: Plan) -> Plan
    decreases p
{
    match p {
        Plan::Source(s) => Plan::Source(s),
        Plan::Filter(c, e) => Plan::Filter(Box::new(strip_sort(*c)), e),
        Plan::Aggregate(c) => Plan::Aggregate(Box::new(strip_sort(*c))),
        Plan::Sort(c, _) => strip_sort(*c),
        Plan::Project(c) => Plan::Project(Box::new(strip_sort(*c))),
        Plan::Distinct(c) => Plan::Distinct(Box::new(strip_sort(*c))),
        Plan::Limit(c, l, o) => Plan::Limit(Box::new(strip_sort(*c)), l, o),
    }
}
pub open spec fn sorts(p: Plan) -> nat
    decreases p
{
    match p {
        Plan::Source(_) => 0,
        Plan::Filter(c, _) => sorts(*c),
        Plan::Aggregate(c) => sorts(*c),
        Plan::Sort(c, _) => 1 + sorts(*c),
        Plan::Project(c) => sorts(*c),
        Plan::Distinct(c) => sorts(*c),
        Plan::Limit(c, _, _) => sorts(*c),
    }
}
// every Sort that reads straight from an aggregation (or from the HAVING filter over one) carries rebound keys; any other Sort the keys as bound
pub open spec fn sort_keys_ok(p: Plan, sel: &BoundSelect) -> bool
    decreases p
{
    match p {
        Plan::Source(_) => true,
        Plan::Filter(c, _) => sort_keys_ok(*c, sel),
        Plan::Aggregate(c) => sort_keys_ok(*c, sel),
        Plan::Sort(c, k) => sort_keys_ok(*c, sel) && (if over_aggregate(*c) { rebound(k, sel.order_by@, sel.columns@) } else { k == sel.order_by@ }),
        Plan::Project(c) => sort_keys_ok(*c, sel),
        Plan::Distinct(c) => sort_keys_ok(*c, sel),
        Plan::Limit(c, _, _) => sort_keys_ok(*c, sel),
    }
}
pub open spec fn over_aggregate(p: Plan) -> bool {
    p is Aggregate || (p matches Plan::Filter(c, _) && *c is Aggregate)
}
pub open spec fn no_sort_above_limit(p: Plan) -> bool {
    p matches Plan::Sort(c, _) ==> !(*c is Limit)
}

pub open spec fn is_agg(sel: &BoundSelect) -> bool { sel.group_by@.len() > 0 || agg_in(sel.columns@) }
// the clauses in SQL's order, Sort left out
pub open spec fn e0(sel: &BoundSelect) -> Plan { Plan::Source(source_of(sel.from)) }
pub open spec fn e1(sel: &BoundSelect) -> Plan { if sel.where_clause is Some { Plan::Filter(Box::new(e0(sel)), sel.where_clause->Some_0.id()) } else { e0(sel) } }
pub open spec fn e2(sel: &BoundSelect) -> Plan { if is_agg(sel) { Plan::Aggregate(Box::new(e1(sel))) } else { e1(sel) } }
pub open spec fn e3(sel: &BoundSelect) -> Plan { if sel.having is Some { Plan::Filter(Box::new(e2(sel)), sel.having->Some_0.id()) } else { e2(sel) } }
pub open spec fn e5(sel: &BoundSelect) -> Plan { if !agg_in(sel.columns@) { Plan::Project(Box::new(e3(sel))) } else { e3(sel) } }
pub open spec fn e6(sel: &BoundSelect) -> Plan { if sel.distinct { Plan::Distinct(Box::new(e5(sel))) } else { e5(sel) } }
pub open spec fn expected(sel: &BoundSelect) -> Plan {
    match (sel.limit, sel.offset) {
        (Some(l), o) => Plan::Limit(Box::new(e6(sel)), l, o),
        (None, Some(o)) => if o > 0 { Plan::Limit(Box::new(e6(sel)), usize::MAX, Some(o)) } else { e6(sel) },
        (None, None) => e6(sel),
    }
}
pub open spec fn n_sorts(sel: &BoundSelect) -> nat { if sel.order_by@.len() > 0 { 1nat } else { 0nat } }
// what is known about a group while the stack is being built: its plan without the Sort, how many Sorts it holds, their keys
pub open spec fn stage(p: Plan, sel: &BoundSelect, stripped: Plan, n: nat) -> bool {
    strip_sort(p) == stripped && sorts(p) == n && sort_keys_ok(p, sel) && !(p is Limit)
}

#[verifier::external_body]
pub struct Planner { _p: () }
impl Planner {
    pub uninterp spec fn shape(&self, g: GroupId) -> Plan;
    // every operator builder: one operator over the input; earlier groups keep their shape
    pub uninterp spec fn has(&self, g: GroupId) -> bool;
    pub open spec fn adds(&self, old_self: &Planner, g: GroupId, p: Plan) -> bool {
        &&& self.shape(g) == p
        &&& self.has(g)
        // every group known before keeps its shape (the memo may hand back a known group for an identical expression: then p is its shape already)
        &&& forall|x: GroupId| old_self.has(x) ==> #[trigger] self.has(x) && self.shape(x) == old_self.shape(x)
    }

    #[verifier::external_body]
    pub fn build_table_ref(&mut self, table_ref: &BoundTableRef) -> (r: PlannerResult<GroupId>)
        ensures r matches Ok(g) ==> final(self).adds(old(self), g, Plan::Source(source_of(Some(*table_ref)))) { unimplemented!() }
    #[verifier::external_body]
    pub fn build_empty(&mut self, schema: &Schema) -> (r: PlannerResult<GroupId>)
        ensures r matches Ok(g) ==> final(self).adds(old(self), g, Plan::Source(source_of(None))) { unimplemented!() }
    #[verifier::external_body]
    pub fn build_filter(&mut self, input: GroupId, predicate: BoundExpression) -> (r: PlannerResult<GroupId>)
        requires old(self).has(input),
        ensures r matches Ok(g) ==> g != input && final(self).adds(old(self), g, Plan::Filter(Box::new(old(self).shape(input)), predicate.id())) { unimplemented!() }
    #[verifier::external_body]
    pub fn build_aggregate(&mut self, input: GroupId, group_by: &Vec<BoundExpression>, columns: &Vec<BoundSelectItem>, output_schema: &Schema) -> (r: PlannerResult<GroupId>)
        requires old(self).has(input),
        ensures r matches Ok(g) ==> g != input && final(self).adds(old(self), g, Plan::Aggregate(Box::new(old(self).shape(input)))) { unimplemented!() }
    #[verifier::external_body]
    pub fn build_sort(&mut self, input: GroupId, order_by: &Vec<BoundOrderBy>, schema: &Schema) -> (r: PlannerResult<GroupId>)
        requires old(self).has(input),
        ensures r matches Ok(g) ==> g != input && final(self).adds(old(self), g, Plan::Sort(Box::new(old(self).shape(input)), order_by@)) { unimplemented!() }
    #[verifier::external_body]
    pub fn build_project(&mut self, input: GroupId, columns: &Vec<BoundSelectItem>, output_schema: &Schema) -> (r: PlannerResult<GroupId>)
        requires old(self).has(input),
        ensures r matches Ok(g) ==> g != input && final(self).adds(old(self), g, Plan::Project(Box::new(old(self).shape(input)))) { unimplemented!() }
    #[verifier::external_body]
    pub fn build_distinct(&mut self, input: GroupId, schema: &Schema) -> (r: PlannerResult<GroupId>)
        requires old(self).has(input),
        ensures r matches Ok(g) ==> g != input && final(self).adds(old(self), g, Plan::Distinct(Box::new(old(self).shape(input)))) { unimplemented!() }
    #[verifier::external_body]
    pub fn build_limit(&mut self, input: GroupId, limit: usize, offset: Option<usize>, schema: &Schema) -> (r: PlannerResult<GroupId>)
        requires old(self).has(input),
        ensures r matches Ok(g) ==> g != input && final(self).adds(old(self), g, Plan::Limit(Box::new(old(self).shape(input)), limit, offset)) { unimplemented!() }
    #[verifier::external_body]
    pub fn get_group_properties(&self, group_id: GroupId) -> (r: PlannerResult<LogicalProperties>) { unimplemented!() }
    #[verifier::external_body]
    pub fn has_aggregates(&self, columns: &Vec<BoundSelectItem>) -> (r: bool) ensures r == agg_in(columns@) { unimplemented!() }
    #[verifier::external_body]
    pub fn rebind_order_by_to_output(columns: &Vec<BoundSelectItem>, order_by: &Vec<BoundOrderBy>) -> (r: PlannerResult<Vec<BoundOrderBy>>)
        ensures r matches Ok(out) ==> rebound(out@, order_by@, columns@) { unimplemented!() }

//@fn crates/axmos-db/src/sql/planner/plan.rs | impl<'a> Planner<'a> | apply_limit_offset
//@ sub /(\(Some\(l\), _\) => [^\n]*\n)(\s*\(None, Some\(o\)\) if [^\n]*\n)/ => \2\1
//@ requires
//@   old(self).has(input),
//@ ensures
//@   [C05:select.limit_offset_cut_the_stream_they_are_given] r matches Ok(g) ==> final(self).has(g) && final(self).shape(g) == (match (limit, offset) { (Some(l), o) => Plan::Limit(Box::new(old(self).shape(input)), l, o), (None, Some(o)) => if o > 0 { Plan::Limit(Box::new(old(self).shape(input)), usize::MAX, Some(o)) } else { old(self).shape(input) }, (None, None) => old(self).shape(input) }),
//@end

//@fn crates/axmos-db/src/sql/planner/plan.rs | impl<'a> Planner<'a> | build_select
//@ ensures
//@   [C05:select.clauses_are_stacked_in_sql_order] r matches Ok(g) ==> strip_sort(final(self).shape(g)) == expected(select),
//@   [C05:select.order_by_adds_exactly_one_sort_below_the_limit] r matches Ok(g) ==> sorts(final(self).shape(g)) == n_sorts(select) && no_sort_above_limit(final(self).shape(g)),
//@   [C05:select.sort_over_an_aggregation_uses_keys_rebound_to_its_output] r matches Ok(g) ==> sort_keys_ok(final(self).shape(g), select),
//@ proof-after /None => self\.build_empty\(&select\.schema\)\?,\s*\};/
//@   assert(stage(self.shape(from_group), select, e0(select), 0));
//@ proof-after /None => from_group,\s*\};/
//@   assert(stage(self.shape(filtered), select, e1(select), 0));
//@ proof-before /let having_applied = /
//@   assert(stage(self.shape(aggregated), select, e2(select), 0));
//@   assert(aggregated != filtered <==> is_agg(select));
//@   assert(is_agg(select) ==> self.shape(aggregated) is Aggregate);
//@ proof-after /None => aggregated,\s*\};/
//@   assert(stage(self.shape(having_applied), select, e3(select), 0));
//@   assert(is_agg(select) ==> over_aggregate(self.shape(having_applied)));
//@   assert(!is_agg(select) ==> !over_aggregate(self.shape(having_applied)));
//@ proof-before /let projected = /
//@   assert(stage(self.shape(sorted), select, e3(select), n_sorts(select)));
//@ proof-after /let projected = [^;]*;/
//@   assert(stage(self.shape(projected), select, e5(select), n_sorts(select)));
//@   reveal_with_fuel(strip_sort, 3);
//@   reveal_with_fuel(sorts, 3);
//@   reveal_with_fuel(sort_keys_ok, 3);
//@end
}

} // verus!
