//@unit name=aggkeys props=C05
//@strip-pub
// Unit `aggkeys`: Planner::build_aggregate -- which group keys the aggregation is planned with and in
// which order. HashAggregate::bucket_to_row (unit aggoutput) puts the keys into the select positions
// that are not aggregates, in the order they are listed, so (C05):
//   every GROUP BY expression is among the planned keys and nothing else is (the grouping is the one
//   the statement asks for); the planned keys hold no expression twice; the selected keys come first,
//   in the order of the select list -- the k-th DIFFERENT key of the select list is planned key k;
//   a select item that is neither a GROUP BY key nor an aggregate call is refused (nothing evaluates
//   an expression above the aggregation).
//@trusted [env] `==` / Vec::contains on BoundExpression (derived PartialEq) is structural equality `same`, assumed symmetric and transitive (axioms same_is_symmetric / same_is_transitive); BoundExpression::clone yields an equal expression; Planner::{get_group_properties, collect_aggregates, insert_with_properties}, AggregateOp::new, LogicalOperator::Aggregate are abstract (the operator records the keys it was given)
//@trusted [sub] `xs.contains(&e)` -> `has_expr(xs, &e)`; the three `for .. in slice` headers become index loops over the same slices; `matches!(item.expr, BoundExpression::Aggregate { .. })` -> `item.expr.is_aggregate_call()`; the error message -> other_error(); `vec![input]` -> `one_child(input)`; `Vec::with_capacity(n)` -> `Vec::new()`
use vstd::prelude::*;

verus! {

pub struct PlannerError { pub code: u8 }
pub type PlannerResult<T> = Result<T, PlannerError>;
#[verifier::external_body]
pub fn other_error() -> PlannerError { unimplemented!() }
pub type GroupId = usize;

#[verifier::external_body]
pub struct Schema { _p: () }
impl Schema { #[verifier::external_body] pub fn clone(&self) -> Schema { unimplemented!() } }
pub struct LogicalProperties { pub schema: Schema }
#[verifier::external_body]
pub struct AggregateExpr { _p: () }

#[verifier::external_body]
pub struct BoundExpression { _p: () }
pub uninterp spec fn same(a: &BoundExpression, b: &BoundExpression) -> bool;
pub uninterp spec fn is_agg_call(e: &BoundExpression) -> bool;
// structural equality is an equivalence (environment axiom: the derived PartialEq of an expression tree)
#[verifier::external_body]
pub broadcast proof fn same_is_transitive(a: &BoundExpression, b: &BoundExpression, c: &BoundExpression)
    requires same(a, b), same(b, c),
    ensures #![trigger same(a, b), same(b, c)] same(a, c),
{ }
#[verifier::external_body]
pub broadcast proof fn same_is_symmetric(a: &BoundExpression, b: &BoundExpression)
    requires same(a, b),
    ensures #![trigger same(a, b)] same(b, a),
{ }
pub broadcast group group_same { same_is_transitive, same_is_symmetric }
impl BoundExpression {
    #[verifier::external_body]
    pub fn clone(&self) -> (r: BoundExpression) ensures same(&r, self), same(self, &r) { unimplemented!() }
    #[verifier::external_body]
    pub fn is_aggregate_call(&self) -> (r: bool) ensures r == is_agg_call(self) { unimplemented!() }
}
pub open spec fn among(xs: Seq<BoundExpression>, e: &BoundExpression) -> bool { exists|i: int| 0 <= i < xs.len() && same(&#[trigger] xs[i], e) }
#[verifier::external_body]
pub fn has_expr(xs: &Vec<BoundExpression>, e: &BoundExpression) -> (r: bool) ensures r == among(xs@, e) { unimplemented!() }

pub struct BoundSelectItem { pub expr: BoundExpression, pub output_idx: usize }

#[verifier::external_body]
pub struct AggregateOp { _p: () }
impl AggregateOp {
    pub uninterp spec fn keys(&self) -> Seq<BoundExpression>;
    #[verifier::external_body]
    pub fn new(group_by: Vec<BoundExpression>, aggregates: Vec<AggregateExpr>, input_schema: Schema, output_schema: Schema) -> (r: AggregateOp) ensures r.keys() == group_by@ { unimplemented!() }
}
pub enum LogicalOperator { Aggregate(AggregateOp), Other }
#[verifier::external_body]
pub struct Children { _p: () }
#[verifier::external_body]
pub fn one_child(g: GroupId) -> Children { unimplemented!() }

// no planned key twice
pub open spec fn distinct_keys(ks: Seq<BoundExpression>) -> bool { forall|i: int, j: int| 0 <= i < j < ks.len() ==> !same(&#[trigger] ks[i], &#[trigger] ks[j]) }
// the GROUP BY keys of the first n select items, each once, in select order
pub open spec fn first_keys(cols: Seq<BoundSelectItem>, n: int, group_by: Seq<BoundExpression>) -> Seq<BoundExpression>
    decreases n
{
    if n <= 0 { Seq::empty() } else {
        let prev = first_keys(cols, n - 1, group_by);
        if among(group_by, &cols[n - 1].expr) && !among(prev, &cols[n - 1].expr) { prev.push(cols[n - 1].expr) } else { prev }
    }
}
// ks starts with those keys (element by element the same expression)
pub open spec fn starts_with(ks: Seq<BoundExpression>, fk: Seq<BoundExpression>) -> bool {
    fk.len() <= ks.len() && forall|k: int| 0 <= k < fk.len() ==> same(&#[trigger] ks[k], &fk[k])
}


// the planned keys and the keys they stand for hold the same expressions
pub proof fn lemma_among_same(ks: Seq<BoundExpression>, fk: Seq<BoundExpression>, e: &BoundExpression)
    requires starts_with(ks, fk), ks.len() == fk.len(),
    ensures among(ks, e) == among(fk, e),
{
    broadcast use group_same;
    if among(ks, e) {
        let i = choose|i: int| 0 <= i < ks.len() && same(&#[trigger] ks[i], e);
        assert(same(&ks[i], &fk[i]));
        assert(same(&fk[i], &ks[i]));
        assert(same(&fk[i], e));
    }
    if among(fk, e) {
        let i = choose|i: int| 0 <= i < fk.len() && same(&#[trigger] fk[i], e);
        assert(same(&ks[i], &fk[i]));
        assert(same(&ks[i], e));
    }
}
// a clone is among the same lists as the original
pub proof fn lemma_among_clone(xs: Seq<BoundExpression>, e: &BoundExpression, e2: &BoundExpression)
    requires same(e2, e), same(e, e2),
    ensures among(xs, e) == among(xs, e2),
{
    broadcast use group_same;
    if among(xs, e) { let i = choose|i: int| 0 <= i < xs.len() && same(&#[trigger] xs[i], e); assert(same(&xs[i], e2)); }
    if among(xs, e2) { let i = choose|i: int| 0 <= i < xs.len() && same(&#[trigger] xs[i], e2); assert(same(&xs[i], e)); }
}

#[verifier::external_body]
pub struct Planner { _p: () }
impl Planner {
    pub uninterp spec fn last_keys(&self) -> Seq<BoundExpression>;        // the keys of the aggregation inserted last
    #[verifier::external_body]
    pub fn get_group_properties(&self, g: GroupId) -> (r: PlannerResult<LogicalProperties>) { unimplemented!() }
    #[verifier::external_body]
    pub fn collect_aggregates(&self, expr: &BoundExpression, output_idx: usize, aggregates: &mut Vec<AggregateExpr>) { unimplemented!() }
    #[verifier::external_body]
    pub fn insert_with_properties(&mut self, op: LogicalOperator, children: Children) -> (r: PlannerResult<GroupId>)
        ensures r is Ok ==> (op matches LogicalOperator::Aggregate(a) ==> final(self).last_keys() == a.keys()) { unimplemented!() }

//@fn crates/axmos-db/src/sql/planner/plan.rs | impl<'a> Planner<'a> | build_aggregate
//@ use-lemmas group_same
//@ sub /for \(idx, item\) in columns\.iter\(\)\.enumerate\(\) \{/ => for idx in 0..columns.len() { let item = &columns[idx];
//@ sub /for item in columns \{/ => for axv_c in 0..columns.len() { let item = &columns[axv_c];
//@ sub? /for key in group_by \{/ => for axv_g in 0..group_by.len() { let key = &group_by[axv_g];
//@ sub /group_by\.contains\(&item\.expr\)/ => has_expr(group_by, &item.expr)
//@ sub /ordered_keys\.contains\(&item\.expr\)/ => has_expr(&ordered_keys, &item.expr)
//@ sub? /ordered_keys\.contains\(key\)/ => has_expr(&ordered_keys, key)
//@ sub? /matches!\(item\.expr, BoundExpression::Aggregate \{ \.\. \}\)/ => item.expr.is_aggregate_call()
//@ sub? /PlannerError::Other\(\s*"[^"]*"\s*\.to_string\(\),?\s*\)/ => other_error()
//@ sub /vec!\[input\]/ => one_child(input)
//@ sub /Vec::with_capacity\(group_by\.len\(\)\)/ => Vec::new()
//@ sub /group_by: &\[BoundExpression\]/ => group_by: &Vec<BoundExpression>
//@ sub /columns: &\[BoundSelectItem\]/ => columns: &Vec<BoundSelectItem>
//@ ensures
//@   [C05:aggkeys.the_planned_keys_are_exactly_the_group_by_expressions] r is Ok ==> (forall|i: int| 0 <= i < group_by@.len() ==> among(final(self).last_keys(), &#[trigger] group_by@[i])) && (forall|k: int| 0 <= k < final(self).last_keys().len() ==> among(group_by@, &#[trigger] final(self).last_keys()[k])),
//@   [C05:aggkeys.no_key_is_planned_twice] r is Ok ==> distinct_keys(final(self).last_keys()),
//@   [C05:aggkeys.the_selected_keys_come_first_in_select_order] r is Ok ==> starts_with(final(self).last_keys(), first_keys(columns@, columns@.len() as int, group_by@)),
//@   [C05:aggkeys.a_select_item_that_is_neither_key_nor_aggregate_is_refused] r is Ok ==> (forall|c: int| 0 <= c < columns@.len() ==> among(group_by@, &(#[trigger] columns@[c]).expr) || is_agg_call(&columns@[c].expr)),
//@ proof-after /let item = &columns\[axv_c\];/
//@   reveal_with_fuel(first_keys, 2);
//@   lemma_among_same(ordered_keys@, first_keys(columns@, axv_c as int, group_by@), &item.expr);
//@ ghost-before /ordered_keys\.push\(item\.expr\.clone\(\)\);/
//@   let ghost ok0 = ordered_keys@;
//@ proof-after /ordered_keys\.push\(item\.expr\.clone\(\)\);/
//@   let e2 = ordered_keys@[ordered_keys@.len() - 1];
//@   assert(ordered_keys@ == ok0.push(e2));
//@   lemma_among_clone(group_by@, &item.expr, &e2);
//@   assert forall|i: int| 0 <= i < ok0.len() implies !same(&#[trigger] ok0[i], &e2) by { if same(&ok0[i], &e2) { same_is_transitive(&ok0[i], &e2, &item.expr); } }
//@   assert(distinct_keys(ordered_keys@));
//@ ghost-before? /ordered_keys\.push\(key\.clone\(\)\);/
//@   let ghost ok1 = ordered_keys@;
//@ proof-after? /ordered_keys\.push\(key\.clone\(\)\);/
//@   let e3 = ordered_keys@[ordered_keys@.len() - 1];
//@   assert(ordered_keys@ == ok1.push(e3));
//@   assert(same(&group_by@[axv_g as int], &e3));
//@   assert(among(group_by@, &e3));
//@   assert forall|i: int| 0 <= i < ok1.len() implies !same(&#[trigger] ok1[i], &e3) by { if same(&ok1[i], &e3) { same_is_transitive(&ok1[i], &e3, key); } }
//@   assert(distinct_keys(ordered_keys@));
//@   assert(same(&ordered_keys@[ordered_keys@.len() - 1], &group_by@[axv_g as int]));
//@   assert forall|i: int| 0 <= i < axv_g implies among(ordered_keys@, &#[trigger] group_by@[i]) by { let w = choose|w: int| 0 <= w < ok1.len() && same(&#[trigger] ok1[w], &group_by@[i]); assert(same(&ordered_keys@[w], &group_by@[i])); }
//@ loop 2
//@   invariant
//@     starts_with(ordered_keys@, first_keys(columns@, axv_c as int, group_by@)),
//@     ordered_keys@.len() == first_keys(columns@, axv_c as int, group_by@).len(),
//@     distinct_keys(ordered_keys@),
//@     forall|k: int| 0 <= k < ordered_keys@.len() ==> among(group_by@, &#[trigger] ordered_keys@[k]),
//@     forall|c: int| 0 <= c < axv_c ==> among(group_by@, &(#[trigger] columns@[c]).expr) || is_agg_call(&columns@[c].expr),
//@ loop? 3
//@   invariant
//@     starts_with(ordered_keys@, first_keys(columns@, columns@.len() as int, group_by@)),
//@     distinct_keys(ordered_keys@),
//@     forall|k: int| 0 <= k < ordered_keys@.len() ==> among(group_by@, &#[trigger] ordered_keys@[k]),
//@     forall|i: int| 0 <= i < axv_g ==> among(ordered_keys@, &#[trigger] group_by@[i]),
//@     forall|c: int| 0 <= c < columns@.len() ==> among(group_by@, &(#[trigger] columns@[c]).expr) || is_agg_call(&columns@[c].expr),
//@end
}

} // verus!
