//@unit name=volcano props=C05
//@strip-pub
// Unit `volcano`: the row-at-a-time operators whose meaning is a function of their input stream
// (C05: LIMIT and OFFSET compute what they say, filters return exactly the rows whose predicate is
// TRUE -- NULL counts as not TRUE --, DISTINCT returns each distinct row once, first occurrence).
// The child executor is an abstract stream: a ghost sequence of rows and a position.
//@trusted [env] the child operator is any stream (rows(), pos()); ExpressionEvaluator::{new, evaluate_as_bool} is the abstract predicate sat(predicate, row) (unit evalneg / Kani unit eval cover its pieces; the EvaluationError -> RuntimeError conversion of `?` is folded into the env signature); HashSet<Vec<DataType>>::insert is set insertion by the key of the row (row_to_key = the row's values, C19 equality)
//@trusted [pre] the statistics counters do not overflow u64 (rows_scanned + rows still to come < 2^64)
use vstd::prelude::*;

verus! {

pub struct RtError { pub code: u8 }
pub type RuntimeResult<T> = Result<T, RtError>;

#[verifier::external_body]
pub struct Row { _p: () }
#[verifier::external_body]
pub struct Schema { _p: () }
#[verifier::external_body]
pub struct BoundExpression { _p: () }
pub uninterp spec fn sat(p: &BoundExpression, r: Row) -> bool;     // the predicate evaluates to TRUE (not FALSE, not NULL)
pub uninterp spec fn key_of(r: Row) -> Seq<u64>;                     // the row's values as a DISTINCT key

pub open spec fn repeat_at(rows: Seq<Row>, j: int) -> bool { exists|i: int| 0 <= i < j && key_of(#[trigger] rows[i]) == key_of(rows[j]) }

pub struct ExecutionStats { pub rows_produced: u64, pub rows_scanned: u64, pub pages_read: u64 }

#[verifier::external_body]
pub struct Stream { _p: () }
impl Stream {
    pub uninterp spec fn rows(&self) -> Seq<Row>;
    pub uninterp spec fn pos(&self) -> nat;
    #[verifier::external_body]
    pub fn next(&mut self) -> (r: RuntimeResult<Option<Row>>)
        requires old(self).pos() <= old(self).rows().len(),
        ensures
            final(self).rows() == old(self).rows(),
            r matches Ok(Some(row)) ==> old(self).pos() < old(self).rows().len() && row == old(self).rows()[old(self).pos() as int] && final(self).pos() == old(self).pos() + 1,
            r matches Ok(None) ==> old(self).pos() == old(self).rows().len() && final(self).pos() == old(self).pos(),
            r is Err ==> final(self).pos() == old(self).pos(),
    { unimplemented!() }
}

#[verifier::external_body]
pub struct ExpressionEvaluator { _p: () }
impl ExpressionEvaluator {
    pub uninterp spec fn row(&self) -> Row;
    #[verifier::external_body]
    pub fn new(row: &Row, schema: &Schema) -> (r: ExpressionEvaluator) ensures r.row() == *row { unimplemented!() }
    // DataType::Bool(b) => b, DataType::Null => false (NULL is not TRUE)
    #[verifier::external_body]
    pub fn evaluate_as_bool(&self, expr: &BoundExpression) -> (r: RuntimeResult<bool>) ensures r matches Ok(b) ==> b == sat(expr, self.row()) { unimplemented!() }
}

// ------------------------------------------------------------------ LIMIT / OFFSET
pub struct Limit { child: Stream, limit: usize, offset: usize, current: usize, skipped: usize, schema: Schema, stats: ExecutionStats }
impl Limit {
    pub closed spec fn inv(&self) -> bool {
        &&& self.child.pos() == self.skipped + self.current
        &&& self.child.pos() <= self.child.rows().len()
        &&& self.skipped <= self.offset
        &&& self.current <= self.limit
        &&& (self.current > 0 ==> self.skipped == self.offset)
        &&& self.stats.rows_scanned + (self.child.rows().len() - self.child.pos()) < 0xffff_ffff_ffff_ffff
        &&& self.stats.rows_produced <= self.stats.rows_scanned
    }
    pub closed spec fn input(&self) -> Seq<Row> { self.child.rows() }
    pub closed spec fn emitted(&self) -> nat { self.current as nat }
    pub closed spec fn lim(&self) -> nat { self.limit as nat }
    pub closed spec fn off(&self) -> nat { self.offset as nat }

//@fn crates/axmos-db/src/runtime/ops/limit.rs | impl<Child: Executor> Executor for Limit<Child> | next
//@ rename limit_next
//@ requires
//@   old(self).inv(),
//@ ensures
//@   [C05:limit.keeps_inv] final(self).inv() && final(self).input() == old(self).input() && final(self).lim() == old(self).lim() && final(self).off() == old(self).off(),
//@   [C05:limit.kth_call_returns_row_offset_plus_k] r matches Ok(Some(row)) ==> (old(self).emitted() < old(self).lim() && old(self).off() + old(self).emitted() < old(self).input().len() && row == old(self).input()[(old(self).off() + old(self).emitted()) as int] && final(self).emitted() == old(self).emitted() + 1),
//@   [C05:limit.ends_only_at_limit_or_end_of_input] r matches Ok(None) ==> (old(self).emitted() >= old(self).lim() || old(self).input().len() <= old(self).off() + old(self).emitted()),
//@ loop 1
//@   invariant
//@     self.inv(), self.child.rows() == old(self).child.rows(), self.limit == old(self).limit, self.offset == old(self).offset, self.current == old(self).current,
//@   decreases self.offset - self.skipped
//@end
}

// ------------------------------------------------------------------ WHERE
pub struct Filter { schema: Schema, predicate: BoundExpression, child: Stream, stats: ExecutionStats }
impl Filter {
    pub closed spec fn inv(&self) -> bool {
        &&& self.child.pos() <= self.child.rows().len()
        &&& self.stats.rows_scanned + (self.child.rows().len() - self.child.pos()) < 0xffff_ffff_ffff_ffff
        &&& self.stats.rows_produced <= self.stats.rows_scanned
    }
    pub closed spec fn input(&self) -> Seq<Row> { self.child.rows() }
    pub closed spec fn at(&self) -> nat { self.child.pos() }
    pub closed spec fn pred(&self) -> &BoundExpression { &self.predicate }
    pub fn schema(&self) -> (r: &Schema) { &self.schema }
    pub fn predicate(&self) -> (r: &BoundExpression) ensures r == self.pred() { &self.predicate }

//@fn crates/axmos-db/src/runtime/ops/filter.rs | impl<Child: Executor> Executor for Filter<Child> | next
//@ rename filter_next
//@ requires
//@   old(self).inv(),
//@ ensures
//@   [C05:filter.keeps_inv] final(self).inv() && final(self).input() == old(self).input() && final(self).pred() == old(self).pred(),
//@   [C05:filter.returns_next_satisfying_row] r matches Ok(Some(row)) ==> (old(self).at() < final(self).at() && row == old(self).input()[final(self).at() - 1] && sat(old(self).pred(), row) && (forall|j: int| old(self).at() <= j < final(self).at() - 1 ==> !sat(old(self).pred(), #[trigger] old(self).input()[j]))),
//@   [C05:filter.end_only_if_no_row_satisfies] r matches Ok(None) ==> (final(self).at() == old(self).input().len() && (forall|j: int| old(self).at() <= j < old(self).input().len() ==> !sat(old(self).pred(), #[trigger] old(self).input()[j]))),
//@ loop 1
//@   invariant
//@     self.inv(), self.child.rows() == old(self).child.rows(), self.predicate == old(self).predicate, old(self).child.pos() <= self.child.pos(),
//@     forall|j: int| old(self).child.pos() <= j < self.child.pos() ==> !sat(&old(self).predicate, #[trigger] self.child.rows()[j]),
//@   decreases self.child.rows().len() - self.child.pos()
//@end
}

// ------------------------------------------------------------------ DISTINCT
#[verifier::external_body]
pub struct KeySet { _p: () }
impl KeySet {
    pub uninterp spec fn view(&self) -> Set<Seq<u64>>;
    #[verifier::external_body]
    pub fn insert(&mut self, k: Key) -> (r: bool)
        ensures final(self).view() == old(self).view().insert(k.k()), r == !old(self).view().contains(k.k()) { unimplemented!() }
}
#[verifier::external_body]
pub struct Key { _p: () }
impl Key { pub uninterp spec fn k(&self) -> Seq<u64>; }

pub struct HashDistinct { schema: Schema, child: Stream, seen: KeySet, stats: ExecutionStats }
impl HashDistinct {
    pub closed spec fn inv(&self) -> bool {
        &&& self.child.pos() <= self.child.rows().len()
        &&& self.stats.rows_scanned + (self.child.rows().len() - self.child.pos()) < 0xffff_ffff_ffff_ffff
        &&& self.stats.rows_produced <= self.stats.rows_scanned
        // every row consumed so far has its key in `seen`, and nothing else is in it
        &&& (forall|j: int| 0 <= j < self.child.pos() ==> self.seen.view().contains(key_of(#[trigger] self.child.rows()[j])))
        &&& (forall|k: Seq<u64>| self.seen.view().contains(k) ==> exists|j: int| 0 <= j < self.child.pos() && key_of(#[trigger] self.child.rows()[j]) == k)
    }
    pub closed spec fn input(&self) -> Seq<Row> { self.child.rows() }
    pub closed spec fn at(&self) -> nat { self.child.pos() }
    #[verifier::external_body]
    pub fn row_to_key(&self, row: &Row) -> (r: Key) ensures r.k() == key_of(*row) { unimplemented!() }

//@fn crates/axmos-db/src/runtime/ops/distinct.rs | impl<Child: Executor> Executor for HashDistinct<Child> | next
//@ rename distinct_next
//@ requires
//@   old(self).inv(),
//@ ensures
//@   [C05:distinct.keeps_inv] final(self).inv() && final(self).input() == old(self).input(),
//@   [C05:distinct.returns_first_occurrences_only] r matches Ok(Some(row)) ==> (old(self).at() < final(self).at() && row == old(self).input()[final(self).at() - 1] && (forall|j: int| 0 <= j < final(self).at() - 1 ==> key_of(#[trigger] old(self).input()[j]) != key_of(row))),
//@   [C05:distinct.skips_only_repeats] r matches Ok(Some(row)) ==> (forall|j: int| old(self).at() <= j < final(self).at() - 1 ==> #[trigger] repeat_at(old(self).input(), j)),
//@   [C05:distinct.end_only_if_all_remaining_are_repeats] r matches Ok(None) ==> final(self).at() == old(self).input().len(),
//@ loop 1
//@   invariant
//@     self.inv(), self.child.rows() == old(self).child.rows(), old(self).child.pos() <= self.child.pos(),
//@     forall|j: int| old(self).child.pos() <= j < self.child.pos() ==> #[trigger] repeat_at(self.child.rows(), j),
//@   decreases self.child.rows().len() - self.child.pos()
//@end
}

} // verus!
