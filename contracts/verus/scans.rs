//@unit name=scans props=C05,C16,C06
//@strip-pub
// Unit `scans`: SeqScan::next and IndexScan::next, the leaves of every plan (C05: a scan returns exactly the rows of the
// table that are visible to the transaction and satisfy the pushed-down predicate, in cursor order;
// C16: a predicate that cannot be evaluated is an error of the statement, never a panic).
//@trusted [env] the B+tree cursor is an abstract stream of cell positions; Btree::get_row_at is the abstract visible_row(position) (units versionchain / snapshot decide visibility); ExpressionEvaluator::evaluate_as_bool is the abstract sat(predicate, row)
//@trusted [pre] the statistics counters do not overflow u64
use vstd::prelude::*;

verus! {

pub enum RuntimeError { CursorUninitialized, Other }
pub type RuntimeResult<T> = Result<T, RuntimeError>;
pub struct ExecutionStats { pub rows_produced: u64, pub rows_scanned: u64, pub pages_read: u64 }

#[verifier::external_body]
pub struct Row { _p: () }
#[verifier::external_body]
pub struct Schema { _p: () }
#[verifier::external_body]
pub struct Snapshot { _p: () }
#[verifier::external_body]
pub struct BoundExpression { _p: () }
#[derive(Clone, Copy)]
pub struct Pos { pub p: u64 }
pub uninterp spec fn visible_row(p: Pos) -> Option<Row>;     // what this transaction sees in that cell (None: nothing)
pub uninterp spec fn sat(e: &BoundExpression, r: Row) -> bool;

#[verifier::external_body]
pub struct ExpressionEvaluator { _p: () }
impl ExpressionEvaluator {
    pub uninterp spec fn row(&self) -> Row;
    #[verifier::external_body]
    pub fn new(row: &Row, schema: &Schema) -> (r: ExpressionEvaluator) ensures r.row() == *row { unimplemented!() }
    #[verifier::external_body]
    pub fn evaluate_as_bool(&self, expr: &BoundExpression) -> (r: RuntimeResult<bool>) ensures r matches Ok(b) ==> b == sat(expr, self.row()) { unimplemented!() }
}
#[verifier::external_body]
pub struct Tree { _p: () }
impl Tree {
    #[verifier::external_body]
    pub fn get_row_at(&mut self, pos: Pos, schema: &Schema, snapshot: &Snapshot) -> (r: RuntimeResult<Option<Row>>)
        ensures r matches Ok(o) ==> o == visible_row(pos) { unimplemented!() }
}
#[verifier::external_body]
pub struct Cursor { _p: () }
impl Cursor {
    pub uninterp spec fn cells(&self) -> Seq<Pos>;
    pub uninterp spec fn at(&self) -> nat;
    #[verifier::external_body]
    pub fn next(&mut self) -> (r: Option<RuntimeResult<Pos>>)
        requires old(self).at() <= old(self).cells().len(),
        ensures final(self).cells() == old(self).cells(),
            r matches Some(Ok(p)) ==> old(self).at() < old(self).cells().len() && p == old(self).cells()[old(self).at() as int] && final(self).at() == old(self).at() + 1,
            r is None ==> old(self).at() == old(self).cells().len() && final(self).at() == old(self).at(),
            r matches Some(Err(e)) ==> final(self).at() == old(self).at(),
    { unimplemented!() }
    #[verifier::external_body]
    pub fn get_tree(&self) -> Tree { unimplemented!() }
}
#[verifier::external_body]
pub struct ThreadContext { _p: () }
impl ThreadContext { #[verifier::external_body] pub fn snapshot(&self) -> Snapshot { unimplemented!() } }

pub open spec fn emits(pred: Option<BoundExpression>, p: Pos) -> bool {
    visible_row(p) matches Some(row) && (pred matches Some(e) ==> sat(&e, row))
}

pub struct SeqScan { ctx: ThreadContext, output_schema: Schema, table_schema: Schema, cursor: Option<Cursor>, predicate: Option<BoundExpression>, stats: ExecutionStats }

impl SeqScan {
    pub closed spec fn inv(&self) -> bool {
        &&& (self.cursor matches Some(c) ==> c.at() <= c.cells().len() && self.stats.rows_scanned + (c.cells().len() - c.at()) < 0xffff_ffff_ffff_ffff)
        &&& self.stats.rows_produced <= self.stats.rows_scanned
    }
    pub closed spec fn cells(&self) -> Seq<Pos> { match self.cursor { Some(c) => c.cells(), None => Seq::<Pos>::empty() } }
    pub closed spec fn at(&self) -> nat { match self.cursor { Some(c) => c.at(), None => 0 } }
    pub closed spec fn pred(&self) -> Option<BoundExpression> { self.predicate }

//@fn crates/axmos-db/src/runtime/ops/seq_scan.rs | impl SeqScan | evaluate_predicate
//@ ensures
//@   [C05:seqscan.predicate_is_the_pushed_down_one] r matches Ok(b) ==> b == (self.pred() matches Some(e) ==> sat(&e, *row)),
//@end

//@fn crates/axmos-db/src/runtime/ops/seq_scan.rs | impl Executor for SeqScan | next
//@ requires
//@   old(self).inv(),
//@ ensures
//@   [C05:seqscan.keeps_inv] final(self).inv() && final(self).cells() == old(self).cells() && final(self).pred() == old(self).pred(),
//@   [C05:seqscan.returns_next_visible_satisfying_row] r matches Ok(Some(row)) ==> (old(self).at() < final(self).at() && visible_row(old(self).cells()[final(self).at() - 1]) == Some(row) && emits(old(self).pred(), old(self).cells()[final(self).at() - 1]) && (forall|j: int| old(self).at() <= j < final(self).at() - 1 ==> !emits(old(self).pred(), #[trigger] old(self).cells()[j]))),
//@   [C05:seqscan.end_only_if_nothing_left_to_emit] r matches Ok(None) ==> (forall|j: int| old(self).at() <= j < old(self).cells().len() ==> !emits(old(self).pred(), #[trigger] old(self).cells()[j])),
//@ loop 1
//@   invariant
//@     self.inv(), self.cursor is Some, self.cells() == old(self).cells(), self.predicate == old(self).predicate, old(self).at() <= self.at(),
//@     forall|j: int| old(self).at() <= j < self.at() ==> !emits(old(self).pred(), #[trigger] self.cells()[j]),
//@   decreases self.cells().len() - self.at()
//@end
}

// ------------------------------------------------------------------ index scan
pub uninterp spec fn in_range(scan_id: u64, index_row: Row) -> bool;     // evaluate_index_predicate: the scan's range bounds (fixed per scan; keyed by its index root)
pub uninterp spec fn rid_of(index_row: Row) -> Option<u64>;                 // last column of an index entry
pub uninterp spec fn table_pos(root: u64, rid: u64) -> Option<Pos>;        // where the table keeps that row id

#[verifier::external_body]
pub struct UInt64 { _p: () }
impl UInt64 {
    pub uninterp spec fn v(&self) -> u64;
    #[verifier::external_body]
    pub fn serialize(&self) -> (r: RuntimeResult<KeyBytes>) ensures r matches Ok(b) ==> b.of() == self.v() { unimplemented!() }
}
#[verifier::external_body]
pub struct KeyBytes { _p: () }
impl KeyBytes {
    pub uninterp spec fn of(&self) -> u64;
    pub uninterp spec fn key_of(b: &[u8]) -> u64;
    #[verifier::external_body]
    pub fn as_ref(&self) -> (r: &[u8]) ensures Self::key_of(r) == self.of() { unimplemented!() }
}
pub enum SearchResult { Found(Pos), NotFound(Pos) }
#[verifier::external_body]
pub struct TableTree { _p: () }
impl TableTree {
    pub uninterp spec fn root(&self) -> u64;
    #[verifier::external_body]
    pub fn search(&mut self, key: &[u8], schema: &Schema) -> (r: RuntimeResult<SearchResult>)
        ensures final(self).root() == old(self).root(),
            r matches Ok(SearchResult::Found(p)) ==> table_pos(old(self).root(), KeyBytes::key_of(key)) == Some(p),
            r matches Ok(SearchResult::NotFound(p)) ==> table_pos(old(self).root(), KeyBytes::key_of(key)) is None,
    { unimplemented!() }
}
impl ThreadContext { #[verifier::external_body] pub fn build_tree(&self, root: u64) -> (r: TableTree) ensures r.root() == root { unimplemented!() } }

// the table row an index entry leads to, if the entry and the row qualify
pub open spec fn ix_emits(ix: &IndexScan, p: Pos) -> Option<Row> {
    match visible_row(p) {
        None => None,
        Some(entry) => if !in_range(ix.index_root, entry) { None } else { match rid_of(entry) {
            None => None,
            Some(rid) => match table_pos(ix.table_root, rid) {
                None => None,
                Some(tp) => match visible_row(tp) {
                    None => None,
                    Some(row) => if ix.residual_predicate matches Some(e) ==> sat(&e, row) { Some(row) } else { None },
                } } } }
    }
}

pub struct IndexScan { ctx: ThreadContext, table_root: u64, index_root: u64, cursor: Option<Cursor>, index_schema: Schema, table_schema: Schema, residual_predicate: Option<BoundExpression>, stats: ExecutionStats }

impl IndexScan {
    pub closed spec fn inv(&self) -> bool {
        &&& (self.cursor matches Some(c) ==> c.at() <= c.cells().len() && self.stats.rows_scanned + (c.cells().len() - c.at()) < 0xffff_ffff_ffff_ffff)
        &&& self.stats.rows_produced <= self.stats.rows_scanned
    }
    pub closed spec fn cells(&self) -> Seq<Pos> { match self.cursor { Some(c) => c.cells(), None => Seq::<Pos>::empty() } }
    pub closed spec fn at(&self) -> nat { match self.cursor { Some(c) => c.at(), None => 0 } }
    pub closed spec fn same_scan(&self, o: &IndexScan) -> bool { self.table_root == o.table_root && self.index_root == o.index_root && self.residual_predicate == o.residual_predicate && self.cells() == o.cells() }

    #[verifier::external_body]
    pub fn evaluate_index_predicate(&self, row: &Row) -> (r: RuntimeResult<bool>) ensures r matches Ok(b) ==> b == in_range(self.index_root, *row) { unimplemented!() }
    #[verifier::external_body]
    pub fn get_row_id_checked<'a>(&self, row: &'a Row) -> (r: RuntimeResult<&'a UInt64>) ensures r matches Ok(u) ==> rid_of(*row) == Some(u.v()), r is Err ==> rid_of(*row) is None { unimplemented!() }

//@fn crates/axmos-db/src/runtime/ops/index_scan.rs | impl IndexScan | evaluate_residual_predicate
//@ ensures
//@   [C05,C06:indexscan.residual_is_the_planned_one] r matches Ok(b) ==> b == (self.residual_predicate matches Some(e) ==> sat(&e, *row)),
//@end

//@fn crates/axmos-db/src/runtime/ops/index_scan.rs | impl Executor for IndexScan | next
//@ rename index_next
//@ requires
//@   old(self).inv(),
//@ ensures
//@   [C05,C06:indexscan.keeps_inv] final(self).inv() && final(self).same_scan(old(self)),
//@   [C05,C06:indexscan.returns_the_table_row_of_the_next_qualifying_entry] r matches Ok(Some(row)) ==> (old(self).at() < final(self).at() && ix_emits(old(self), old(self).cells()[final(self).at() - 1]) == Some(row) && (forall|j: int| old(self).at() <= j < final(self).at() - 1 ==> ix_emits(old(self), #[trigger] old(self).cells()[j]) is None)),
//@   [C05,C06:indexscan.end_only_if_no_entry_qualifies] r matches Ok(None) ==> (forall|j: int| old(self).at() <= j < old(self).cells().len() ==> ix_emits(old(self), #[trigger] old(self).cells()[j]) is None),
//@ loop 1
//@   invariant
//@     self.inv(), self.cursor is Some, self.same_scan(old(self)), old(self).at() <= self.at(),
//@     forall|j: int| old(self).at() <= j < self.at() ==> ix_emits(old(self), #[trigger] self.cells()[j]) is None,
//@   decreases self.cells().len() - self.at()
//@end
}

} // verus!
