//@unit name=vacuumjob props=C13,C08
//@strip-pub
// Unit `vacuumjob`: the job Database::vacuum runs (the closure body, checked as a function of the
// values it captures, R11).  The per-row pass (unit vacuumrows) is only right under conditions this
// job has to establish, in this order:
//   C13: (1) every open transaction is aborted BEFORE the pass -- the pass reads a delete mark or a
//   creator that is not in the aborted set as committed; (2) the horizon handed to the pass is read
//   after that; (3) the aborted set (page zero) and the coordinator's transaction table are trimmed
//   only AFTER the pass has removed or cleared everything that depended on them, and the aborted
//   set only up to the horizon the pass used; (4) the job ends with the vacuum transaction
//   committed and then a checkpoint (C08: the log is dropped only by a checkpoint).
//@trusted [env] TransactionCoordinator::{abort_all, get_last_committed, vacuum_transactions}, Database::begin_transaction, Catalog::vacuum (units vacuumrows / versionchain for the per-row work), Pager::{clear_aborted_up_to, flush} (unit pagerio: checkpoint.*) are taken at the contracts below: the coordinator carries the state `quiet()` (set by abort_all; the coordinator's interior mutability is checked as `&mut`, R8, sequential semantics); `horizon`, `began_quiet`, `quiet_snapshot`, `passed`, `committed` are facts about immutable values established only by the env call that performs the step, conditional only on the state AT that call
//@trusted [sub] `pager.write()` (exclusive lock on the shared pager) is the `&mut Pager` parameter itself (R8); `Self::begin_transaction(coordinator.clone(), pager.clone(), catalog.clone())` (clones of shared handles) is `begin_transaction(coordinator, pager, catalog)` on the same objects; `.map_err(box_err)` error boxing and the `eprintln!` notice are dropped
use vstd::prelude::*;

verus! {

pub struct BoxError { pub code: u8 }
pub type JobResult<T> = Result<T, BoxError>;
pub type TransactionId = u64;

//@item crates/axmos-db/src/schema/catalog.rs | - | struct VacuumStats

#[verifier::external_body]
pub struct AbortedList { _p: () }
impl AbortedList {
    #[verifier::external_body]
    pub fn is_empty(&self) -> bool { unimplemented!() }
    #[verifier::external_body]
    pub fn len(&self) -> usize { unimplemented!() }
}

#[verifier::external_body]
pub struct TransactionCoordinator { _p: () }
pub uninterp spec fn horizon(x: u64) -> bool;      // x was read as `last committed` while no client transaction was open
impl TransactionCoordinator {
    pub uninterp spec fn quiet(&self) -> bool;      // no transaction of a client is open
    #[verifier::external_body]
    pub fn abort_all(&mut self) -> (r: AbortedList) ensures final(self).quiet() { unimplemented!() }
    #[verifier::external_body]
    pub fn get_last_committed(&self) -> (r: TransactionId) ensures self.quiet() ==> horizon(r) { unimplemented!() }
    #[verifier::external_body]
    pub fn vacuum_transactions(&mut self) -> (r: usize)
        requires [C13:vacuum.coordinator_is_cleaned_only_after_the_pass] exists|c: &Catalog, h: u64| #[trigger] passed(c, h),
        ensures final(self).quiet() == old(self).quiet(),
    { unimplemented!() }
}

#[verifier::external_body]
pub struct BtreeBuilder { _p: () }
#[verifier::external_body]
pub struct Snapshot { _p: () }
pub uninterp spec fn quiet_snapshot(s: &Snapshot) -> bool;      // taken by a transaction that began while no client transaction was open
#[verifier::external_body]
pub struct TransactionLogger { _p: () }
#[verifier::external_body]
pub struct TransactionContext { _p: () }
pub uninterp spec fn committed(t: &TransactionContext) -> bool;
pub uninterp spec fn began_quiet(t: &TransactionContext) -> bool;
impl TransactionContext {
    #[verifier::external_body]
    pub fn tree_builder(&self) -> BtreeBuilder { unimplemented!() }
    #[verifier::external_body]
    pub fn snapshot(&self) -> (r: Snapshot) ensures began_quiet(self) ==> quiet_snapshot(&r) { unimplemented!() }
    #[verifier::external_body]
    pub fn commit_transaction(&self) -> (r: JobResult<()>) ensures r is Ok ==> committed(self) { unimplemented!() }
}

#[verifier::external_body]
pub struct Catalog { _p: () }
pub uninterp spec fn passed(c: &Catalog, h: u64) -> bool;       // the tree pass has run with horizon h
impl Catalog {
    #[verifier::external_body]
    pub fn vacuum(&self, builder: &BtreeBuilder, snapshot: &Snapshot, oldest_active_xid: TransactionId) -> (r: JobResult<VacuumStats>)
        requires
            [C13:vacuum.no_client_transaction_is_open_during_the_pass] quiet_snapshot(snapshot),
            [C13:vacuum.horizon_is_read_after_quiescing] horizon(oldest_active_xid),
        ensures r is Ok ==> passed(self, oldest_active_xid) { unimplemented!() }
}

pub enum Ev { Begin, TrimAborted(u64), Checkpoint }
#[verifier::external_body]
pub struct Pager { _p: () }
impl Pager {
    pub uninterp spec fn events(&self) -> Seq<Ev>;
    #[verifier::external_body]
    pub fn clear_aborted_up_to(&mut self, xid: TransactionId)
        requires [C13:vacuum.aborted_set_is_trimmed_only_after_the_pass_and_up_to_its_horizon] exists|c: &Catalog| #[trigger] passed(c, xid),
        ensures final(self).events() == old(self).events().push(Ev::TrimAborted(xid)) { unimplemented!() }
    // Pager::flush: the checkpoint (unit pagerio)
    #[verifier::external_body]
    pub fn flush(&mut self) -> (r: JobResult<()>)
        requires [C13,C08:vacuum.checkpoint_after_the_vacuum_transaction_committed] exists|t: &TransactionContext| #[trigger] committed(t),
        ensures final(self).events() == old(self).events().push(Ev::Checkpoint) { unimplemented!() }
}

#[verifier::external_body]
pub fn begin_transaction(coordinator: &mut TransactionCoordinator, pager: &mut Pager, catalog: &Catalog) -> (r: JobResult<(TransactionContext, TransactionLogger)>)
    ensures final(pager).events() == old(pager).events().push(Ev::Begin),
        final(coordinator).quiet() == old(coordinator).quiet(),       // the vacuum transaction itself is not a client's
        r matches Ok(p) ==> (old(coordinator).quiet() ==> began_quiet(&p.0)) { unimplemented!() }

//@fn crates/axmos-db/src/lib.rs | impl Database | vacuum
//@ arm /self\.task_runner\.run_with_result\(move \|_ctx\| \{/ => fn vacuum_job(coordinator: &mut TransactionCoordinator, pager: &mut Pager, catalog: &Catalog) -> JobResult<VacuumStats>
//@ sub /Self::begin_transaction\(coordinator\.clone\(\), pager\.clone\(\), catalog\.clone\(\)\)/ => begin_transaction(coordinator, pager, catalog)
//@ sub /pager\.write\(\)/ => pager
//@ sub /\.map_err\(box_err\)/ =>
//@ sub? /eprintln!\([^;]*\);/ =>
//@ ensures
//@   [C13,C08:vacuum.ends_with_a_checkpoint] r is Ok ==> final(pager).events().len() > 0 && final(pager).events().last() is Checkpoint,
//@end

} // verus!
