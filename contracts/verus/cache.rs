//@unit name=cache props=C12,C01,C08
//@strip-pub
// Unit `cache`: the page cache's insert / evict / remove / get / clear discipline (C12: data
// survives any amount of eviction; C01/C08: NO-STEAL -- a dirty frame never leaves the cache through
// eviction, so the data file changes only at a checkpoint and is, after a crash, a state the
// logical log can be replayed against (fix f7fd299); the only permitted failure is an explicit out-of-memory
// error from a cache too small to hold one operation).
//@trusted [env] indexmap::IndexMap<PageId, MemFrame> is an insertion-ordered sequence of (key, frame) pairs with unique keys; contains_key/get/get_mut/insert/get_index/swap_remove_index/swap_remove/len/is_empty have the documented IndexMap semantics (swap_remove moves the last entry into the hole)
//@trusted [env] MemFrame (Arc<RwLock<page>>): page_number()/is_free()/is_dirty() are pure observers of an abstract frame value; clone() yields a handle to the same page
//@trusted [env] MemoryStats::{cache_hit, cache_miss, eviction} return for every counter value (unit cachestats) and influence no result
//@trusted [sub] in PageCache::clear the loop `for (_, frame) in self.frames.drain(..) { remaining_frames.push(frame) }` is replaced by the environment call drain_into (iterator adapters are outside Verus); in PageCache::remove the closure `.filter(|frame| frame.is_free())` is replaced by keep_if_free
use vstd::prelude::*;

verus! {

type PageId = u64;

pub enum ErrorKind { OutOfMemory, NotFound, Other }
pub struct IoError { pub kind: ErrorKind }
pub mod io {
    pub(crate) type Result<T> = core::result::Result<T, super::IoError>;
}
pub fn mk_err(kind: ErrorKind) -> (r: IoError) { IoError { kind } }

#[verifier::external_body]
pub struct MemFrame { _p: () }

impl MemFrame {
    pub uninterp spec fn id(&self) -> u64;
    pub uninterp spec fn free(&self) -> bool;
    pub uninterp spec fn dirty(&self) -> bool;

    #[verifier::external_body]
    pub fn page_number(&self) -> (r: PageId) ensures r == self.id() { unimplemented!() }
    #[verifier::external_body]
    pub fn is_free(&self) -> (r: bool) ensures r == self.free() { unimplemented!() }
    #[verifier::external_body]
    pub fn is_dirty(&self) -> (r: bool) ensures r == self.dirty() { unimplemented!() }
    #[verifier::external_body]
    pub fn clone(&self) -> (r: MemFrame) ensures r.id() == self.id() { unimplemented!() }
}

#[verifier::external_body]
pub struct MemoryStats { _p: () }
impl MemoryStats {
    #[verifier::external_body]
    pub fn cache_hit(&self) { unimplemented!() }
    #[verifier::external_body]
    pub fn cache_miss(&self) { unimplemented!() }
    #[verifier::external_body]
    pub fn eviction(&self) { unimplemented!() }
}

// ordered map environment: a sequence of (key, frame) with unique keys
#[verifier::external_body]
pub struct IndexMap { _p: () }

pub open spec fn has_key(s: Seq<(u64, MemFrame)>, k: u64) -> bool {
    exists|i: int| 0 <= i < s.len() && (#[trigger] s[i]).0 == k
}
pub open spec fn unique_keys(s: Seq<(u64, MemFrame)>) -> bool {
    forall|i: int, j: int| 0 <= i < s.len() && 0 <= j < s.len() && i != j ==> (#[trigger] s[i]).0 != (#[trigger] s[j]).0
}
// IndexMap::swap_remove_index: the last entry takes the place of the removed one
pub open spec fn swap_removed(s: Seq<(u64, MemFrame)>, i: int) -> Seq<(u64, MemFrame)> {
    if i == s.len() - 1 { s.drop_last() } else { s.drop_last().update(i, s.last()) }
}

impl IndexMap {
    pub uninterp spec fn view(&self) -> Seq<(u64, MemFrame)>;

    #[verifier::external_body]
    pub fn len(&self) -> (r: usize) ensures r == self@.len() { unimplemented!() }
    #[verifier::external_body]
    pub fn is_empty(&self) -> (r: bool) ensures r == (self@.len() == 0) { unimplemented!() }
    #[verifier::external_body]
    pub fn contains_key(&self, k: &PageId) -> (r: bool) ensures r == has_key(self@, *k) { unimplemented!() }

    #[verifier::external_body]
    pub fn get(&self, k: &PageId) -> (r: Option<&MemFrame>)
        ensures
            r is Some <==> has_key(self@, *k),
            r matches Some(f) ==> (exists|i: int| 0 <= i < self@.len() && (#[trigger] self@[i]).0 == *k && self@[i].1 == *f),
    { unimplemented!() }

    // replaces the frame stored under an existing key (IndexMap::get_mut + assignment through it)
    #[verifier::external_body]
    pub fn get_mut(&mut self, k: &PageId) -> (r: Option<&mut MemFrame>)
        ensures
            r is Some <==> has_key(old(self)@, *k),
            r is None ==> final(self)@ == old(self)@,
            r matches Some(f) ==> (exists|i: int| 0 <= i < old(self)@.len() && (#[trigger] old(self)@[i]).0 == *k && old(self)@[i].1 == *f
                && final(self)@ == old(self)@.update(i, (*k, *final(f)))),
            r matches Some(f) ==> holds(final(self)@, *final(f)) && final(self)@.len() == old(self)@.len()
                && (forall|j: int| 0 <= j < old(self)@.len() ==> (#[trigger] final(self)@[j]).0 == old(self)@[j].0)
                && (forall|j: int| 0 <= j < old(self)@.len() && old(self)@[j].0 != *k ==> #[trigger] final(self)@[j] == old(self)@[j])
                && (forall|j: int| 0 <= j < old(self)@.len() && old(self)@[j].0 == *k ==> (#[trigger] final(self)@[j]).1 == *final(f))
                && (forall|j: int| 0 <= j < old(self)@.len() && old(self)@[j].0 != *k ==> holds(final(self)@, (#[trigger] old(self)@[j]).1)),
    { unimplemented!() }

    #[verifier::external_body]
    pub fn insert(&mut self, k: PageId, v: MemFrame) -> (r: Option<MemFrame>)
        requires !has_key(old(self)@, k),
        ensures r is None, final(self)@ == old(self)@.push((k, v)), holds(final(self)@, v),
            forall|j: int| 0 <= j < old(self)@.len() ==> #[trigger] final(self)@[j] == old(self)@[j],
            forall|f: MemFrame| #[trigger] holds(old(self)@, f) ==> holds(final(self)@, f),
            forall|j: int| 0 <= j < old(self)@.len() ==> holds(final(self)@, (#[trigger] old(self)@[j]).1),
    { unimplemented!() }

    #[verifier::external_body]
    pub fn get_index(&self, i: usize) -> (r: Option<(&PageId, &MemFrame)>)
        ensures
            r is Some <==> i < self@.len(),
            r matches Some(p) ==> *p.0 == self@[i as int].0 && *p.1 == self@[i as int].1,
    { unimplemented!() }

    #[verifier::external_body]
    pub fn swap_remove(&mut self, k: &PageId) -> (r: Option<MemFrame>)
        ensures
            r is Some <==> has_key(old(self)@, *k),
            r is None ==> final(self)@ == old(self)@,
            r matches Some(f) ==> (exists|i: int| 0 <= i < old(self)@.len() && (#[trigger] old(self)@[i]).0 == *k && old(self)@[i].1 == f && final(self)@ == swap_removed(old(self)@, i)),
    { unimplemented!() }

    #[verifier::external_body]
    pub fn swap_remove_index(&mut self, i: usize) -> (r: Option<(PageId, MemFrame)>)
        ensures
            r is Some <==> i < old(self)@.len(),
            r is None ==> final(self)@ == old(self)@,
            r matches Some(p) ==> p == old(self)@[i as int] && final(self)@ == swap_removed(old(self)@, i as int),
    { unimplemented!() }
}

// stands for `for (_, frame) in map.drain(..) { out.push(frame) }`
#[verifier::external_body]
pub fn drain_into(map: &mut IndexMap, out: &mut Vec<MemFrame>)
    ensures
        final(map)@.len() == 0,
        final(out)@.len() == old(out)@.len() + old(map)@.len(),
        forall|i: int| 0 <= i < old(out)@.len() ==> final(out)@[i] == old(out)@[i],
        forall|i: int| 0 <= i < old(map)@.len() ==> final(out)@[old(out)@.len() + i] == (#[trigger] old(map)@[i]).1,
{ unimplemented!() }

pub struct PageCache {
    capacity: usize,
    frames: IndexMap,
    cursor: usize,
    stats: MemoryStats,
}

pub open spec fn holds(s: Seq<(u64, MemFrame)>, f: MemFrame) -> bool {
    exists|i: int| 0 <= i < s.len() && (#[trigger] s[i]).1 == f
}
pub open spec fn any_free(s: Seq<(u64, MemFrame)>) -> bool {
    exists|i: int| 0 <= i < s.len() && (#[trigger] s[i]).1.free()
}
// a frame that may be evicted: nobody uses it and the data file already has its contents
pub open spec fn any_free_clean(s: Seq<(u64, MemFrame)>) -> bool {
    exists|i: int| 0 <= i < s.len() && (#[trigger] s[i]).1.free() && !s[i].1.dirty()
}

mod lem {
    use super::*;
    pub(crate) broadcast proof fn lemma_swap_removed_keeps_others(s: Seq<(u64, MemFrame)>, i: int)
        requires 0 <= i < s.len(),
        ensures
            #![trigger swap_removed(s, i)]
            forall|j: int| 0 <= j < s.len() && j != i ==> #[trigger] holds(swap_removed(s, i), s[j].1),
            swap_removed(s, i).len() == s.len() - 1,
            unique_keys(s) ==> unique_keys(swap_removed(s, i)),
            forall|k: int| 0 <= k < swap_removed(s, i).len() ==> (#[trigger] swap_removed(s, i)[k]) == s[k] || swap_removed(s, i)[k] == s.last(),
            forall|key: u64| has_key(swap_removed(s, i), key) ==> has_key(s, key),
    {
        let t = swap_removed(s, i);
        assert forall|j: int| 0 <= j < s.len() && j != i implies #[trigger] holds(t, s[j].1) by {
            if j == s.len() - 1 { assert(t[i] == s[j]); } else { assert(t[j] == s[j]); }
        }
    }
}

pub open spec fn fv_none(o: Option<MemFrame>) -> bool { o is None }
pub open spec fn fv_is(o: Option<MemFrame>, f: MemFrame) -> bool { o == Some(f) }

impl PageCache {
    pub closed spec fn entries(&self) -> Seq<(u64, MemFrame)> { self.frames@ }
    pub closed spec fn cap(&self) -> usize { self.capacity }
    pub closed spec fn inv(&self) -> bool {
        &&& unique_keys(self.frames@)
        &&& (forall|i: int| 0 <= i < self.frames@.len() ==> (#[trigger] self.frames@[i]).0 == self.frames@[i].1.id())
        &&& self.frames@.len() < usize::MAX
    }

//@fn crates/axmos-db/src/io/cache.rs | impl PageCache | evict
//@ sub /IoError::new\(\s*(ErrorKind::\w+),.*?\)\s*\)/ => mk_err(\1))
//@ use-lemmas lem::lemma_swap_removed_keeps_others
//@ requires old(self).inv(),
//@ ensures
//@   [C12,C01,C08:evict.only_free_and_clean] r matches Ok(Some(v)) ==> v.free() && !v.dirty(),
//@   [C12:evict.victim_was_cached] r matches Ok(Some(v)) ==> holds(old(self).entries(), v),
//@   [C12:evict.no_other_loss] r is Ok ==> (forall|i: int| #![trigger old(self).entries()[i]] 0 <= i < old(self).entries().len() ==> holds(final(self).entries(), old(self).entries()[i].1) || r == Ok::<Option<MemFrame>, IoError>(Some(old(self).entries()[i].1))),
//@   [C12:evict.none_only_when_empty_or_only_dirty_frames_could_go] r matches Ok(None) ==> final(self).entries() == old(self).entries() && (old(self).entries().len() == 0 || (any_free(old(self).entries()) && !any_free_clean(old(self).entries()))),
//@   [C12:evict.err_keeps_all] r is Err ==> final(self).entries() == old(self).entries(),
//@   [C12:evict.finds_free_if_any] r is Err ==> !any_free(old(self).entries()),
//@   [C12:evict.takes_a_clean_free_frame_if_any] any_free_clean(old(self).entries()) ==> r matches Ok(Some(_)),
//@   [C12:evict.len] final(self).entries().len() <= old(self).entries().len() && (r matches Ok(Some(v)) ==> final(self).entries().len() + 1 == old(self).entries().len()),
//@   [C12:evict.keys_subset] forall|k: u64| has_key(final(self).entries(), k) ==> has_key(old(self).entries(), k),
//@   [C12:evict.keeps_inv] final(self).inv() && final(self).cap() == old(self).cap(),
//@ loop 1
//@   invariant_except_break
//@     fv_none(found_victim),
//@     self.frames@ == old(self).frames@,
//@     forall|i: int| 0 <= i < self.cursor && i < self.frames@.len() ==> !((#[trigger] self.frames@[i]).1.free() && !self.frames@[i].1.dirty()),
//@     dirty_but_free ==> any_free(self.frames@),
//@     !dirty_but_free ==> (forall|i: int| 0 <= i < self.cursor && i < self.frames@.len() ==> !(#[trigger] self.frames@[i]).1.free()),
//@   invariant
//@     self.cursor <= self.frames@.len() + 1,
//@     self.capacity == old(self).capacity,
//@     old(self).inv(),
//@   ensures
//@     fv_none(found_victim) ==> (self.frames@ == old(self).frames@ && self.cursor > self.frames@.len() && (forall|i: int| 0 <= i < self.frames@.len() ==> !((#[trigger] self.frames@[i]).1.free() && !self.frames@[i].1.dirty())) && (dirty_but_free ==> any_free(self.frames@)) && (!dirty_but_free ==> (forall|i: int| 0 <= i < self.frames@.len() ==> !(#[trigger] self.frames@[i]).1.free()))),
//@     !fv_none(found_victim) ==> (self.cursor < old(self).frames@.len() && fv_is(found_victim, old(self).frames@[self.cursor as int].1) && old(self).frames@[self.cursor as int].1.free() && !old(self).frames@[self.cursor as int].1.dirty() && self.frames@ == swap_removed(old(self).frames@, self.cursor as int)),
//@   decreases self.frames@.len() + 1 - self.cursor,
//@end

//@fn crates/axmos-db/src/io/cache.rs | impl PageCache | insert
//@ use-lemmas lem::lemma_swap_removed_keeps_others
//@ requires old(self).inv(), old(self).entries().len() + 1 < usize::MAX,
//@ ensures
//@   [C12:insert.caches_the_frame] r is Ok ==> holds(final(self).entries(), frame),
//@   [C12:insert.no_loss] r is Ok ==> (forall|i: int| #![trigger old(self).entries()[i]] 0 <= i < old(self).entries().len() ==> holds(final(self).entries(), old(self).entries()[i].1) || r == Ok::<Option<MemFrame>, IoError>(Some(old(self).entries()[i].1)) || old(self).entries()[i].0 == frame.id()),
//@   [C12,C01,C08:insert.evicts_only_free_and_clean] r matches Ok(Some(v)) ==> (v.free() && !v.dirty() && holds(old(self).entries(), v)),
//@   [C12:insert.evicts_only_when_full] r matches Ok(Some(v)) ==> old(self).cap() <= old(self).entries().len(),
//@   [C12:insert.grows_past_capacity_only_when_nothing_clean_can_go] r is Ok ==> (final(self).entries().len() <= old(self).entries().len() || final(self).entries().len() <= old(self).cap() || old(self).entries().len() == 0 || !any_free_clean(old(self).entries())),
//@   [C12:insert.err_keeps_all] r is Err ==> final(self).entries() == old(self).entries(),
//@   [C12:insert.err_only_when_all_pinned] r is Err ==> (!any_free(old(self).entries()) && old(self).cap() <= old(self).entries().len()),
//@   [C12:insert.keeps_inv] final(self).inv() && final(self).cap() == old(self).cap(),
//@end

//@fn crates/axmos-db/src/io/cache.rs | impl PageCache | remove
//@ use-lemmas lem::lemma_swap_removed_keeps_others
//@ requires old(self).inv(),
//@ ensures
//@   [C12:remove.only_free] r matches Some(v) ==> (v.free() && v.id() == id && holds(old(self).entries(), v)),
//@   [C12:remove.no_loss] forall|i: int| #![trigger old(self).entries()[i]] 0 <= i < old(self).entries().len() ==> holds(final(self).entries(), old(self).entries()[i].1) || r == Some(old(self).entries()[i].1),
//@   [C12:remove.pinned_stays] r is None ==> final(self).entries() == old(self).entries(),
//@   [C12:remove.keeps_inv] final(self).inv() && final(self).cap() == old(self).cap(),
//@end

//@fn crates/axmos-db/src/io/cache.rs | impl PageCache | get
//@ requires self.inv(),
//@ ensures
//@   [C12:get.hit_iff_cached] r is Some <==> has_key(self.entries(), *id),
//@   [C12:get.returns_that_page] r matches Some(f) ==> f.id() == *id,
//@end

//@fn crates/axmos-db/src/io/cache.rs | impl PageCache | clear
//@ sub /for \(_, frame\) in self\.frames\.drain\(\.\.\) \{\s*remaining_frames\.push\(frame\);\s*\}/ => drain_into(&mut self.frames, &mut remaining_frames);
//@ requires old(self).inv(),
//@ ensures
//@   [C12:clear.returns_all] r@.len() == old(self).entries().len() && (forall|i: int| 0 <= i < old(self).entries().len() ==> r@[i] == (#[trigger] old(self).entries()[i]).1),
//@   [C12:clear.empties] final(self).entries().len() == 0,
//@   [C12:clear.keeps_capacity] final(self).cap() == old(self).cap(),
//@   [C12:clear.keeps_inv] final(self).inv(),
//@end
}

} // verus!
