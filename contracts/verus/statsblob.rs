//@unit name=statsblob props=C16,C09
//@strip-pub
// Unit `statsblob`: Stats::from_blob, the function every catalog lookup of an ANALYZEd table goes
// through (C16: no statement may panic the worker; C09: catalog rows read back as they were written).
// rkyv only accepts a buffer with the archive's alignment: the bytes must be deserialised from the
// aligned copy, not from the blob's own (unaligned) storage.
//@trusted [env] rkyv::from_bytes is abstract: it succeeds on an ALIGNED buffer holding what to_bytes produced; `aligned(buf)` is a fact only AlignedVec provides (typestate); Blob::data returns the payload bytes
//@trusted [sub] `from_bytes::<Stats, RkyvError>(X)` is from_bytes_stats(X); `AlignedVec::<4>::new()` is AlignedVec::new(); `.map_err(|e| SerializationError::InvalidVarIntPrefix)` on Blob::data is folded into the env signature
use vstd::prelude::*;

verus! {

pub enum SerializationError { InvalidVarIntPrefix, Rkyv }
pub type SerializationResult<T> = Result<T, SerializationError>;
pub uninterp spec fn aligned(b: &[u8]) -> bool;
pub uninterp spec fn decodes(b: Seq<u8>) -> Option<Stats>;

#[verifier::external_body]
pub struct Stats { _p: () }
#[verifier::external_body]
pub struct Blob { _p: () }
impl Blob {
    pub uninterp spec fn payload(&self) -> Seq<u8>;
    pub uninterp spec fn readable(&self) -> bool;
    #[verifier::external_body]
    pub fn data(&self) -> (r: SerializationResult<&[u8]>) ensures r matches Ok(d) ==> d@ == self.payload(), r is Ok <==> self.readable() { unimplemented!() }
}
#[verifier::external_body]
pub struct AlignedVec { _p: () }
impl AlignedVec {
    pub uninterp spec fn view(&self) -> Seq<u8>;
    #[verifier::external_body]
    pub fn new() -> (r: AlignedVec) ensures r.view() == Seq::<u8>::empty() { unimplemented!() }
    #[verifier::external_body]
    pub fn extend_from_slice(&mut self, d: &[u8]) ensures final(self).view() == old(self).view() + d@ { unimplemented!() }
    // Deref<Target = [u8]>: the only source of aligned buffers
    #[verifier::external_body]
    pub fn as_slice(&self) -> (r: &[u8]) ensures r@ == self.view(), aligned(r) { unimplemented!() }
}
#[verifier::external_body]
pub fn from_bytes_stats(b: &[u8]) -> (r: SerializationResult<Stats>)
    requires [C16,C09:stats.deserialised_from_the_aligned_copy] aligned(b),
    ensures r matches Ok(s) ==> decodes(b@) == Some(s), decodes(b@) is Some ==> r is Ok,
{ unimplemented!() }

impl Stats {
//@fn crates/axmos-db/src/schema/stats.rs | impl Stats | from_blob
//@ sub /blob\s*\.data\(\)\s*\.map_err\(\|e\| SerializationError::InvalidVarIntPrefix\)\?/ => blob.data()?
//@ sub /AlignedVec::<4>::new\(\)/ => AlignedVec::new()
//@ sub? /from_bytes::<Stats, RkyvError>\(&aligned\)/ => from_bytes_stats(aligned.as_slice())
//@ sub? /from_bytes::<Stats, RkyvError>\((\w+)\)/ => from_bytes_stats(\1)
//@ ensures
//@   [C16,C09:stats.reads_back_what_the_payload_holds] (blob.readable() && decodes(blob.payload()) is Some) ==> r is Ok,
//@   [C09:stats.result_is_the_decoded_payload] r matches Ok(s) ==> decodes(blob.payload()) == Some(s),
//@ proof-before /let stats = /
//@   assert(Seq::<u8>::empty() + blob.payload() =~= blob.payload());
//@end
}

} // verus!
