//@unit name=wirerows props=C20,C16
//@strip-pub
// Unit `wirerows`: the result-set decoder (C20: any byte sequence that is not a valid frame is
// answered with a protocol error rather than a crash, a hang or an unbounded allocation; a valid
// one decodes to exactly the strings the layout carries).  The Rows arm of Response::from_bytes is
// checked as a function of `payload` (R11), together with read_string_with_len.
//@trusted [env] u32::from_le_bytes is the uninterpreted le32; String::from_utf8_lossy(..).into_owned() is the uninterpreted lossy(); `"..".into()` / format!(..) error texts are opaque messages
//@trusted [sub] slice expressions are env calls with the SAME index expressions and labelled bounds obligations: X[a..b].try_into().unwrap() -> arr4(X, a, b); &payload[o..] -> tail(payload, o); &data[a..b] inside from_utf8_lossy -> lossy_of(data, a, b); `let mut v = Vec::with_capacity(n)` -> `let mut v: Vec<..> = vec_with_cap(n, payload.len())` (same n, explicit element type; the second argument only feeds the allocation obligation)
use vstd::prelude::*;

verus! {

global size_of usize == 8;

//@item crates/axmos-db/src/tcp/mod.rs | - | const MAX_MESSAGE_SIZE

pub struct Msg { pub m: u8 }
#[verifier::external_body]
pub fn msg(s: &str) -> Msg { unimplemented!() }
#[verifier::external_body]
pub fn fmt_trunc(a: usize, b: usize) -> Msg { unimplemented!() }
pub enum TcpError { InvalidMessage(Msg), Other }

pub uninterp spec fn le32(b: Seq<u8>) -> u32;
pub uninterp spec fn lossy(b: Seq<u8>) -> Seq<char>;

#[verifier::external_body]
pub fn arr4(s: &[u8], a: usize, b: usize) -> (r: [u8; 4])
    requires
        [C20,C16:decode.slice_in_bounds] a <= b && b <= s@.len(),
        [C20,C16:decode.four_byte_field] b - a == 4,
    ensures r@ == s@.subrange(a as int, b as int),
{ unimplemented!() }
#[verifier::external_body]
pub fn u32_from_le(b: [u8; 4]) -> (r: u32) ensures r == le32(b@) { unimplemented!() }
#[verifier::external_body]
pub fn tail(s: &[u8], a: usize) -> (r: &[u8])
    requires [C20,C16:decode.tail_in_bounds] a <= s@.len(),
    ensures r@ == s@.subrange(a as int, s@.len() as int),
{ unimplemented!() }
#[verifier::external_body]
pub fn lossy_of(s: &[u8], a: usize, b: usize) -> (r: String)
    requires [C20,C16:decode.string_body_in_bounds] a <= b && b <= s@.len(),
    ensures r@ == lossy(s@.subrange(a as int, b as int)),
{ unimplemented!() }
#[verifier::external_body]
pub fn vec_with_cap<T>(n: usize, avail: usize) -> (r: Vec<T>)
    requires [C20:decode.prealloc_bounded_by_input] n <= avail || n <= MAX_MESSAGE_SIZE,
    ensures r@.len() == 0,
{ unimplemented!() }

// the layout: k length-prefixed strings starting at `off`
pub open spec fn str_len_at(p: Seq<u8>, off: int) -> int { le32(p.subrange(off, off + 4)) as int }
pub open spec fn parse_strs(p: Seq<u8>, off: int, k: nat) -> Option<(Seq<Seq<char>>, int)>
    decreases k
{
    if k == 0 { Some((Seq::<Seq<char>>::empty(), off)) }
    else if off + 4 > p.len() || off + 4 + str_len_at(p, off) > p.len() { None }
    else {
        match parse_strs(p, off + 4 + str_len_at(p, off), (k - 1) as nat) {
            None => None,
            Some((rest, end)) => Some((seq![lossy(p.subrange(off + 4, off + 4 + str_len_at(p, off)))] + rest, end)),
        }
    }
}
pub open spec fn with_prefix(pre: Seq<Seq<char>>, rest: Option<(Seq<Seq<char>>, int)>) -> Option<(Seq<Seq<char>>, int)> {
    match rest { None => None, Some((r, e)) => Some((pre + r, e)) }
}
pub open spec fn strs_view(v: Seq<String>) -> Seq<Seq<char>> { Seq::new(v.len(), |i: int| v[i]@) }

//@fn crates/axmos-db/src/tcp/mod.rs | - | read_string_with_len
//@ sub /"([^"]*)"\.into\(\)/ => msg("\1")
//@ sub /u32::from_le_bytes\((\w+)\[([^\]]*?)\.\.([^\]]*?)\]\.try_into\(\)\.unwrap\(\)\)/ => u32_from_le(arr4(\1, \2, \3))
//@ sub /format!\(\s*"String data truncated[^"]*",\s*len,\s*data\.len\(\) - 4,?\s*\)/ => fmt_trunc(len, data.len() - 4)
//@ sub /String::from_utf8_lossy\(&data\[([^\]]*?)\.\.([^\]]*?)\]\)\.into_owned\(\)/ => lossy_of(data, \1, \2)
//@ ensures
//@   [C20:string.decodes_prefix_and_body] r matches Ok((s, n)) ==> (data@.len() >= 4 && n == 4 + str_len_at(data@, 0) && n <= data@.len() && s@ == lossy(data@.subrange(4, n as int))),
//@   [C20:string.truncated_is_error] (data@.len() < 4 || 4 + str_len_at(data@, 0) > data@.len()) ==> r is Err,
//@   [C20:string.complete_is_ok] (data@.len() >= 4 && 4 + str_len_at(data@, 0) <= data@.len()) ==> r is Ok,
//@end

pub enum Response { Rows { columns: Vec<String>, data: Vec<Vec<String>> }, Other }

impl Response {
//@fn crates/axmos-db/src/tcp/mod.rs | impl Response | from_bytes
//@ arm /StatusCode::Rows => \{/ => fn decode_rows(payload: &[u8]) -> Result<Self, TcpError>
//@ sub /"([^"]*)"\.into\(\)/ => msg("\1")
//@ sub /u32::from_le_bytes\((\w+)\[([^\]]*?)\.\.([^\]]*?)\]\.try_into\(\)\.unwrap\(\)\)/ => u32_from_le(arr4(\1, \2, \3))
//@ sub /&payload\[(\w+)\.\.\]/ => tail(payload, \1)
//@ sub /let mut (columns|row) = Vec::with_capacity\((\w+)\)/ => let mut \1: Vec<String> = vec_with_cap(\2, payload.len())
//@ sub /let mut data = Vec::with_capacity\((\w+)\)/ => let mut data: Vec<Vec<String>> = vec_with_cap(\1, payload.len())
//@ requires
//@   payload@.len() < 0x7fff_ffff_ffff_ffff,
//@ ensures
//@   [C20:rows.short_is_error] payload@.len() < 8 ==> r is Err,
//@   [C20:rows.columns_as_laid_out] r matches Ok(Response::Rows { columns, data }) ==> (parse_strs(payload@, 4, str_len_at(payload@, 0) as nat) matches Some((names, e)) && strs_view(columns@) == names),
//@   [C20:rows.row_shape] r matches Ok(Response::Rows { columns, data }) ==> (forall|i: int| 0 <= i < data@.len() ==> (#[trigger] data@[i])@.len() == columns@.len()),
//@   [C20:rows.counts_as_announced] r matches Ok(Response::Rows { columns, data }) ==> columns@.len() == str_len_at(payload@, 0),
//@ loop 1
//@   invariant
//@     4 <= offset <= payload@.len() < 0x7fff_ffff_ffff_ffff,
//@     col_count as int == str_len_at(payload@, 0),
//@     columns@.len() == axv_i,
//@     with_prefix(strs_view(columns@), parse_strs(payload@, offset as int, (col_count - axv_i) as nat)) == parse_strs(payload@, 4, col_count as nat),
//@ ghost-before /let \(col, len\) =/
//@   let ghost o0 = offset as int;
//@   let ghost cols0 = columns@;
//@ proof-after /columns\.push\(col\);/
//@   let t = payload@.subrange(o0, payload@.len() as int);
//@   let l = str_len_at(payload@, o0);
//@   assert(t.len() == payload@.len() - o0);
//@   assert(t.subrange(0, 4) =~= payload@.subrange(o0, o0 + 4));
//@   assert(t.subrange(4, len as int) =~= payload@.subrange(o0 + 4, o0 + 4 + l));
//@   assert(len as int == 4 + l);
//@   assert(strs_view(columns@) =~= strs_view(cols0) + seq![col@]);
//@   let k = (col_count - axv_i) as nat;
//@   let rest = parse_strs(payload@, o0 + 4 + l, (k - 1) as nat);
//@   assert(parse_strs(payload@, o0, k) == (match rest { None => None::<(Seq<Seq<char>>, int)>, Some((rr, e)) => Some((seq![col@] + rr, e)) }));
//@   assert(forall|rr: Seq<Seq<char>>| (strs_view(cols0) + seq![col@]) + rr =~= strs_view(cols0) + (seq![col@] + rr));
//@ loop 2
//@   invariant
//@     offset <= payload@.len() < 0x7fff_ffff_ffff_ffff,
//@     columns@.len() == col_count,
//@     col_count <= payload@.len(),
//@     forall|i: int| 0 <= i < data@.len() ==> (#[trigger] data@[i])@.len() == col_count,
//@ loop 3
//@   invariant
//@     offset <= payload@.len() < 0x7fff_ffff_ffff_ffff,
//@     row@.len() == axv_i,
//@ proof-after /let \(value, len\) = [^;]*;/
//@   assert(payload@.subrange(offset as int, payload@.len() as int).len() == payload@.len() - offset);
//@end
}

} // verus!
