//@unit name=evalneg props=C05,C16
//@strip-pub
// Unit `evalneg`: the negatable predicates of ExpressionEvaluator::evaluate -- IS [NOT] NULL,
// [NOT] BETWEEN, [NOT] IN (list) -- and string_like (C05: predicates follow three-valued logic).
// Each arm of the big `match` is checked as a function of its own (R11).  The three subquery arms
// (not implemented by the engine) and the catch-all arm (CASE, aggregates outside an aggregation, `*`)
// must be ordinary errors of the statement, not panics (C16).
//   IS [NOT] NULL is two-valued and negation flips it; BETWEEN / IN / LIKE: a NULL operand (for IN
//   also a miss against a list containing NULL) gives NULL, otherwise negation flips the verdict.
//@trusted [env] self.evaluate(sub-expression) is abstract (val(e)); DataType comparison (>=, <=: C19 unit types) and HashSet<DataType> (insert / contains by the DataType equality of C19) are abstract; Blob::like is abstract
//@trusted [sub] `a[0] >= b[0]` / `a[0] <= c[0]` are ge(&a[0], &b[0]) / le(&a[0], &c[0]); `for item in eval { set.insert(item); }` is set.extend_from(eval); `"..".to_string()` is msg("..")
use vstd::prelude::*;

verus! {

pub struct Msg { pub m: u8 }
#[verifier::external_body]
pub fn msg(s: &str) -> Msg { unimplemented!() }
pub enum EvaluationError { InvalidExpression(Msg), Other }
pub type EvaluationResult<T> = Result<T, EvaluationError>;
pub enum TypeSystemError { UnexpectedDataType(u8), Other }
pub type TypeSystemResult<T> = Result<T, TypeSystemError>;

pub struct Bool(pub bool);
pub enum DataType { Null, Bool(Bool), Other(u64) }
pub uninterp spec fn ge_spec(a: DataType, b: DataType) -> bool;
pub uninterp spec fn le_spec(a: DataType, b: DataType) -> bool;
#[verifier::external_body]
pub fn ge(a: &DataType, b: &DataType) -> (r: bool) ensures r == ge_spec(*a, *b) { unimplemented!() }
#[verifier::external_body]
pub fn le(a: &DataType, b: &DataType) -> (r: bool) ensures r == le_spec(*a, *b) { unimplemented!() }

#[verifier::external_body]
pub struct Blob { _p: () }
pub uninterp spec fn like_spec(text: &Blob, pat: &Blob) -> bool;
impl Blob {
    #[verifier::external_body]
    pub fn as_str(&self) -> (r: TypeSystemResult<&str>) ensures r matches Ok(t) ==> pat_of(t) == self { unimplemented!() }
}
pub uninterp spec fn pat_of(s: &str) -> &Blob;
impl Blob {
    #[verifier::external_body]
    pub fn like(&self, pattern: &str) -> (r: TypeSystemResult<bool>) ensures r matches Ok(b) ==> b == like_spec(self, pat_of(pattern)) { unimplemented!() }
}
impl DataType {
    pub uninterp spec fn blob(&self) -> Option<&Blob>;
    #[verifier::external_body]
    pub fn as_blob(&self) -> (r: Option<&Blob>) ensures r == self.blob() { unimplemented!() }
    #[verifier::external_body]
    pub fn kind(&self) -> u8 { unimplemented!() }
}

#[verifier::external_body]
pub struct BoundExpression { _p: () }
pub uninterp spec fn val(e: &BoundExpression) -> Seq<DataType>;

#[verifier::external_body]
pub struct DtSet { _p: () }
impl DtSet {
    pub uninterp spec fn view(&self) -> Set<DataType>;
    #[verifier::external_body]
    pub fn new() -> (r: DtSet) ensures r.view() == Set::<DataType>::empty() { unimplemented!() }
    #[verifier::external_body]
    pub fn extend_from(&mut self, items: Vec<DataType>) ensures final(self).view() == old(self).view().union(items@.to_set()) { unimplemented!() }
    #[verifier::external_body]
    pub fn contains(&self, x: &DataType) -> (r: bool) ensures r == self.view().contains(*x) { unimplemented!() }
}
pub open spec fn list_vals(list: Seq<BoundExpression>, n: int) -> Set<DataType>
    decreases n
{
    if n <= 0 { Set::<DataType>::empty() } else { list_vals(list, n - 1).union(val(&list[n - 1]).to_set()) }
}

// three-valued verdicts
pub open spec fn tv_is_null(v: DataType, negated: bool) -> DataType { DataType::Bool(Bool((v is Null) != negated)) }
// x BETWEEN lo AND hi is x >= lo AND x <= hi in Kleene logic: a comparison with a NULL operand is
// unknown, an AND with a false side is false
pub open spec fn tv_cmp_ge(v: DataType, lo: DataType) -> Option<bool> { if v is Null || lo is Null { None } else { Some(ge_spec(v, lo)) } }
pub open spec fn tv_cmp_le(v: DataType, hi: DataType) -> Option<bool> { if v is Null || hi is Null { None } else { Some(le_spec(v, hi)) } }
pub open spec fn tv_between(v: DataType, lo: DataType, hi: DataType, negated: bool) -> DataType {
    if tv_cmp_ge(v, lo) == Some(false) || tv_cmp_le(v, hi) == Some(false) { DataType::Bool(Bool(negated)) }
    else if tv_cmp_ge(v, lo) == Some(true) && tv_cmp_le(v, hi) == Some(true) { DataType::Bool(Bool(!negated)) }
    else { DataType::Null }
}
pub open spec fn tv_in(v: DataType, s: Set<DataType>, negated: bool) -> DataType {
    if v is Null { DataType::Null } else if s.contains(v) { DataType::Bool(Bool(!negated)) }
    else if s.contains(DataType::Null) { DataType::Null } else { DataType::Bool(Bool(negated)) }
}

pub struct ExpressionEvaluator { pub x: u8 }
impl ExpressionEvaluator {
    #[verifier::external_body]
    pub fn evaluate(&self, e: &BoundExpression) -> (r: EvaluationResult<Vec<DataType>>)
        ensures r matches Ok(v) ==> v@ == val(e) { unimplemented!() }

//@fn crates/axmos-db/src/runtime/eval.rs | impl<'a> ExpressionEvaluator<'a> | string_like
//@ ensures
//@   [C05:like.negation_flips] r matches Ok(v) ==> (str_lhs.blob() matches Some(t) ==> (pattern.blob() matches Some(p0) ==> v == DataType::Bool(Bool(like_spec(t, p0) != negated)))),
//@   [C05:like.non_text_is_error] (str_lhs.blob() is None || pattern.blob() is None) ==> r is Err,
//@end

//@fn crates/axmos-db/src/runtime/eval.rs | impl<'a> ExpressionEvaluator<'a> | evaluate
//@ arm /BoundExpression::IsNull \{ expr, negated \} => \{/ => fn is_null_arm(&self, expr: &Box<BoundExpression>, negated: &bool) -> EvaluationResult<Vec<DataType>>
//@ sub /"([^"]*)"\.to_string\(\)/ => msg("\1")
//@ requires
//@   val(expr).len() >= 1,
//@ ensures
//@   [C05:isnull.negation_flips] r matches Ok(v) ==> v@ == seq![tv_is_null(val(expr)[0], *negated)],
//@   [C05:isnull.lists_rejected] val(expr).len() > 1 ==> r is Err,
//@end

//@fn crates/axmos-db/src/runtime/eval.rs | impl<'a> ExpressionEvaluator<'a> | evaluate
//@ arm /BoundExpression::Between \{\s*expr,\s*low,\s*high,\s*negated,\s*\} => \{/ => fn between_arm(&self, expr: &Box<BoundExpression>, low: &Box<BoundExpression>, high: &Box<BoundExpression>, negated: &bool) -> EvaluationResult<Vec<DataType>>
//@ sub /"([^"]*)"\.to_string\(\)/ => msg("\1")
//@ sub /(\w+)\[0\] >= (\w+)\[0\]/ => ge(&\1[0], &\2[0])
//@ sub /(\w+)\[0\] <= (\w+)\[0\]/ => le(&\1[0], &\2[0])
//@ requires
//@   val(expr).len() >= 1 && val(low).len() >= 1 && val(high).len() >= 1,
//@ ensures
//@   [C05:between.three_valued_and_negation_flips] r matches Ok(v) ==> v@ == seq![tv_between(val(expr)[0], val(low)[0], val(high)[0], *negated)],
//@   [C05:between.lists_rejected] (val(expr).len() > 1 || val(low).len() > 1 || val(high).len() > 1) ==> r is Err,
//@end

//@fn crates/axmos-db/src/runtime/eval.rs | impl<'a> ExpressionEvaluator<'a> | evaluate
//@ arm /BoundExpression::InList \{\s*expr,\s*list,\s*negated,\s*\} => \{/ => fn in_list_arm(&self, expr: &Box<BoundExpression>, list: &Vec<BoundExpression>, negated: &bool) -> EvaluationResult<Vec<DataType>>
//@ sub /"([^"]*)"\.to_string\(\)/ => msg("\1")
//@ sub /let mut set: HashSet<DataType> = HashSet::new\(\);/ => let mut set: DtSet = DtSet::new();
//@ sub /for exp in list \{/ => for exp in it: list {
//@ sub /for item in eval \{\s*set\.insert\(item\);\s*\}/ => set.extend_from(eval);
//@ requires
//@   val(expr).len() >= 1,
//@ ensures
//@   [C05:inlist.three_valued_and_negation_flips] r matches Ok(v) ==> v@ == seq![tv_in(val(expr)[0], list_vals(list@, list@.len() as int), *negated)],
//@ loop 1
//@   invariant
//@     set.view() == list_vals(list@, it.index@ as int),
//@end
//@fn crates/axmos-db/src/runtime/eval.rs | impl<'a> ExpressionEvaluator<'a> | evaluate
//@ arm /BoundExpression::Exists \{ query, negated \} => \{/ => fn exists_arm(&self) -> EvaluationResult<Vec<DataType>>
//@ sub /"([^"]*)"\.to_string\(\)/ => msg("\1")
//@ ensures
//@   [C16,C05:subquery.exists_is_an_error_not_a_panic] r is Err,
//@end

//@fn crates/axmos-db/src/runtime/eval.rs | impl<'a> ExpressionEvaluator<'a> | evaluate
//@ arm /BoundExpression::Subquery \{ query, result_type \} => \{/ => fn scalar_subquery_arm(&self) -> EvaluationResult<Vec<DataType>>
//@ sub /"([^"]*)"\.to_string\(\)/ => msg("\1")
//@ ensures
//@   [C16,C05:subquery.scalar_is_an_error_not_a_panic] r is Err,
//@end

//@fn crates/axmos-db/src/runtime/eval.rs | impl<'a> ExpressionEvaluator<'a> | evaluate
//@ arm /BoundExpression::InSubquery \{\s*expr,\s*query,\s*negated,\s*\} => \{/ => fn in_subquery_arm(&self) -> EvaluationResult<Vec<DataType>>
//@ sub /"([^"]*)"\.to_string\(\)/ => msg("\1")
//@ ensures
//@   [C16,C05:subquery.in_is_an_error_not_a_panic] r is Err,
//@end
//@fn crates/axmos-db/src/runtime/eval.rs | impl<'a> ExpressionEvaluator<'a> | evaluate
//@ arm /\n            _ => \{/ => fn fallthrough_arm(&self) -> EvaluationResult<Vec<DataType>>
//@ sub /"([^"]*)"\.to_string\(\)/ => msg("\1")
//@ ensures
//@   [C16,C05:evaluate.unimplemented_expression_kinds_are_errors_not_panics] r is Err,
//@end
}

} // verus!
