//@unit name=autocommit props=C03,C01,C16
//@strip-pub
// Unit `autocommit`: the jobs Database::execute and Database::execute_batch run (closure bodies,
// checked as functions of the values they capture, R11): one statement, or one batch, in a
// transaction of its own.
//   C03 "a statement that fails makes no partial changes / a failed batch leaves no effects" and C16
//   (the state after an error): the transaction is committed ONLY if the statement (every statement
//   of the batch) succeeded -- on failure the job returns the error with the transaction still
//   open, and dropping its context is what aborts it.
//   C01: COMMIT is logged before the coordinator commits, END after; Ok is returned only for a
//   committed transaction.
//@trusted [env] QueryRunner::prepare_and_run / MultiQueryRunner::execute_all (everything from the parser to the executors), TransactionLogger::{log_commit, log_end} (unit wal), TransactionContext::commit_transaction (unit coordinator) at typestate contracts: `succeeded`, `commit_logged`, `committed` are facts established only by the env call that performs the step, on its own success
//@trusted [sub] `.map_err(box_err)` error boxing is dropped; `logger.clone()` (a handle copy) is `logger.dup()`; `&sql` / `&statements` are the captured values
//@trusted [outside] Database::execute around the job (begin_transaction, create_child, the task runner and its threads), Session (explicit transactions: unit wal's chain), and what dropping an uncommitted TransactionContext does
use vstd::prelude::*;

verus! {

// std specifications vstd does not carry (sound: they say what the std functions do)
pub assume_specification<T, F: FnOnce(T) -> bool>[ Option::<T>::is_none_or ](o: Option<T>, f: F) -> (r: bool)
    requires o matches Some(v) ==> f.requires((v,)),
    ensures o is None ==> r, o matches Some(v) ==> f.ensures((v,), r);
pub assume_specification<T, F: FnOnce(T) -> bool>[ Option::<T>::is_some_and ](o: Option<T>, f: F) -> (r: bool)
    requires o matches Some(v) ==> f.requires((v,)),
    ensures o is None ==> !r, o matches Some(v) ==> f.ensures((v,), r);


pub struct BoxError { pub code: u8 }
pub type JobResult<T> = Result<T, BoxError>;

#[verifier::external_body]
pub struct QueryResult { _p: () }
#[verifier::external_body]
pub struct Sql { _p: () }
#[verifier::external_body]
pub struct Statements { _p: () }
impl Statements { #[verifier::external_body] pub fn len(&self) -> usize { unimplemented!() } #[verifier::external_body] pub fn is_empty(&self) -> bool { unimplemented!() } }
#[verifier::external_body]
pub struct ChildCtx { _p: () }

#[verifier::external_body]
pub struct TransactionLogger { _p: () }
pub uninterp spec fn commit_logged(l: &TransactionLogger) -> bool;
pub uninterp spec fn same_log(a: &TransactionLogger, b: &TransactionLogger) -> bool;
impl TransactionLogger {
    #[verifier::external_body]
    pub fn dup(&self) -> (r: TransactionLogger) ensures same_log(self, &r) { unimplemented!() }
    #[verifier::external_body]
    pub fn log_commit(&self) -> (r: JobResult<()>)
        requires [C03,C16:autocommit.commit_is_logged_only_for_a_statement_that_succeeded] exists|q: &Runner| #[trigger] succeeded(q),
        ensures r is Ok ==> commit_logged(self) { unimplemented!() }
    #[verifier::external_body]
    pub fn log_end(&self) -> (r: JobResult<()>)
        requires [C01:autocommit.end_is_logged_after_the_commit] exists|t: &TransactionContext| #[trigger] committed(t),
    { unimplemented!() }
}

#[verifier::external_body]
pub struct TransactionContext { _p: () }
pub uninterp spec fn committed(t: &TransactionContext) -> bool;
impl TransactionContext {
    #[verifier::external_body]
    pub fn commit_transaction(&self) -> (r: JobResult<()>)
        requires
            [C03,C16:autocommit.a_failed_statement_is_never_committed] exists|q: &Runner| #[trigger] succeeded(q),
            [C01:autocommit.commit_record_is_logged_before_the_commit] exists|l: &TransactionLogger| #[trigger] commit_logged(l),
        ensures r is Ok ==> committed(self) { unimplemented!() }
}

// QueryRunner and MultiQueryRunner: one abstract runner
#[verifier::external_body]
pub struct Runner { _p: () }
pub uninterp spec fn succeeded(q: &Runner) -> bool;      // the statement / every statement of the batch ran without error
pub struct QueryRunner { pub r: u8 }
pub struct MultiQueryRunner { pub r: u8 }
impl QueryRunner {
    #[verifier::external_body]
    pub fn new(child: ChildCtx, logger: TransactionLogger) -> Runner { unimplemented!() }
}
impl MultiQueryRunner {
    #[verifier::external_body]
    pub fn new(child: ChildCtx, logger: TransactionLogger) -> Runner { unimplemented!() }
}
impl Runner {
    #[verifier::external_body]
    pub fn prepare_and_run(&self, sql: &Sql) -> (r: JobResult<QueryResult>) ensures r is Ok ==> succeeded(self) { unimplemented!() }
    #[verifier::external_body]
    pub fn execute_all(&self, statements: &Statements) -> (r: JobResult<Vec<QueryResult>>) ensures r is Ok ==> succeeded(self) { unimplemented!() }
}

//@fn crates/axmos-db/src/lib.rs | impl Database | execute
//@ arm /self\.task_runner\.run_with_result\(move \|_ctx\| \{/ => fn execute_job(child: ChildCtx, logger: &TransactionLogger, tx_ctx: &TransactionContext, sql: Sql) -> JobResult<QueryResult>
//@ sub /\.map_err\(box_err\)/ =>
//@ sub /logger\.clone\(\)/ => logger.dup()
//@ ensures
//@   [C01:autocommit.ok_means_committed] r is Ok ==> committed(tx_ctx),
//@end

//@fn crates/axmos-db/src/lib.rs | impl Database | execute_batch
//@ arm /self\.task_runner\.run_with_result\(move \|_ctx\| \{/ => fn execute_batch_job(child: ChildCtx, logger: &TransactionLogger, tx_ctx: &TransactionContext, statements: Statements) -> JobResult<Vec<QueryResult>>
//@ sub /\.map_err\(box_err\)/ =>
//@ sub /logger\.clone\(\)/ => logger.dup()
//@ ensures
//@   [C01,C03:autocommit.batch_ok_means_committed] r is Ok ==> committed(tx_ctx),
//@end

} // verus!
