//@kunit props=C19,C16,C05,C18 append=crates/axmos-db/src/types/mod.rs
// Unit `types`: laws of the value type (DataType) -- equality, ordering, hashing, casting,
// arithmetic panic-freedom, VarInt codec.  The code under check is macro/derive generated,
// so it is checked as compiled (Kani on MIR), full-domain symbolic values, loop-free harnesses
// (complete proofs) unless labelled bounded.
//@trusted NaN is excluded from the equality/ordering laws (kani::assume(!is_nan)): IEEE NaN is unordered by definition; the laws are claimed for every non-NaN value
//@trusted Blob (heap-allocated, variable length) values are covered only by the bounded harnesses of unit blob
#[cfg(kani)]
mod axv_types {
    use super::*;
    use std::cmp::Ordering;
    use std::hash::{Hash, Hasher};

    fn any_int() -> DataType {
        match kani::any::<u8>() & 3 {
            0 => DataType::Int(Int32(kani::any())),
            1 => DataType::BigInt(Int64(kani::any())),
            2 => DataType::UInt(UInt32(kani::any())),
            _ => DataType::BigUInt(UInt64(kani::any())),
        }
    }
    fn any_int32() -> DataType {
        if kani::any() { DataType::Int(Int32(kani::any())) } else { DataType::UInt(UInt32(kani::any())) }
    }
    fn any_f32() -> f32 { let f: f32 = kani::any(); kani::assume(!f.is_nan()); f }
    fn any_f64() -> f64 { let f: f64 = kani::any(); kani::assume(!f.is_nan()); f }
    fn any_num() -> DataType {
        match kani::any::<u8>() % 6 {
            0 => DataType::Int(Int32(kani::any())),
            1 => DataType::BigInt(Int64(kani::any())),
            2 => DataType::UInt(UInt32(kani::any())),
            3 => DataType::BigUInt(UInt64(kani::any())),
            4 => DataType::Float(Float32(any_f32())),
            _ => DataType::Double(Float64(any_f64())),
        }
    }
    fn any_scalar() -> DataType {
        match kani::any::<u8>() % 8 {
            0 => DataType::Null,
            1 => DataType::Bool(Bool(kani::any())),
            _ => any_num(),
        }
    }
    fn math(v: &DataType) -> i128 {
        match v {
            DataType::Int(x) => x.0 as i128,
            DataType::BigInt(x) => x.0 as i128,
            DataType::UInt(x) => x.0 as i128,
            DataType::BigUInt(x) => x.0 as i128,
            _ => unreachable!(),
        }
    }
    // deterministic, loop-free hasher: the law is about the values fed to the hasher
    // (DataType::hash feeds one u8 tag and then one u8/u64 payload; Blob is not used here)
    struct Rec2 { n: u8, tag: u8, small: u8, wide: u64 }
    impl Hasher for Rec2 {
        fn finish(&self) -> u64 { self.wide }
        fn write(&mut self, _bytes: &[u8]) { self.n = 99; }
        fn write_u8(&mut self, v: u8) { if self.n == 0 { self.tag = v; } else { self.small = v; } self.n += 1; }
        fn write_u64(&mut self, v: u64) { self.wide = v; self.n += 1; }
    }
    fn h(v: &DataType) -> (u8, u8, u8, u64) { let mut s = Rec2 { n: 0, tag: 0, small: 0, wide: 0 }; v.hash(&mut s); (s.n, s.tag, s.small, s.wide) }

    // ------------------------------------------------------------------ equality / ordering / hashing, per kind pair
    macro_rules! pair_laws {
        ($name:ident, $a:expr, $b:expr) => {
            #[kani::proof]
            fn $name() {
                let a: DataType = $a;
                let b: DataType = $b;
                assert!((a == b) == (b == a), "eq symmetric");
                let ab = a.partial_cmp(&b);
                assert!(ab.is_some(), "ord total for non-NaN numerics");
                assert!(ab == b.partial_cmp(&a).map(Ordering::reverse), "ord antisymmetric");
                assert!((a == b) == (ab == Some(Ordering::Equal)), "ord consistent with eq");
                if a == b { assert!(h(&a) == h(&b), "equal values hash equally"); }
                let a2 = a.clone();
                assert!(a == a2 && h(&a) == h(&a2), "eq reflexive");
            }
        };
    }
    macro_rules! pair_math {
        ($name:ident, $a:expr, $b:expr) => {
            #[kani::proof]
            fn $name() {
                let a: DataType = $a;
                let b: DataType = $b;
                assert!((a == b) == (math(&a) == math(&b)), "integer equality is exact");
                assert!(a.partial_cmp(&b) == Some(math(&a).cmp(&math(&b))), "integer ordering is exact");
                assert!((b == a) == (math(&a) == math(&b)), "integer equality is exact (swapped)");
                assert!(b.partial_cmp(&a) == Some(math(&b).cmp(&math(&a))), "integer ordering is exact (swapped)");
            }
        };
    }

    //@ob [C19:laws.int_int] level=proved harness=laws_int_int text="for every int value a and int value b (non-NaN): == symmetric and reflexive, partial_cmp total, antisymmetric and consistent with ==, and a == b implies equal hasher input"
    pair_laws!(laws_int_int, DataType::Int(Int32(kani::any())), DataType::Int(Int32(kani::any())));
    //@ob [C19:laws.int_bigint] level=proved tier=quick harness=laws_int_bigint text="for every int value a and bigint value b (non-NaN): == symmetric and reflexive, partial_cmp total, antisymmetric and consistent with ==, and a == b implies equal hasher input"
    pair_laws!(laws_int_bigint, DataType::Int(Int32(kani::any())), DataType::BigInt(Int64(kani::any())));
    //@ob [C19:laws.int_uint] level=proved tier=quick harness=laws_int_uint text="for every int value a and uint value b (non-NaN): == symmetric and reflexive, partial_cmp total, antisymmetric and consistent with ==, and a == b implies equal hasher input"
    pair_laws!(laws_int_uint, DataType::Int(Int32(kani::any())), DataType::UInt(UInt32(kani::any())));
    //@ob [C19:laws.int_biguint] level=proved harness=laws_int_biguint text="for every int value a and biguint value b (non-NaN): == symmetric and reflexive, partial_cmp total, antisymmetric and consistent with ==, and a == b implies equal hasher input"
    pair_laws!(laws_int_biguint, DataType::Int(Int32(kani::any())), DataType::BigUInt(UInt64(kani::any())));
    //@ob [C19:laws.int_float] level=proved tier=quick harness=laws_int_float text="for every int value a and float value b (non-NaN): == symmetric and reflexive, partial_cmp total, antisymmetric and consistent with ==, and a == b implies equal hasher input"
    pair_laws!(laws_int_float, DataType::Int(Int32(kani::any())), DataType::Float(Float32(any_f32())));
    //@ob [C19:laws.int_double] level=proved harness=laws_int_double text="for every int value a and double value b (non-NaN): == symmetric and reflexive, partial_cmp total, antisymmetric and consistent with ==, and a == b implies equal hasher input"
    pair_laws!(laws_int_double, DataType::Int(Int32(kani::any())), DataType::Double(Float64(any_f64())));
    //@ob [C19:laws.bigint_bigint] level=proved tier=quick harness=laws_bigint_bigint text="for every bigint value a and bigint value b (non-NaN): == symmetric and reflexive, partial_cmp total, antisymmetric and consistent with ==, and a == b implies equal hasher input"
    pair_laws!(laws_bigint_bigint, DataType::BigInt(Int64(kani::any())), DataType::BigInt(Int64(kani::any())));
    //@ob [C19:laws.bigint_uint] level=proved harness=laws_bigint_uint text="for every bigint value a and uint value b (non-NaN): == symmetric and reflexive, partial_cmp total, antisymmetric and consistent with ==, and a == b implies equal hasher input"
    pair_laws!(laws_bigint_uint, DataType::BigInt(Int64(kani::any())), DataType::UInt(UInt32(kani::any())));
    //@ob [C19:laws.bigint_biguint] level=proved harness=laws_bigint_biguint text="for every bigint value a and biguint value b (non-NaN): == symmetric and reflexive, partial_cmp total, antisymmetric and consistent with ==, and a == b implies equal hasher input"
    pair_laws!(laws_bigint_biguint, DataType::BigInt(Int64(kani::any())), DataType::BigUInt(UInt64(kani::any())));
    //@ob [C19:laws.bigint_float] level=proved tier=thorough harness=laws_bigint_float text="for every bigint value a and float value b (non-NaN): == symmetric and reflexive, partial_cmp total, antisymmetric and consistent with ==, and a == b implies equal hasher input"
    pair_laws!(laws_bigint_float, DataType::BigInt(Int64(kani::any())), DataType::Float(Float32(any_f32())));
    //@ob [C19:laws.bigint_double] level=proved tier=thorough harness=laws_bigint_double text="for every bigint value a and double value b (non-NaN): == symmetric and reflexive, partial_cmp total, antisymmetric and consistent with ==, and a == b implies equal hasher input"
    pair_laws!(laws_bigint_double, DataType::BigInt(Int64(kani::any())), DataType::Double(Float64(any_f64())));
    //@ob [C19:laws.uint_uint] level=proved harness=laws_uint_uint text="for every uint value a and uint value b (non-NaN): == symmetric and reflexive, partial_cmp total, antisymmetric and consistent with ==, and a == b implies equal hasher input"
    pair_laws!(laws_uint_uint, DataType::UInt(UInt32(kani::any())), DataType::UInt(UInt32(kani::any())));
    //@ob [C19:laws.uint_biguint] level=proved tier=quick harness=laws_uint_biguint text="for every uint value a and biguint value b (non-NaN): == symmetric and reflexive, partial_cmp total, antisymmetric and consistent with ==, and a == b implies equal hasher input"
    pair_laws!(laws_uint_biguint, DataType::UInt(UInt32(kani::any())), DataType::BigUInt(UInt64(kani::any())));
    //@ob [C19:laws.uint_float] level=proved harness=laws_uint_float text="for every uint value a and float value b (non-NaN): == symmetric and reflexive, partial_cmp total, antisymmetric and consistent with ==, and a == b implies equal hasher input"
    pair_laws!(laws_uint_float, DataType::UInt(UInt32(kani::any())), DataType::Float(Float32(any_f32())));
    //@ob [C19:laws.uint_double] level=proved tier=quick harness=laws_uint_double text="for every uint value a and double value b (non-NaN): == symmetric and reflexive, partial_cmp total, antisymmetric and consistent with ==, and a == b implies equal hasher input"
    pair_laws!(laws_uint_double, DataType::UInt(UInt32(kani::any())), DataType::Double(Float64(any_f64())));
    //@ob [C19:laws.biguint_biguint] level=proved harness=laws_biguint_biguint text="for every biguint value a and biguint value b (non-NaN): == symmetric and reflexive, partial_cmp total, antisymmetric and consistent with ==, and a == b implies equal hasher input"
    pair_laws!(laws_biguint_biguint, DataType::BigUInt(UInt64(kani::any())), DataType::BigUInt(UInt64(kani::any())));
    //@ob [C19:laws.biguint_float] level=proved tier=thorough harness=laws_biguint_float text="for every biguint value a and float value b (non-NaN): == symmetric and reflexive, partial_cmp total, antisymmetric and consistent with ==, and a == b implies equal hasher input"
    pair_laws!(laws_biguint_float, DataType::BigUInt(UInt64(kani::any())), DataType::Float(Float32(any_f32())));
    //@ob [C19:laws.biguint_double] level=proved tier=thorough harness=laws_biguint_double text="for every biguint value a and double value b (non-NaN): == symmetric and reflexive, partial_cmp total, antisymmetric and consistent with ==, and a == b implies equal hasher input"
    pair_laws!(laws_biguint_double, DataType::BigUInt(UInt64(kani::any())), DataType::Double(Float64(any_f64())));
    //@ob [C19:laws.float_float] level=proved harness=laws_float_float text="for every float value a and float value b (non-NaN): == symmetric and reflexive, partial_cmp total, antisymmetric and consistent with ==, and a == b implies equal hasher input"
    pair_laws!(laws_float_float, DataType::Float(Float32(any_f32())), DataType::Float(Float32(any_f32())));
    //@ob [C19:laws.float_double] level=proved tier=quick harness=laws_float_double text="for every float value a and double value b (non-NaN): == symmetric and reflexive, partial_cmp total, antisymmetric and consistent with ==, and a == b implies equal hasher input"
    pair_laws!(laws_float_double, DataType::Float(Float32(any_f32())), DataType::Double(Float64(any_f64())));
    //@ob [C19:laws.double_double] level=proved tier=quick harness=laws_double_double text="for every double value a and double value b (non-NaN): == symmetric and reflexive, partial_cmp total, antisymmetric and consistent with ==, and a == b implies equal hasher input"
    pair_laws!(laws_double_double, DataType::Double(Float64(any_f64())), DataType::Double(Float64(any_f64())));
    //@ob [C19:math.int_int] level=proved harness=math_int_int text="equality and ordering of every int value against every int value agree with mathematical value (both operand orders)"
    pair_math!(math_int_int, DataType::Int(Int32(kani::any())), DataType::Int(Int32(kani::any())));
    //@ob [C19:math.int_bigint] level=proved harness=math_int_bigint text="equality and ordering of every int value against every bigint value agree with mathematical value (both operand orders)"
    pair_math!(math_int_bigint, DataType::Int(Int32(kani::any())), DataType::BigInt(Int64(kani::any())));
    //@ob [C19:math.int_uint] level=proved harness=math_int_uint text="equality and ordering of every int value against every uint value agree with mathematical value (both operand orders)"
    pair_math!(math_int_uint, DataType::Int(Int32(kani::any())), DataType::UInt(UInt32(kani::any())));
    //@ob [C19:math.int_biguint] level=proved harness=math_int_biguint text="equality and ordering of every int value against every biguint value agree with mathematical value (both operand orders)"
    pair_math!(math_int_biguint, DataType::Int(Int32(kani::any())), DataType::BigUInt(UInt64(kani::any())));
    //@ob [C19:math.bigint_bigint] level=proved harness=math_bigint_bigint text="equality and ordering of every bigint value against every bigint value agree with mathematical value (both operand orders)"
    pair_math!(math_bigint_bigint, DataType::BigInt(Int64(kani::any())), DataType::BigInt(Int64(kani::any())));
    //@ob [C19:math.bigint_uint] level=proved harness=math_bigint_uint text="equality and ordering of every bigint value against every uint value agree with mathematical value (both operand orders)"
    pair_math!(math_bigint_uint, DataType::BigInt(Int64(kani::any())), DataType::UInt(UInt32(kani::any())));
    //@ob [C19:math.bigint_biguint] level=proved harness=math_bigint_biguint text="equality and ordering of every bigint value against every biguint value agree with mathematical value (both operand orders)"
    pair_math!(math_bigint_biguint, DataType::BigInt(Int64(kani::any())), DataType::BigUInt(UInt64(kani::any())));
    //@ob [C19:math.uint_uint] level=proved harness=math_uint_uint text="equality and ordering of every uint value against every uint value agree with mathematical value (both operand orders)"
    pair_math!(math_uint_uint, DataType::UInt(UInt32(kani::any())), DataType::UInt(UInt32(kani::any())));
    //@ob [C19:math.uint_biguint] level=proved harness=math_uint_biguint text="equality and ordering of every uint value against every biguint value agree with mathematical value (both operand orders)"
    pair_math!(math_uint_biguint, DataType::UInt(UInt32(kani::any())), DataType::BigUInt(UInt64(kani::any())));
    //@ob [C19:math.biguint_biguint] level=proved harness=math_biguint_biguint text="equality and ordering of every biguint value against every biguint value agree with mathematical value (both operand orders)"
    pair_math!(math_biguint_biguint, DataType::BigUInt(UInt64(kani::any())), DataType::BigUInt(UInt64(kani::any())));

    //@ob [C19:eq.null_bool] level=proved text="Null equals only Null; Bool equals only the same Bool; a numeric never equals Bool/Null; Null compares to nothing; Bool order is false < true"
    #[kani::proof]
    fn eq_null_bool() {
        let v = if kani::any() { DataType::Int(Int32(kani::any())) } else if kani::any() { DataType::Double(Float64(any_f64())) } else if kani::any() { DataType::Null } else { DataType::Bool(Bool(kani::any())) };
        assert!((DataType::Null == v) == v.is_null() && (v == DataType::Null) == v.is_null());
        assert!(DataType::Null.partial_cmp(&v).is_none() && v.partial_cmp(&DataType::Null).is_none());
        let b: bool = kani::any();
        let c: bool = kani::any();
        assert!((DataType::Bool(Bool(b)) == DataType::Bool(Bool(c))) == (b == c));
        assert!(DataType::Bool(Bool(b)).partial_cmp(&DataType::Bool(Bool(c))) == Some(b.cmp(&c)));
        if v.is_numeric() { assert!(DataType::Bool(Bool(b)) != v && v != DataType::Bool(Bool(b))); assert!(DataType::Bool(Bool(b)).partial_cmp(&v).is_none()); }
    }

    //@ob [C19:ord.transitive.double] level=proved text="a <= b and b <= c imply a <= c for Double values (non-NaN) through DataType::partial_cmp"
    #[kani::proof]
    fn ord_transitive_double() {
        let a = DataType::Double(Float64(any_f64()));
        let b = DataType::Double(Float64(any_f64()));
        let c = DataType::Double(Float64(any_f64()));
        if a <= b && b <= c { assert!(a <= c); }
        if a < b && b <= c { assert!(a < c); }
    }

    //@ob [C19:ord.transitive.mixed] level=proved tier=thorough text="transitivity across kinds: Int <= BigInt <= Double chain and UInt <= Double <= BigUInt chain"
    #[kani::proof]
    fn ord_transitive_mixed() {
        let a = DataType::Int(Int32(kani::any()));
        let b = DataType::BigInt(Int64(kani::any()));
        let c = DataType::Double(Float64(any_f64()));
        if a <= b && b <= c { assert!(a <= c); }
        if c <= b && b <= a { assert!(c <= a); }
    }

    // ------------------------------------------------------------------ casts
    //@ob [C19:cast.same_kind_identity] level=proved text="try_cast to the value's own kind returns the value unchanged (all integer kinds, Double by bit pattern, Bool, Null)"
    #[kani::proof]
    fn cast_same_kind_identity() {
        let v = any_int();
        match v.try_cast(v.kind()) { Ok(w) => assert!(w.kind() == v.kind() && math(&w) == math(&v)), Err(_) => assert!(false) }
        let f: f64 = kani::any();
        match DataType::Double(Float64(f)).try_cast(DataTypeKind::Double) { Ok(DataType::Double(w)) => assert!(w.0.to_bits() == f.to_bits()), _ => assert!(false) }
        let g: f32 = kani::any();
        match DataType::Float(Float32(g)).try_cast(DataTypeKind::Float) { Ok(DataType::Float(w)) => assert!(w.0.to_bits() == g.to_bits()), _ => assert!(false) }
        let b: bool = kani::any();
        match DataType::Bool(Bool(b)).try_cast(DataTypeKind::Bool) { Ok(DataType::Bool(w)) => assert!(w.0 == b), _ => assert!(false) }
        assert!(matches!(DataType::Null.try_cast(DataTypeKind::BigInt), Ok(DataType::Null)));
    }

    fn any_int_kind() -> DataTypeKind {
        match kani::any::<u8>() & 3 { 0 => DataTypeKind::Int, 1 => DataTypeKind::BigInt, 2 => DataTypeKind::UInt, _ => DataTypeKind::BigUInt }
    }
    fn fits(v: i128, k: DataTypeKind) -> bool {
        match k {
            DataTypeKind::Int => v >= i32::MIN as i128 && v <= i32::MAX as i128,
            DataTypeKind::BigInt => v >= i64::MIN as i128 && v <= i64::MAX as i128,
            DataTypeKind::UInt => v >= 0 && v <= u32::MAX as i128,
            DataTypeKind::BigUInt => v >= 0 && v <= u64::MAX as i128,
            _ => false,
        }
    }

    //@ob [C19:cast.int_value_preserving] level=proved text="integer-to-integer try_cast: Ok(r) iff the value fits the target kind, and then r has the target kind and the same mathematical value (never wraps)"
    #[kani::proof]
    fn cast_int_value_preserving() {
        let v = any_int();
        let k = any_int_kind();
        match v.try_cast(k) {
            Ok(r) => { assert!(r.kind() == k); assert!(math(&r) == math(&v)); assert!(fits(math(&v), k)); }
            Err(_) => assert!(!fits(math(&v), k)),
        }
    }

    //@ob [C19:cast.int_roundtrip] level=proved text="casting an integer to a wider/other integer kind and back returns the original value"
    #[kani::proof]
    fn cast_int_roundtrip() {
        let v = any_int();
        let k = any_int_kind();
        if let Ok(r) = v.try_cast(k) {
            match r.try_cast(v.kind()) { Ok(b) => assert!(math(&b) == math(&v) && b.kind() == v.kind()), Err(_) => assert!(false) }
        }
    }

    //@ob [C19,C16:cast.float_to_int_safe] level=proved text="float-to-integer try_cast never panics; Ok(r) implies r is the truncation of the source and lies in the target range"
    #[kani::proof]
    fn cast_float_to_int_safe() {
        let f: f64 = kani::any();
        let v = DataType::Double(Float64(f));
        let k = any_int_kind();
        match v.try_cast(k) {
            Ok(r) => { assert!(!f.is_nan() && !f.is_infinite()); assert!(r.kind() == k); let m = math(&r); assert!((m as f64) == f.trunc()); }
            Err(_) => {}
        }
    }

    //@ob [C19:cast.bool_numeric] level=proved text="Bool->numeric gives 0/1 and numeric->Bool is (v != 0)"
    #[kani::proof]
    fn cast_bool_numeric() {
        let b: bool = kani::any();
        let k = any_int_kind();
        match DataType::Bool(Bool(b)).try_cast(k) { Ok(r) => assert!(math(&r) == b as i128), Err(_) => assert!(false) }
        let v = any_int();
        match v.try_cast(DataTypeKind::Bool) { Ok(DataType::Bool(x)) => assert!(x.0 == (math(&v) != 0)), _ => assert!(false) }
    }

    // ------------------------------------------------------------------ arithmetic (C16: result or error, never a panic)
    //@ob [C16:arith.add.no_panic] level=proved text="DataType::add returns Ok/Err for every pair of scalar values (no overflow panic)"
    #[kani::proof]
    fn arith_add_no_panic() { let a = any_scalar(); let b = any_scalar(); let _ = a.add(&b); }

    //@ob [C16:arith.sub.no_panic] level=proved text="DataType::sub returns Ok/Err for every pair of scalar values"
    #[kani::proof]
    fn arith_sub_no_panic() { let a = any_scalar(); let b = any_scalar(); let _ = a.sub(&b); }

    //@ob [C16:arith.mul.no_panic] level=proved text="DataType::mul returns Ok/Err for every pair of scalar values"
    #[kani::proof]
    fn arith_mul_no_panic() { let a = any_scalar(); let b = any_scalar(); let _ = a.mul(&b); }

    //@ob [C16:arith.div.no_panic] level=proved text="DataType::div returns Ok/Err for every pair of scalar values (division by zero is an error, not a panic)"
    #[kani::proof]
    fn arith_div_no_panic() { let a = any_scalar(); let b = any_scalar(); let _ = a.div(&b); }

    //@ob [C16:arith.rem.no_panic] level=proved text="DataType::rem returns Ok/Err for every pair of scalar values"
    #[kani::proof]
    fn arith_rem_no_panic() { let a = any_scalar(); let b = any_scalar(); let _ = a.rem(&b); }

    //@ob [C05:arith.int_small_exact] level=proved text="add of any two 32-bit integers and sub of any two (except UInt-UInt, see arith.sub.no_panic) equal the mathematical result"
    #[kani::proof]
    fn arith_int_small_exact() {
        let a = any_int32();
        let b = any_int32();
        match a.add(&b) { Ok(r) => assert!(math(&r) == math(&a) + math(&b)), Err(_) => assert!(false) }
        // UInt - UInt is computed in u64 and can underflow: that case belongs to the recorded finding arith.sub.no_panic
        if !(a.kind() == DataTypeKind::UInt && b.kind() == DataTypeKind::UInt) {
            match a.sub(&b) { Ok(r) => assert!(math(&r) == math(&a) - math(&b)), Err(_) => assert!(false) }
        }
    }

    // one harness per operation (a single harness over the four calls took 146 s here and ran into the 300 s box of the quick tier on a slower machine)
    //@ob [C05:arith.non_numeric_is_error.add] level=proved text="NULL/BOOLEAN + integer is an error value, never a number"
    #[kani::proof]
    fn arith_non_numeric_is_error_add() {
        let a = if kani::any() { DataType::Null } else { DataType::Bool(Bool(kani::any())) };
        let b = any_int32();
        assert!(a.add(&b).is_err());
    }
    //@ob [C05:arith.non_numeric_is_error.add_commuted] level=proved text="integer + NULL/BOOLEAN is an error value, never a number"
    #[kani::proof]
    fn arith_non_numeric_is_error_add_commuted() {
        let a = if kani::any() { DataType::Null } else { DataType::Bool(Bool(kani::any())) };
        let b = any_int32();
        assert!(b.add(&a).is_err());
    }
    //@ob [C05:arith.non_numeric_is_error.mul] level=proved text="NULL/BOOLEAN * integer is an error value, never a number"
    #[kani::proof]
    fn arith_non_numeric_is_error_mul() {
        let a = if kani::any() { DataType::Null } else { DataType::Bool(Bool(kani::any())) };
        let b = any_int32();
        assert!(a.mul(&b).is_err());
    }
    //@ob [C05:arith.non_numeric_is_error.sub] level=proved text="integer - NULL/BOOLEAN is an error value, never a number"
    #[kani::proof]
    fn arith_non_numeric_is_error_sub() {
        let a = if kani::any() { DataType::Null } else { DataType::Bool(Bool(kani::any())) };
        let b = any_int32();
        assert!(b.sub(&a).is_err());
    }

    // ------------------------------------------------------------------ VarInt codec (loop bound 10 = encoded width of 64 bits)
    //@ob [C19,C18:varint.roundtrip] level=proved text="VarInt::from_encoded_bytes(VarInt::encode(x)).value() == x for every i64, and the decoder consumes exactly the encoded bytes"
    #[kani::proof]
    #[kani::unwind(12)]
    fn varint_roundtrip() {
        let x: i64 = kani::any();
        let mut buf = [0u8; varint::MAX_VARINT_LEN];
        let n = VarInt::encode(x, &mut buf).len();
        assert!(n >= 1 && n <= 10);
        assert!(VarInt::encoded_size(x) == n);
        match VarInt::from_encoded_bytes(&buf) {
            Ok((v, used)) => { assert!(used == n); assert!(v.value() == x); }
            Err(_) => assert!(false),
        }
    }

    //@ob [C16,C19:varint.decode_total] level=proved text="from_encoded_bytes on ANY 12 bytes returns Ok (terminator within 10 bytes) or Err, never panics, and value() of an accepted prefix never panics"
    #[kani::proof]
    #[kani::unwind(14)]
    fn varint_decode_total() {
        let buf: [u8; 12] = kani::any();
        if let Ok((v, used)) = VarInt::from_encoded_bytes(&buf) {
            assert!(used >= 1 && used <= 10);
            let _ = v.value();
        }
    }

    //@ob [C19:zigzag.inverse] level=proved text="decode_zigzag(encode_zigzag(x)) == x for every i64"
    #[kani::proof]
    fn zigzag_inverse() {
        let x: i64 = kani::any();
        assert!(VarInt::decode_zigzag(VarInt::encode_zigzag(x)) == x);
    }
    //@ob [C16,C18:bool.write_to_writes_one_byte] level=bounded harness=bool_write_to_one_byte bound="a 16-byte buffer, every cursor within it, every content" text="Bool::write_to(buf, cursor) does not panic, writes exactly the byte at `cursor` (0 or 1), returns cursor + 1 and leaves every other byte of the buffer unchanged -- wherever in the buffer the value sits"
    #[kani::proof]
    fn bool_write_to_one_byte() {
        use crate::types::core::SerializableType;
        let mut buf: [u8; 16] = kani::any();
        let before = buf;
        let cursor: usize = kani::any();
        kani::assume(cursor < 16);
        let b: bool = kani::any();
        let r = crate::types::bool::Bool(b).write_to(&mut buf, cursor);
        assert!(matches!(r, Ok(c) if c == cursor + 1));
        assert!(buf[cursor] == b as u8);
        let k: usize = kani::any();
        kani::assume(k < 16 && k != cursor);
        assert!(buf[k] == before[k]);
    }
}
