//@kunit props=C12,C16 append=crates/axmos-db/src/common/mod.rs
// Unit `config`: DBConfig clamping (C12: every accepted configuration lies in the documented ranges).
#[cfg(kani)]
mod axv_config {
    use super::*;

    //@ob [C12:config.new.page_size_in_range] level=proved text="DBConfig::new: for every requested page size the stored page size is a power of two in [4096, 65536], not smaller than the request when the request is in range, and the other fields are stored as given"
    #[kani::proof]
    fn config_new_page_size_in_range() {
        let ps: usize = kani::any();
        kani::assume(ps <= (1usize << 40));
        let (a, b, c, d): (usize, usize, usize, usize) = (kani::any(), kani::any(), kani::any(), kani::any());
        let cfg = DBConfig::new(ps, a, b, c, d);
        assert!(cfg.page_size >= MIN_PAGE_SIZE && cfg.page_size <= MAX_PAGE_SIZE);
        assert!(cfg.page_size.is_power_of_two());
        if ps >= MIN_PAGE_SIZE && ps <= MAX_PAGE_SIZE { assert!(cfg.page_size >= ps && cfg.page_size < 2 * ps); }
        assert!(cfg.cache_size == a && cfg.pool_size == b && cfg.min_keys_per_page == c && cfg.num_siblings_per_side == d);
    }

    //@ob [C12,C16:config.new.total] level=proved text="DBConfig::new returns (never panics) for EVERY usize page size"
    #[kani::proof]
    fn config_new_total() {
        let ps: usize = kani::any();
        let cfg = DBConfig::new(ps, 1, 1, 3, 1);
        assert!(cfg.page_size >= MIN_PAGE_SIZE && cfg.page_size <= MAX_PAGE_SIZE, "page size in range");
    }

    //@ob [C12:config.builder.clamps] level=proved text="DBConfigBuilder: page size clamped to a power of two in [4096,65536]; pool size >= 1; min keys >= 2; other setters store the value"
    #[kani::proof]
    fn config_builder_clamps() {
        let ps: usize = kani::any();
        kani::assume(ps <= (1usize << 40));
        let (a, b, c, d): (usize, usize, usize, usize) = (kani::any(), kani::any(), kani::any(), kani::any());
        let cfg = DBConfigBuilder { config: DBConfig { page_size: 4096, cache_size: 1, pool_size: 1, num_siblings_per_side: 1, min_keys_per_page: 3 } }
            .page_size(ps).cache_size(a).pool_size(b).min_keys_per_page(c).num_siblings_per_side(d).build();
        assert!(cfg.page_size >= MIN_PAGE_SIZE && cfg.page_size <= MAX_PAGE_SIZE && cfg.page_size.is_power_of_two());
        assert!(cfg.cache_size == a && cfg.pool_size == if b == 0 { 1 } else { b });
        assert!(cfg.min_keys_per_page == if c < 2 { 2 } else { c } && cfg.num_siblings_per_side == d);
    }
}
