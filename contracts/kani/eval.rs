//@kunit props=C05,C16 append=crates/axmos-db/src/runtime/eval.rs
// Unit `eval`: the expression evaluator's operator arms against SQL three-valued logic.
// Children are Literals carrying arbitrary values, so every arm is checked against arbitrary
// child results; the induction over expression depth is structural (evaluate() recurses on
// children and combines their values with these arms) and is stated, not machine-checked.
//@trusted std::hash::RandomState::new is stubbed with a fixed state (hash seeds do not influence any asserted result: set membership only)
//@trusted in the evaluate()-level harnesses the scalar-function callees (Abs..Length::call) and string_like/string_concat are stubbed out (kani::stub): those arms are not reachable from the expressions the harnesses build
//@trusted induction over expression depth: evaluate(e) for a compound e depends on its children only through their evaluated values
#[cfg(kani)]
mod axv_eval {
    use super::*;
    use crate::types::{Float64, Int32, Int64, UInt32, UInt64};
    use std::collections::HashMap;

    fn fixed_state() -> std::hash::RandomState {
        unsafe { std::mem::transmute::<(u64, u64), std::hash::RandomState>((7, 11)) }
    }

    fn empty_schema() -> Schema {
        Schema { columns: Vec::new(), num_keys: 0, table_constraints: None, column_index: HashMap::new(), table_indexes: None }
    }


    // evaluate() reaches the scalar-function and string arms only for Function / Like / Concat
    // expressions; the harnesses below never build those, so these callees are cut off to keep the
    // formula small (they are not under contract anywhere in this unit).
    fn cut_call(_args: Vec<DataType>) -> EvaluationResult<DataType> { Err(EvaluationError::InvalidExpression(String::new())) }
    struct Cut<'a>(&'a ());
    impl<'a> Cut<'a> {
        fn cut_str2(_a: &DataType, _b: &DataType) -> TypeSystemResult<DataType> { Err(TypeSystemError::UnexpectedDataType(DataTypeKind::Null)) }
        fn cut_like(_a: &DataType, _b: &DataType, _n: bool) -> TypeSystemResult<DataType> { Err(TypeSystemError::UnexpectedDataType(DataTypeKind::Null)) }
    }

    fn tri() -> DataType {
        match kani::any::<u8>() % 3 { 0 => DataType::Null, 1 => DataType::Bool(Bool(true)), _ => DataType::Bool(Bool(false)) }
    }
    // Kleene logic on Option<bool> (None = NULL)
    fn tv(v: &DataType) -> Option<bool> { match v { DataType::Bool(Bool(b)) => Some(*b), _ => None } }
    fn k_and(a: Option<bool>, b: Option<bool>) -> Option<bool> {
        match (a, b) { (Some(false), _) | (_, Some(false)) => Some(false), (Some(true), Some(true)) => Some(true), _ => None }
    }
    fn k_or(a: Option<bool>, b: Option<bool>) -> Option<bool> {
        match (a, b) { (Some(true), _) | (_, Some(true)) => Some(true), (Some(false), Some(false)) => Some(false), _ => None }
    }
    fn same_tv(r: &DataType, want: Option<bool>) -> bool {
        match (r, want) { (DataType::Null, None) => true, (DataType::Bool(Bool(b)), Some(w)) => *b == w, _ => false }
    }
    fn lit(v: DataType) -> Box<BoundExpression> { Box::new(BoundExpression::Literal { value: v }) }
    fn any_int() -> DataType { DataType::Int(Int32(kani::any())) }

    //@ob [C05:and.kleene] level=proved tier=thorough text="AND over {TRUE,FALSE,NULL}^2 equals Kleene conjunction (9 cases, symbolic)"
    #[kani::proof]
    #[kani::stub(std::hash::RandomState::new, fixed_state)]
    #[kani::unwind(4)]
    fn and_kleene() {
        let row = Row::new_empty();
        let schema = empty_schema();
        let ev = ExpressionEvaluator::new(&row, &schema);
        let l = tri();
        let r = tri();
        let want = k_and(tv(&l), tv(&r));
        match ev.eval_binary_op(vec![l], vec![r], BinaryOperator::And, Some(DataTypeKind::Bool)) {
            Ok(v) => assert!(v.len() == 1 && same_tv(&v[0], want)),
            Err(_) => assert!(false),
        }
    }

    //@ob [C05:or.kleene] level=proved tier=thorough text="OR over {TRUE,FALSE,NULL}^2 equals Kleene disjunction"
    #[kani::proof]
    #[kani::stub(std::hash::RandomState::new, fixed_state)]
    #[kani::unwind(4)]
    fn or_kleene() {
        let row = Row::new_empty();
        let schema = empty_schema();
        let ev = ExpressionEvaluator::new(&row, &schema);
        let l = tri();
        let r = tri();
        let want = k_or(tv(&l), tv(&r));
        match ev.eval_binary_op(vec![l], vec![r], BinaryOperator::Or, Some(DataTypeKind::Bool)) {
            Ok(v) => assert!(v.len() == 1 && same_tv(&v[0], want)),
            Err(_) => assert!(false),
        }
    }

    //@ob [C05:not.kleene] level=proved text="NOT over {TRUE,FALSE,NULL} equals Kleene negation"
    #[kani::proof]
    #[kani::stub(std::hash::RandomState::new, fixed_state)]
    #[kani::unwind(4)]
    fn not_kleene() {
        let row = Row::new_empty();
        let schema = empty_schema();
        let ev = ExpressionEvaluator::new(&row, &schema);
        let v = tri();
        let want = tv(&v).map(|b| !b);
        match ev.eval_unary_op(v, UnaryOperator::Not, Some(DataTypeKind::Bool)) {
            Ok(r) => assert!(same_tv(&r, want)),
            Err(_) => assert!(false),
        }
    }

    macro_rules! cmp_int {
        ($name:ident, $op:expr, $f:expr) => {
            #[kani::proof]
            #[kani::stub(std::hash::RandomState::new, fixed_state)]
            #[kani::unwind(4)]
            fn $name() {
                let row = Row::new_empty();
                let schema = empty_schema();
                let ev = ExpressionEvaluator::new(&row, &schema);
                let a: i32 = kani::any();
                let b: i32 = kani::any();
                let want: bool = ($f)(a, b);
                match ev.eval_binary_op(vec![DataType::Int(Int32(a))], vec![DataType::Int(Int32(b))], $op, Some(DataTypeKind::Bool)) {
                    Ok(v) => assert!(v.len() == 1 && same_tv(&v[0], Some(want))),
                    Err(_) => assert!(false),
                }
            }
        };
    }
    //@ob [C05:cmp.eq] level=proved harness=cmp_eq text="a = b on INT values agrees with integer equality"
    cmp_int!(cmp_eq, BinaryOperator::Eq, |a: i32, b: i32| a == b);
    //@ob [C05:cmp.neq] level=proved harness=cmp_neq text="a <> b on INT values agrees with integer inequality"
    cmp_int!(cmp_neq, BinaryOperator::Neq, |a: i32, b: i32| a != b);
    //@ob [C05:cmp.lt] level=proved harness=cmp_lt text="a < b on INT values agrees with integer order"
    cmp_int!(cmp_lt, BinaryOperator::Lt, |a: i32, b: i32| a < b);
    //@ob [C05:cmp.le] level=proved harness=cmp_le text="a <= b on INT values agrees with integer order"
    cmp_int!(cmp_le, BinaryOperator::Le, |a: i32, b: i32| a <= b);
    //@ob [C05:cmp.gt] level=proved harness=cmp_gt text="a > b on INT values agrees with integer order"
    cmp_int!(cmp_gt, BinaryOperator::Gt, |a: i32, b: i32| a > b);
    //@ob [C05:cmp.ge] level=proved harness=cmp_ge text="a >= b on INT values agrees with integer order"
    cmp_int!(cmp_ge, BinaryOperator::Ge, |a: i32, b: i32| a >= b);

    //@ob [C05,C16:neg.matches_math] level=proved text="unary minus on INT/BIGINT returns the mathematical negation or an error, never panics (i64::MIN, i32::MIN)"
    #[kani::proof]
    #[kani::stub(std::hash::RandomState::new, fixed_state)]
    #[kani::unwind(4)]
    fn neg_matches_math() {
        let row = Row::new_empty();
        let schema = empty_schema();
        let ev = ExpressionEvaluator::new(&row, &schema);
        let x: i64 = kani::any();
        match ev.eval_unary_op(DataType::BigInt(Int64(x)), UnaryOperator::Minus, None) {
            Ok(DataType::BigInt(r)) => assert!(r.0 as i128 == -(x as i128)),
            Ok(_) => assert!(false),
            Err(_) => assert!(x == i64::MIN),
        }
        let y: i32 = kani::any();
        match ev.eval_unary_op(DataType::Int(Int32(y)), UnaryOperator::Minus, None) {
            Ok(DataType::Int(r)) => assert!(r.0 as i64 == -(y as i64)),
            Ok(_) => assert!(false),
            Err(_) => assert!(y == i32::MIN),
        }
    }

    //@ob [C05,C16:column.bounds] level=proved text="a column binding beyond the row width is an error (never a panic); inside, it returns that column's value"
    #[kani::proof]
    #[kani::stub(std::hash::RandomState::new, fixed_state)]
    #[kani::unwind(5)]
    fn column_bounds() {
        let a: i32 = kani::any();
        let b: i32 = kani::any();
        let row = Row::from(vec![DataType::Int(Int32(a)), DataType::Int(Int32(b))]);
        let schema = empty_schema();
        let ev = ExpressionEvaluator::new(&row, &schema);
        let idx: usize = kani::any();
        kani::assume(idx <= 4);
        let bind = Binding { table_id: None, scope_index: 0, column_idx: idx, data_type: DataTypeKind::Int };
        match ev.eval_column(bind) {
            Ok(DataType::Int(v)) => assert!(idx < 2 && v.0 == if idx == 0 { a } else { b }),
            Ok(_) => assert!(false),
            Err(_) => assert!(idx >= 2),
        }
    }
}
