//@kunit props=C05,C19 append=crates/axmos-db/src/runtime/ops/sort.rs
// Unit `sortcmp`: the ORDER BY comparator (C05: ORDER BY computes what it says; C19: the order rows
// come back under ORDER BY is consistent with value order).  slice::sort_by needs a consistent
// total preorder: antisymmetry and transitivity are checked for one sort key with every
// direction / NULL placement and every INT / NULL value.
//@trusted std::hash::RandomState::new stubbed with a fixed state (an empty Schema is built; never consulted by compare_keys)
//@trusted slice::sort_by produces a permutation sorted w.r.t. the comparator when the comparator is a total preorder (std)
#[cfg(kani)]
mod axv_sortcmp {
    use super::*;
    use crate::sql::binder::bounds::BoundExpression;
    use crate::types::Int32;
    use std::collections::HashMap;
    use std::mem::ManuallyDrop;

    fn fixed_state() -> std::hash::RandomState {
        unsafe { std::mem::transmute::<(u64, u64), std::hash::RandomState>((7, 11)) }
    }
    struct NoRows;
    impl Executor for NoRows {
        fn open(&mut self) -> RuntimeResult<()> { Ok(()) }
        fn next(&mut self) -> RuntimeResult<Option<Row>> { Ok(None) }
        fn close(&mut self) -> RuntimeResult<()> { Ok(()) }
    }
    fn sorter(asc: bool, nulls_first: bool) -> ManuallyDrop<QuickSort<NoRows>> {
        ManuallyDrop::new(QuickSort {
            output_schema: Schema { columns: Vec::new(), num_keys: 0, table_constraints: None, column_index: HashMap::new(), table_indexes: None },
            sort_exprs: vec![SortExpr { expr: BoundExpression::Literal { value: DataType::Null }, asc, nulls_first }],
            child: NoRows,
            buffer: Vec::new(),
            current_idx: 0,
            stats: ExecutionStats::default(),
        })
    }
    fn any_val() -> DataType { if kani::any() { DataType::Null } else { DataType::Int(Int32(kani::any())) } }

    //@ob [C05,C19:sort.comparator_antisymmetric] level=proved text="ORDER BY comparator (one key, any direction, any NULL placement): compare(a,b) is the reverse of compare(b,a) for every pair of INT/NULL values; equal only for equal values"
    #[kani::proof]
    #[kani::stub(std::hash::RandomState::new, fixed_state)]
    #[kani::unwind(3)]
    fn sort_comparator_antisymmetric() {
        let s = sorter(kani::any(), kani::any());
        let a = ManuallyDrop::new([any_val()]);
        let b = ManuallyDrop::new([any_val()]);
        let ab = s.compare_keys(&*a, &*b);
        let ba = s.compare_keys(&*b, &*a);
        assert!(ab == ba.reverse(), "comparator antisymmetric");
        let same = match (&a[0], &b[0]) { (DataType::Null, DataType::Null) => true, (DataType::Int(x), DataType::Int(y)) => x.0 == y.0, _ => false };
        assert!((ab == Ordering::Equal) == same);
    }

    //@ob [C05,C19:sort.comparator_transitive] level=proved tier=thorough text="ORDER BY comparator (one key): a <= b and b <= c imply a <= c for every triple of INT/NULL values, every direction and NULL placement"
    #[kani::proof]
    #[kani::stub(std::hash::RandomState::new, fixed_state)]
    #[kani::unwind(3)]
    fn sort_comparator_transitive() {
        let s = sorter(kani::any(), kani::any());
        let a = ManuallyDrop::new([any_val()]);
        let b = ManuallyDrop::new([any_val()]);
        let c = ManuallyDrop::new([any_val()]);
        let ab = s.compare_keys(&*a, &*b);
        let bc = s.compare_keys(&*b, &*c);
        let ac = s.compare_keys(&*a, &*c);
        if ab != Ordering::Greater && bc != Ordering::Greater { assert!(ac != Ordering::Greater, "comparator transitive"); }
    }

    //@ob [C05:sort.direction_and_values] level=proved text="for non-NULL INT keys the comparator is integer order when ascending and its reverse when descending"
    #[kani::proof]
    #[kani::stub(std::hash::RandomState::new, fixed_state)]
    #[kani::unwind(3)]
    fn sort_direction_and_values() {
        let asc: bool = kani::any();
        let s = sorter(asc, kani::any());
        let x: i32 = kani::any();
        let y: i32 = kani::any();
        let a = ManuallyDrop::new([DataType::Int(Int32(x))]);
        let b = ManuallyDrop::new([DataType::Int(Int32(y))]);
        let r = s.compare_keys(&*a, &*b);
        assert!(r == if asc { x.cmp(&y) } else { y.cmp(&x) });
    }
}
