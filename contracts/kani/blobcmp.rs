//@kunit props=C19 append=crates/axmos-db/src/types/blob.rs
// Unit `blobcmp`: ordering of text/blob values (C19: ordering within a type is a total order
// consistent with equality and with the bytewise order index trees use).  Bounded by length.
#[cfg(kani)]
mod axv_blobcmp {
    use super::*;

    fn lex(a: &[u8], b: &[u8]) -> Ordering {
        let mut i = 0;
        while i < a.len() && i < b.len() {
            if a[i] < b[i] { return Ordering::Less; }
            if a[i] > b[i] { return Ordering::Greater; }
            i += 1;
        }
        a.len().cmp(&b.len())
    }

    macro_rules! blob_order {
        ($name:ident, $la:expr, $lb:expr) => {
            #[kani::proof]
            #[kani::unwind(13)]
            fn $name() {
                let a: [u8; $la] = kani::any();
                let b: [u8; $lb] = kani::any();
                // encoded form: one-byte VarInt (zigzag) length prefix, then the payload
                let mut ea = [0u8; $la + 1];
                let mut eb = [0u8; $lb + 1];
                ea[0] = (2 * $la) as u8;
                eb[0] = (2 * $lb) as u8;
                let mut i = 0; while i < $la { ea[i + 1] = a[i]; i += 1; }
                let mut j = 0; while j < $lb { eb[j + 1] = b[j]; j += 1; }
                let x = BlobRef::from(&ea[..]);
                let y = BlobRef::from(&eb[..]);
                let want = lex(&a, &b);
                assert!(x.partial_cmp(&y) == Some(want), "blob order is bytewise");
                assert!((x == y) == (want == Ordering::Equal));
            }
        };
    }
    //@ob [C19:blob.order_bytewise.chunked] level=bounded harness=blob_order_9_10 bound="payload lengths 9 and 10 (8-byte chunk path plus tail), every byte content" text="BlobRef::partial_cmp equals bytewise lexicographic order of the payloads, and == agrees with it"
    blob_order!(blob_order_9_10, 9, 10);
    //@ob [C19:blob.order_bytewise.small] level=bounded harness=blob_order_2_3 bound="payload lengths 2 and 3 (byte-by-byte path), every byte content" text="BlobRef::partial_cmp equals bytewise lexicographic order of the payloads, and == agrees with it"
    blob_order!(blob_order_2_3, 2, 3);
    //@ob [C19:blob.order_bytewise.equal_len] level=bounded harness=blob_order_9_9 bound="payload lengths 9 and 9, every byte content" text="BlobRef::partial_cmp equals bytewise lexicographic order of the payloads, and == agrees with it"
    blob_order!(blob_order_9_9, 9, 9);
}
