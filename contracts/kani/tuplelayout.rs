//@kunit props=C18,C04,C03 append=crates/axmos-db/src/storage/tuple.rs
// Unit `tuplelayout`: the arithmetic the row codec rests on -- NULL-bitmap addressing, alignment,
// header encoding of creator/deleter ids.  Real code, full-domain symbolic inputs, loop-free.
//@trusted transaction ids are below 2^63 (TupleHeader stores the deleter id as i64 with -1 for "none"; ids are issued from 0 upwards by one)
#[cfg(kani)]
mod axv_tuplelayout {
    use super::*;

    //@ob [C18:nullbit.inverse] level=proved text="check_null reads back exactly what set_null_bit wrote, for every value index within a 16-byte bitmap, and leaves every other bit unchanged"
    #[kani::proof]
    fn nullbit_inverse() {
        let mut bm: [u8; 16] = kani::any();
        let before = bm;
        let idx: usize = kani::any();
        kani::assume(idx < 128);
        let other: usize = kani::any();
        kani::assume(other < 128 && other != idx);
        let flag: bool = kani::any();
        let was_other = TupleReader::check_null(&before, other);
        TupleBuilder::set_null_bit(&mut bm, idx, flag);
        assert!(TupleReader::check_null(&bm, idx) == flag);
        assert!(TupleReader::check_null(&bm, other) == was_other);
    }

    //@ob [C18:nullbitmap.size] level=proved text="null_bitmap_size(n) is the smallest byte count holding n bits, so every value index has a bit"
    #[kani::proof]
    fn nullbitmap_size() {
        let n: usize = kani::any();
        kani::assume(n <= 1 << 20);
        let s = null_bitmap_size(n);
        assert!(s * 8 >= n && (s == 0 || (s - 1) * 8 < n));
        let idx: usize = kani::any();
        if idx < n { assert!(idx / 8 < s); }
    }

    //@ob [C18:align.offset] level=proved text="aligned_offset(o, a) for a power of two a: result is the smallest multiple of a that is >= o"
    #[kani::proof]
    fn align_offset() {
        let o: usize = kani::any();
        kani::assume(o <= 1 << 40);
        let sh: u32 = kani::any();
        kani::assume(sh <= 6);
        let a = 1usize << sh;
        let r = aligned_offset(o, a);
        assert!(r >= o && r - o < a && r % a == 0);
    }

    //@ob [C18,C04:header.xmax_roundtrip] level=proved text="TupleHeader::new(v, xmin, xmax).xmax() == xmax and .xmin() == xmin and .version() == v for every id below 2^63 (and None)"
    #[kani::proof]
    fn header_xmax_roundtrip() {
        let v: u8 = kani::any();
        let xmin: u64 = kani::any();
        let xmax: Option<u64> = if kani::any() { let x: u64 = kani::any(); kani::assume(x < (1u64 << 63)); Some(x) } else { None };
        let h = TupleHeader::new(v, xmin, xmax);
        assert!(h.xmax() == xmax && h.xmin() == xmin && h.version() == v);
    }

    //@ob [C18:keys_offset.after_bitmap] level=proved text="keys start right after the header and the NULL bitmap"
    #[kani::proof]
    fn keys_offset_after_bitmap() {
        let n: usize = kani::any();
        kani::assume(n <= 1 << 20);
        assert!(Tuple::keys_offset(n) == TupleHeader::SIZE + null_bitmap_size(n));
    }

    //@ob [C03,C18,C04:tuple.delete_stamps_deleter] level=proved text="Tuple::delete(xid) on a live row stores exactly xid as the deleter and changes nothing else (creator id, version, 16 payload bytes); on an already deleted row it changes nothing; for every creator/deleter id below 2^63 and every payload"
    #[kani::proof]
    #[kani::unwind(3)]
    fn tuple_delete_stamps_deleter() {
        let mut data = Payload::alloc_aligned(TupleHeader::SIZE + 16).unwrap();
        let xmin: u64 = kani::any();
        let old_xmax: Option<u64> = if kani::any() { let x: u64 = kani::any(); kani::assume(x < (1u64 << 63)); Some(x) } else { None };
        let ver: u8 = kani::any();
        let body: [u8; 16] = kani::any();
        {
            let buf = data.effective_data_mut();
            TupleHeader::new(ver, xmin, old_xmax).write_to(buf, 0);
            buf[TupleHeader::SIZE..TupleHeader::SIZE + 16].copy_from_slice(&body);
        }
        let mut t = Tuple { data };
        let xid: u64 = kani::any();
        kani::assume(xid < (1u64 << 63));
        assert!(t.delete(xid).is_ok());
        assert!(t.xmin() == xmin && t.version() == ver);
        assert!(t.xmax() == if old_xmax.is_some() { old_xmax } else { Some(xid) });
        let after = t.effective_data();
        assert!(after[TupleHeader::SIZE] == body[0] && after[TupleHeader::SIZE + 7] == body[7] && after[TupleHeader::SIZE + 15] == body[15]);
        let k: usize = kani::any();
        kani::assume(k < 16);
        assert!(after[TupleHeader::SIZE + k] == body[k]);
    }
    //@ob [C03,C18:tuple.clear_delete_mark_only_clears_the_mark] level=proved text="Tuple::clear_delete_mark removes the deleter id and changes nothing else (creator id, version, 16 payload bytes), for every header and payload; a later delete(xid) then stamps xid"
    #[kani::proof]
    #[kani::unwind(3)]
    fn tuple_clear_delete_mark() {
        let mut data = Payload::alloc_aligned(TupleHeader::SIZE + 16).unwrap();
        let xmin: u64 = kani::any();
        let old_xmax: Option<u64> = if kani::any() { let x: u64 = kani::any(); kani::assume(x < (1u64 << 63)); Some(x) } else { None };
        let ver: u8 = kani::any();
        let body: [u8; 16] = kani::any();
        {
            let buf = data.effective_data_mut();
            TupleHeader::new(ver, xmin, old_xmax).write_to(buf, 0);
            buf[TupleHeader::SIZE..TupleHeader::SIZE + 16].copy_from_slice(&body);
        }
        let mut t = Tuple { data };
        assert!(t.clear_delete_mark().is_ok());
        assert!(t.xmin() == xmin && t.version() == ver && t.xmax().is_none());
        let xid: u64 = kani::any();
        kani::assume(xid < (1u64 << 63));
        assert!(t.delete(xid).is_ok());
        assert!(t.xmax() == Some(xid));
        let k: usize = kani::any();
        kani::assume(k < 16);
        assert!(t.effective_data()[TupleHeader::SIZE + k] == body[k]);
    }
}
