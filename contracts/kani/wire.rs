//@kunit props=C20,C16 append=crates/axmos-db/src/tcp/mod.rs
// Unit `wire`: request/response codec and framing (C20).  Fixed-size frames are checked
// completely (every field value); string-carrying frames and arbitrary-byte decoding are bounded
// by a stated length.
//@trusted alloc::fmt::format is stubbed (error-message text is not part of any obligation)
//@trusted String::from_utf8_lossy is the identity on valid UTF-8 (std); strings in the bounded harnesses are ASCII
#[cfg(kani)]
mod axv_wire {
    use super::*;

    fn cut_format(_a: std::fmt::Arguments<'_>) -> String { String::new() }

    //@ob [C20:status.total_inverse] level=proved text="StatusCode::try_from is the inverse of `as u8` on the 12 codes and an error on every other byte"
    #[kani::proof]
    fn status_total_inverse() {
        let b: u8 = kani::any();
        match StatusCode::try_from(b) {
            Ok(s) => assert!(s as u8 == b && b <= 0x0B),
            Err(TcpError::UnknownStatus(x)) => assert!(x == b && b > 0x0B),
            Err(_) => assert!(false),
        }
    }


    //@ob [C20:request.unit_codes] level=proved text="for every command byte c, Request::from_bytes([version, c]) is the unit request with that code (Close/Ping/Vacuum/Begin/Commit/Rollback/Shutdown), an error for payload-carrying codes without payload, and UnknownCommand otherwise; a wrong version byte is always an error"
    #[kani::proof]
    #[kani::stub(alloc::fmt::format, cut_format)]
    #[kani::unwind(3)]
    fn request_unit_codes() {
        let c: u8 = kani::any();
        let v: u8 = kani::any();
        let buf = [v, c];
        let r = Request::from_bytes(&buf);
        if v != PROTOCOL_VERSION { assert!(r.is_err()); return; }
        match c {
            0x06 => assert!(matches!(r, Ok(Request::Close))),
            0x07 => assert!(matches!(r, Ok(Request::Ping))),
            0x09 => assert!(matches!(r, Ok(Request::Vacuum))),
            0x0A => assert!(matches!(r, Ok(Request::Begin))),
            0x0B => assert!(matches!(r, Ok(Request::Commit))),
            0x0C => assert!(matches!(r, Ok(Request::Rollback))),
            0xFF => assert!(matches!(r, Ok(Request::Shutdown))),
            0x01..=0x05 => assert!(r.is_err()),
            _ => assert!(matches!(r, Err(TcpError::UnknownCommand(x)) if x == c)),
        }
    }

    //@ob [C20:response.unit_codes] level=proved text="for every status byte s, Response::from_bytes([version, s]) is the unit response with that code (Pong/Goodbye/ShuttingDown/SessionStarted/SessionEnd), an error for payload-carrying codes without payload and for unknown codes"
    #[kani::proof]
    #[kani::stub(alloc::fmt::format, cut_format)]
    #[kani::unwind(3)]
    fn response_unit_codes() {
        let c: u8 = kani::any();
        let v: u8 = kani::any();
        let buf = [v, c];
        let r = Response::from_bytes(&buf);
        if v != PROTOCOL_VERSION { assert!(r.is_err()); return; }
        match c {
            0x06 => assert!(matches!(r, Ok(Response::Pong))),
            0x07 => assert!(matches!(r, Ok(Response::Goodbye))),
            0x08 => assert!(matches!(r, Ok(Response::ShuttingDown))),
            0x0A => assert!(matches!(r, Ok(Response::SessionStarted))),
            0x0B => assert!(matches!(r, Ok(Response::SessionEnd))),
            _ => assert!(r.is_err()),
        }
    }


    //@ob [C20:request.analyze_decode] level=proved text="decoding an Analyze frame returns exactly the little-endian f64 (bit pattern) and u64 carried by the 16 payload bytes, for every payload"
    #[kani::proof]
    #[kani::stub(alloc::fmt::format, cut_format)]
    #[kani::unwind(3)]
    fn request_analyze_decode() {
        let p: [u8; 16] = kani::any();
        let buf = [PROTOCOL_VERSION, 0x05, p[0], p[1], p[2], p[3], p[4], p[5], p[6], p[7], p[8], p[9], p[10], p[11], p[12], p[13], p[14], p[15]];
        match Request::from_bytes(&buf) {
            Ok(Request::Analyze { sample_rate, max_sample_rows }) => assert!(sample_rate.to_bits() == u64::from_le_bytes([p[0], p[1], p[2], p[3], p[4], p[5], p[6], p[7]]) && max_sample_rows as u64 == u64::from_le_bytes([p[8], p[9], p[10], p[11], p[12], p[13], p[14], p[15]])),
            _ => assert!(false),
        }
    }

    //@ob [C20:request.analyze_encode] level=proved text="encoding Analyze{rate, rows} yields version, 0x05, rate bits LE, rows LE (18 bytes) for every field value; unit requests encode to version + their code"
    #[kani::proof]
    #[kani::unwind(20)]
    fn request_analyze_encode() {
        let bits: u64 = kani::any();
        let rows: usize = kani::any();
        let v = Request::Analyze { sample_rate: f64::from_bits(bits), max_sample_rows: rows }.to_bytes();
        assert!(v.len() == 18 && v[0] == PROTOCOL_VERSION && v[1] == 0x05);
        let a = bits.to_le_bytes(); let b = (rows as u64).to_le_bytes();
        let mut j = 0; while j < 8 { assert!(v[2 + j] == a[j] && v[10 + j] == b[j]); j += 1; }
        let u = Request::Commit.to_bytes();
        assert!(u.len() == 2 && u[0] == PROTOCOL_VERSION && u[1] == 0x0B);
        let u = Request::Rollback.to_bytes();
        assert!(u.len() == 2 && u[1] == 0x0C);
        let u = Request::Begin.to_bytes();
        assert!(u.len() == 2 && u[1] == 0x0A);
    }

    //@ob [C20:response.rows_affected_decode] level=proved text="decoding a RowsAffected frame returns exactly the little-endian counter carried by the payload, for every payload"
    #[kani::proof]
    #[kani::stub(alloc::fmt::format, cut_format)]
    #[kani::unwind(3)]
    fn response_rows_affected_decode() {
        let p: [u8; 8] = kani::any();
        let buf = [PROTOCOL_VERSION, 0x03, p[0], p[1], p[2], p[3], p[4], p[5], p[6], p[7]];
        match Response::from_bytes(&buf) {
            Ok(Response::RowsAffected(n)) => assert!(n == u64::from_le_bytes([p[0], p[1], p[2], p[3], p[4], p[5], p[6], p[7]])),
            _ => assert!(false),
        }
    }

    //@ob [C20:response.vacuum_decode] level=proved text="decoding a VacuumComplete frame returns exactly the three little-endian counters carried by the payload, for every payload"
    #[kani::proof]
    #[kani::stub(alloc::fmt::format, cut_format)]
    #[kani::unwind(3)]
    fn response_vacuum_decode() {
        let p: [u8; 24] = kani::any();
        let buf = [PROTOCOL_VERSION, 0x09, p[0], p[1], p[2], p[3], p[4], p[5], p[6], p[7], p[8], p[9], p[10], p[11], p[12], p[13], p[14], p[15], p[16], p[17], p[18], p[19], p[20], p[21], p[22], p[23]];
        match Response::from_bytes(&buf) {
            Ok(Response::VacuumComplete { tables_vacuumed, bytes_freed, transactions_cleaned }) => assert!(tables_vacuumed as u64 == u64::from_le_bytes([p[0], p[1], p[2], p[3], p[4], p[5], p[6], p[7]]) && bytes_freed as u64 == u64::from_le_bytes([p[8], p[9], p[10], p[11], p[12], p[13], p[14], p[15]]) && transactions_cleaned as u64 == u64::from_le_bytes([p[16], p[17], p[18], p[19], p[20], p[21], p[22], p[23]])),
            _ => assert!(false),
        }
    }

    //@ob [C20:response.counts_encode] level=proved text="encoding RowsAffected(n) / VacuumComplete{a,b,c} yields version, code and the counters little-endian, for every value"
    #[kani::proof]
    #[kani::unwind(28)]
    fn response_counts_encode() {
        let n: u64 = kani::any();
        let v = Response::RowsAffected(n).to_bytes();
        assert!(v.len() == 10 && v[0] == PROTOCOL_VERSION && v[1] == 0x03);
        let a = n.to_le_bytes();
        let mut j = 0; while j < 8 { assert!(v[2 + j] == a[j]); j += 1; }
        let (x, y, z): (usize, usize, usize) = (kani::any(), kani::any(), kani::any());
        let w = Response::VacuumComplete { tables_vacuumed: x, bytes_freed: y, transactions_cleaned: z }.to_bytes();
        assert!(w.len() == 26 && w[1] == 0x09);
        let (xa, ya, za) = ((x as u64).to_le_bytes(), (y as u64).to_le_bytes(), (z as u64).to_le_bytes());
        let mut k = 0; while k < 8 { assert!(w[2 + k] == xa[k] && w[10 + k] == ya[k] && w[18 + k] == za[k]); k += 1; }
    }

    //@ob [C20,C16:short_frames_total] level=proved text="Request::from_bytes and Response::from_bytes on EVERY byte string of length 0..=3 return Ok or Err without panicking"
    #[kani::proof]
    #[kani::stub(alloc::fmt::format, cut_format)]
    #[kani::unwind(5)]
    fn short_frames_total() {
        let buf: [u8; 3] = kani::any();
        let n: usize = kani::any();
        kani::assume(n <= 3);
        let r = Request::from_bytes(&buf[..n]);
        if n == 0 { assert!(r.is_err()); }
        let q = Response::from_bytes(&buf[..n]);
        if n < 2 { assert!(q.is_err()); }
    }

    //@ob [C20:frame.cap_before_alloc] level=proved text="read_message rejects every announced length above 16 MiB with MessageTooLarge (before reading or allocating the body), for every 4-byte length prefix"
    #[kani::proof]
    #[kani::unwind(6)]
    fn frame_cap_before_alloc() {
        let hdr: [u8; 4] = kani::any();
        let len = u32::from_le_bytes(hdr) as usize;
        kani::assume(len > MAX_MESSAGE_SIZE);
        let mut rd: &[u8] = &hdr;
        match read_message(&mut rd) {
            Err(TcpError::MessageTooLarge(l)) => assert!(l == len),
            _ => assert!(false),
        }
    }
    //@ob [C20:string.length_prefix_is_byte_length] level=bounded bound="every string of 0..=2 bytes of valid UTF-8 (all 1- and 2-byte scalar values)" text="write_string emits the BYTE length of the string as its little-endian u32 prefix, followed by exactly its bytes -- so the decoder, which counts bytes, reads back what was written also for non-ASCII text"
    #[kani::proof]
    #[kani::unwind(8)]
    fn string_length_prefix_is_byte_length() {
        let raw: [u8; 2] = kani::any();
        let n: usize = kani::any();
        kani::assume(n <= 2);
        if let Ok(s) = std::str::from_utf8(&raw[..n]) {
            let mut buf: Vec<u8> = Vec::new();
            write_string(&mut buf, s);
            assert!(buf.len() == 4 + n);
            assert!(u32::from_le_bytes([buf[0], buf[1], buf[2], buf[3]]) as usize == n);
            let mut k = 0;
            while k < n { assert!(buf[4 + k] == raw[k]); k += 1; }
        }
    }
}
