//@kunit props=C20,C16 append=crates/axmos-db/src/tcp/mod.rs
// Unit `wire`: request/response codec and framing (C20).  Fixed-size frames are checked
// completely (every field value); string-carrying frames and arbitrary-byte decoding are bounded
// by a stated length.
//@trusted String::from_utf8_lossy is the identity on valid UTF-8 (std); strings in the bounded harnesses are ASCII
#[cfg(kani)]
mod axv_wire {
    use super::*;

    //@ob [C20:status.total_inverse] level=proved text="StatusCode::try_from is the inverse of `as u8` on the 12 codes and an error on every other byte"
    #[kani::proof]
    fn status_total_inverse() {
        let b: u8 = kani::any();
        match StatusCode::try_from(b) {
            Ok(s) => assert!(s as u8 == b && b <= 0x0B),
            Err(TcpError::UnknownStatus(x)) => assert!(x == b && b > 0x0B),
            Err(_) => assert!(false),
        }
    }

    fn any_fixed_request() -> Request {
        match kani::any::<u8>() % 8 {
            0 => Request::Analyze { sample_rate: f64::from_bits(kani::any()), max_sample_rows: kani::any() },
            1 => Request::Close, 2 => Request::Ping, 3 => Request::Vacuum, 4 => Request::Begin,
            5 => Request::Commit, 6 => Request::Rollback, _ => Request::Shutdown,
        }
    }
    fn same_request(a: &Request, b: &Request) -> bool {
        match (a, b) {
            (Request::Analyze { sample_rate: x, max_sample_rows: m }, Request::Analyze { sample_rate: y, max_sample_rows: n }) => x.to_bits() == y.to_bits() && m == n,
            (Request::Close, Request::Close) | (Request::Ping, Request::Ping) | (Request::Vacuum, Request::Vacuum)
            | (Request::Begin, Request::Begin) | (Request::Commit, Request::Commit) | (Request::Rollback, Request::Rollback)
            | (Request::Shutdown, Request::Shutdown) => true,
            _ => false,
        }
    }

    //@ob [C20:request.fixed_roundtrip] level=proved text="Request::from_bytes(to_bytes(m)) == m for every fixed-size request (Analyze with every f64 bit pattern and row count, Close, Ping, Vacuum, Begin, Commit, Rollback, Shutdown)"
    #[kani::proof]
    #[kani::unwind(20)]
    fn request_fixed_roundtrip() {
        let m = any_fixed_request();
        let bytes = m.to_bytes();
        match Request::from_bytes(&bytes) {
            Ok(d) => assert!(same_request(&m, &d)),
            Err(_) => assert!(false),
        }
    }

    //@ob [C20:response.fixed_roundtrip] level=proved text="Response::from_bytes(to_bytes(m)) == m for every fixed-size response (RowsAffected with every count, VacuumComplete with every counter triple, Pong, Goodbye, ShuttingDown, SessionStarted, SessionEnd)"
    #[kani::proof]
    #[kani::unwind(28)]
    fn response_fixed_roundtrip() {
        let k: u8 = kani::any();
        let a: u64 = kani::any();
        let (x, y, z): (usize, usize, usize) = (kani::any(), kani::any(), kani::any());
        let m = match k % 7 {
            0 => Response::RowsAffected(a),
            1 => Response::VacuumComplete { tables_vacuumed: x, bytes_freed: y, transactions_cleaned: z },
            2 => Response::Pong, 3 => Response::Goodbye, 4 => Response::ShuttingDown,
            5 => Response::SessionStarted, _ => Response::SessionEnd,
        };
        let bytes = m.to_bytes();
        match (Response::from_bytes(&bytes), &m) {
            (Ok(Response::RowsAffected(c)), Response::RowsAffected(_)) => assert!(c == a),
            (Ok(Response::VacuumComplete { tables_vacuumed, bytes_freed, transactions_cleaned }), Response::VacuumComplete { .. }) => assert!(tables_vacuumed == x && bytes_freed == y && transactions_cleaned == z),
            (Ok(Response::Pong), Response::Pong) | (Ok(Response::Goodbye), Response::Goodbye) | (Ok(Response::ShuttingDown), Response::ShuttingDown)
            | (Ok(Response::SessionStarted), Response::SessionStarted) | (Ok(Response::SessionEnd), Response::SessionEnd) => {}
            _ => assert!(false),
        }
    }

    //@ob [C20,C16:request.garbage_no_panic] level=bounded bound="every byte string of length <= 10" text="Request::from_bytes on arbitrary bytes returns Ok or Err, never panics; a wrong version byte or unknown command is an error"
    #[kani::proof]
    #[kani::unwind(12)]
    fn request_garbage_no_panic() {
        let buf: [u8; 10] = kani::any();
        let n: usize = kani::any();
        kani::assume(n <= 10);
        let r = Request::from_bytes(&buf[..n]);
        if n >= 1 && buf[0] != PROTOCOL_VERSION { assert!(r.is_err()); }
        if n == 0 { assert!(r.is_err()); }
    }

    //@ob [C20,C16:response.garbage_no_panic] level=bounded bound="every byte string of length <= 10" text="Response::from_bytes on arbitrary bytes returns Ok or Err, never panics"
    #[kani::proof]
    #[kani::unwind(12)]
    fn response_garbage_no_panic() {
        let buf: [u8; 10] = kani::any();
        let n: usize = kani::any();
        kani::assume(n <= 10);
        let r = Response::from_bytes(&buf[..n]);
        if n < 2 { assert!(r.is_err()); }
    }

    //@ob [C20:string.roundtrip] level=bounded bound="ASCII strings of length <= 3" text="read_string_with_len(write_string(s)) == (s, 4 + len) and the reader consumes exactly the written bytes"
    #[kani::proof]
    #[kani::unwind(8)]
    fn string_roundtrip() {
        let raw: [u8; 3] = kani::any();
        let n: usize = kani::any();
        kani::assume(n <= 3);
        kani::assume(raw[0] < 128 && raw[1] < 128 && raw[2] < 128);
        let s = std::str::from_utf8(&raw[..n]).unwrap();
        let mut buf = Vec::new();
        write_string(&mut buf, s);
        assert!(buf.len() == 4 + n);
        match read_string_with_len(&buf) {
            Ok((d, used)) => { assert!(used == 4 + n); assert!(d.as_bytes() == &raw[..n]); }
            Err(_) => assert!(false),
        }
    }

    //@ob [C20:frame.cap_before_alloc] level=proved text="read_message rejects every announced length above 16 MiB with MessageTooLarge (before reading or allocating the body), for every 4-byte length prefix"
    #[kani::proof]
    #[kani::unwind(6)]
    fn frame_cap_before_alloc() {
        let hdr: [u8; 4] = kani::any();
        let len = u32::from_le_bytes(hdr) as usize;
        kani::assume(len > MAX_MESSAGE_SIZE);
        let mut rd: &[u8] = &hdr;
        match read_message(&mut rd) {
            Err(TcpError::MessageTooLarge(l)) => assert!(l == len),
            _ => assert!(false),
        }
    }
}
