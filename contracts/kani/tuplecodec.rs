//@kunit props=C18 append=crates/axmos-db/src/storage/tuple.rs
// Unit `tuplecodec` (bounded, time-boxed): the row codec on real bytes for ONE fixed schema
// (key BIGUINT, values INT NULL-able + BIGINT NULL-able), every value and NULL pattern.
//@trusted std::hash::RandomState::new stubbed (Schema.column_index is never consulted by the codec)
//@trusted alloc::fmt::format stubbed (error texts)
#[cfg(kani)]
mod axv_tuplecodec {
    use super::*;
    use crate::schema::base::Column;
    use crate::types::{DataTypeKind, Int32, Int64, UInt64};
    use std::collections::HashMap;

    fn fixed_state() -> std::hash::RandomState {
        unsafe { std::mem::transmute::<(u64, u64), std::hash::RandomState>((7, 11)) }
    }
    fn cut_format(_a: std::fmt::Arguments<'_>) -> String { String::new() }

    fn schema_k1_v2() -> Schema {
        Schema {
            columns: vec![
                Column::new_with_defaults(DataTypeKind::BigUInt, "k"),
                Column::new_with_defaults(DataTypeKind::Int, "a"),
                Column::new_with_defaults(DataTypeKind::BigInt, "b"),
            ],
            num_keys: 1,
            table_constraints: None,
            column_index: HashMap::new(),
            table_indexes: None,
        }
    }

    //@ob [C18:codec.build_parse_roundtrip] level=bounded tier=thorough bound="schema (BIGUINT key; INT, BIGINT nullable values), every key/value and NULL pattern, no update chain" text="TupleBuilder::build then Row::from_bytes_checked returns the same key, values and NULL flags"
    #[kani::proof]
    #[kani::stub(std::hash::RandomState::new, fixed_state)]
    #[kani::stub(alloc::fmt::format, cut_format)]
    #[kani::unwind(6)]
    fn codec_build_parse_roundtrip() {
        let schema = std::mem::ManuallyDrop::new(schema_k1_v2());
        let k: u64 = kani::any();
        let a: Option<i32> = if kani::any() { Some(kani::any()) } else { None };
        let b: Option<i64> = if kani::any() { Some(kani::any()) } else { None };
        let row = std::mem::ManuallyDrop::new(Row::from(vec![
            DataType::BigUInt(UInt64(k)),
            match a { Some(v) => DataType::Int(Int32(v)), None => DataType::Null },
            match b { Some(v) => DataType::BigInt(Int64(v)), None => DataType::Null },
        ]));
        let xmin: u64 = kani::any();
        let t = match TupleBuilder::from_schema(&schema).build(&row, xmin) { Ok(t) => std::mem::ManuallyDrop::new(t), Err(_) => { assert!(false); return; } };
        assert!(t.xmin() == xmin && t.xmax().is_none() && t.version() == 0);
        match Row::from_bytes_checked(t.effective_data(), &schema) {
            Ok(r) => {
                let r = std::mem::ManuallyDrop::new(r);
                assert!(r.len() == 3);
                assert!(matches!(&r[0], DataType::BigUInt(x) if x.0 == k));
                match (a, &r[1]) { (Some(v), DataType::Int(x)) => assert!(x.0 == v), (None, DataType::Null) => {}, _ => assert!(false) }
                match (b, &r[2]) { (Some(v), DataType::BigInt(x)) => assert!(x.0 == v), (None, DataType::Null) => {}, _ => assert!(false) }
            }
            Err(_) => assert!(false),
        }
    }
}
